// C20 harness: the fields pipe returns a faithful projection of each stored document.
//
//   - channel "fields.filter": the real storeapi docFieldsFilter (pooled, as doFetch uses it) vs SV.Fields.filterFields:
//     which stored fields survive and in which order (values are the field positions, so the output identifies nodes).
//   - channel "fields.pipe": proxy/search.tryParseFieldsFilter on generated SeqQL queries vs SV.Fields.firstFieldsPipe.
//   - oracle "fields.fetch": the real storeapi.GrpcV1.Fetch with a FieldsFilter over stored JSON documents of every
//     value shape: each answer must be valid JSON, an object holding exactly the listed (or, with except, the other)
//     top-level fields with their original values; not-found entries, order and number of entries as without a filter.
package main

import (
	"bytes"
	"context"
	"encoding/hex"
	"encoding/json"
	"fmt"
	"io"
	"os"
	"os/exec"
	"path/filepath"
	"sort"
	"strings"
	"sync"
	"time"
	"unicode"
	"unicode/utf8"

	"go.uber.org/zap"
	"google.golang.org/grpc"
	"google.golang.org/grpc/codes"
	"google.golang.org/grpc/metadata"
	"google.golang.org/grpc/status"

	"github.com/ozontech/seq-db/consts"
	"github.com/ozontech/seq-db/disk"
	"github.com/ozontech/seq-db/frac"
	"github.com/ozontech/seq-db/fracmanager"
	"github.com/ozontech/seq-db/logger"
	"github.com/ozontech/seq-db/mappingprovider"
	proxypb "github.com/ozontech/seq-db/pkg/seqproxyapi/v1"
	pb "github.com/ozontech/seq-db/pkg/storeapi"
	"github.com/ozontech/seq-db/proxy/search"
	"github.com/ozontech/seq-db/proxy/stores"
	"github.com/ozontech/seq-db/proxyapi"
	"github.com/ozontech/seq-db/seq"
	"github.com/ozontech/seq-db/storeapi"

	"verifharness/internal/vh"
)

// ---------------------------------------------------------------- JSON helpers

type kv struct {
	key string // unescaped name
	raw []byte // value text
}

// topLevel splits a JSON object into its ordered (name, raw value) pairs using encoding/json.
func topLevel(doc []byte) ([]kv, error) {
	dec := json.NewDecoder(bytes.NewReader(doc))
	dec.UseNumber()
	t, err := dec.Token()
	if err != nil {
		return nil, err
	}
	if d, ok := t.(json.Delim); !ok || d != '{' {
		return nil, fmt.Errorf("not an object")
	}
	var res []kv
	for dec.More() {
		kt, err := dec.Token()
		if err != nil {
			return nil, err
		}
		k, ok := kt.(string)
		if !ok {
			return nil, fmt.Errorf("key is not a string")
		}
		var raw json.RawMessage
		if err := dec.Decode(&raw); err != nil {
			return nil, err
		}
		res = append(res, kv{k, raw})
	}
	if _, err := dec.Token(); err != nil {
		return nil, err
	}
	if dec.More() {
		return nil, fmt.Errorf("trailing data")
	}
	return res, nil
}

func compact(b []byte) string {
	var out bytes.Buffer
	if err := json.Compact(&out, b); err != nil {
		return "!" + string(b)
	}
	return out.String()
}

func nameHex(s string) string {
	if s == "" {
		return "e"
	}
	return hex.EncodeToString([]byte(s))
}

func namesHex(ss []string, sep string) string {
	if len(ss) == 0 {
		return "-"
	}
	r := make([]string, len(ss))
	for i, s := range ss {
		r[i] = nameHex(s)
	}
	return strings.Join(r, sep)
}

// ---------------------------------------------------------------- channel fields.filter

type keyForm struct{ raw, name string } // JSON text of the key (with quotes) and its unescaped value

var plainKeys = []keyForm{{`"a"`, "a"}, {`"b"`, "b"}, {`"c"`, "c"}, {`"msg"`, "msg"}, {`"level"`, "level"}, {`"k8s_pod"`, "k8s_pod"},
	{`"ts"`, "ts"}, {`"a.b"`, "a.b"}, {`"x y"`, "x y"}, {`"A"`, "A"}, {`"a|b"`, "a|b"}, {`"p|"`, "p|"}}
var fancyKeys = []keyForm{{`"k\"q"`, `k"q`}, {`"tab\tx"`, "tab\tx"}, {`"sl\/ash"`, "sl/ash"}, {`"bs\\x"`, `bs\x`}, {`"unié"`, "unié"},
	{`"é"`, "é"}, {`"emo😀"`, "emo😀"}, {`"😀pair"`, "😀pair"}, {`""`, ""}, {`"<&>"`, "<&>"}, {`"nl\nx"`, "nl\nx"}, {`"Az"`, "Az"}, {`"日本"`, "日本"},
	// characters that JSON escapes as \u00XX or leaves raw, and Go's strconv.Quote writes as \x01 \a \v \x7f \U000e0001
	// names that differ only by surrounding white space (and the empty name is above): nothing may normalise them
	{`"x\ny"`, "x\ny"}, // a name with a line break (quoted with back quotes in a query)
	{`" a"`, " a"}, {`"a "`, "a "}, {`"\ta"`, "\ta"}, {`" "`, " "}, {`" level "`, " level "},
	{`"c\u0001x"`, "c\x01x"}, {`"bel\u0007"`, "bel\a"}, {`"vt\u000b"`, "vt\v"}, {"\"del\x7f\"", "del\x7f"},
	{"\"tag\U000E0001\"", "tag\U000E0001"}, {`"\udb40\udc01esc"`, "\U000E0001esc"}, {`"ff\u000c"`, "ff\f"}}

// indexDoc renders `{k0:0, k1:1, ...}` with irregular white space (so that a re-encoded answer never equals the stored bytes).
func indexDoc(keys []keyForm, r *vh.RNG) []byte {
	var b bytes.Buffer
	b.WriteString(" {")
	for i, k := range keys {
		if i > 0 {
			b.WriteString(",")
		}
		if r != nil && r.Bool() {
			b.WriteString(" ")
		}
		b.WriteString(k.raw)
		b.WriteString(" :")
		fmt.Fprintf(&b, "%d", i)
	}
	b.WriteString("} ")
	return b.Bytes()
}

// implAnswer runs the real filter and renders which stored positions survive, in output order.
func implAnswer(fields []string, allow bool, doc []byte) string {
	out := storeapi.VerifC20FilterFields(fields, allow, [][]byte{doc})[0]
	if bytes.Equal(out, doc) {
		return "verbatim"
	}
	pairs, err := topLevel(out)
	if err != nil {
		return "invalid-json " + string(out)
	}
	tags := make([]string, len(pairs))
	for i, p := range pairs {
		tags[i] = string(p.raw)
	}
	return "ok " + vh.JoinStrs(tags, ",")
}

func filterChannel(o vh.Opts, r *vh.RNG) *vh.Channel {
	ch := vh.NewChannel("fields.filter", "storeapi docFieldsFilter.FilterDocFields (pooled decoder, as doFetch) vs SV.Fields.filterFields: surviving stored positions in output order. Exhaustive: all documents of <= 4 fields over names {a,b,c} (duplicates included) x all field lists of <= 3 names over {a,b,c,z} (repeats included) x both modes; then random documents up to 40 fields (above insane-json's map threshold 16; unique names there), names with escapes / unicode / empty name, and the verbatim paths (empty list, not-found entry, array, scalar, broken JSON); non-trivial = the document is re-encoded and at least one field removed and one kept")
	ch.Exhaustive = true
	add := func(fields []string, allow bool, keys []keyForm, doc []byte, emptyDoc, isObj bool, tags ...string) {
		mode := "except"
		if allow {
			mode = "allow"
		}
		names := make([]string, len(keys))
		for i, k := range keys {
			names[i] = k.name
		}
		impl := implAnswer(fields, allow, doc)
		nt := false
		if strings.HasPrefix(impl, "ok ") {
			n := 0
			if impl != "ok -" {
				n = strings.Count(impl, ",") + 1
			}
			nt = n > 0 && n < len(keys)
		}
		ch.Add(fmt.Sprintf("fields %s %s %s %s %s", mode, namesHex(fields, ","), namesHex(names, ","), vh.B(emptyDoc), vh.B(isObj)), impl, nt, append(tags, "mode="+mode)...)
	}
	abc := []keyForm{plainKeys[0], plainKeys[1], plainKeys[2]}
	lists := [][]string{nil}
	for n := 1; n <= 3; n++ {
		var rec func(cur []string)
		rec = func(cur []string) {
			if len(cur) == n {
				lists = append(lists, append([]string{}, cur...))
				return
			}
			for _, x := range []string{"a", "b", "c", "z"} {
				rec(append(cur, x))
			}
		}
		rec(nil)
	}
	for n := 0; n <= 4; n++ {
		var rec func(cur []keyForm)
		rec = func(cur []keyForm) {
			if len(cur) == n {
				doc := indexDoc(cur, nil)
				dup := false
				seen := map[string]bool{}
				for _, k := range cur {
					dup = dup || seen[k.name]
					seen[k.name] = true
				}
				for _, l := range lists {
					for _, allow := range []bool{true, false} {
						tag := "exh-unique-names"
						if dup {
							tag = "exh-dup-names"
						}
						add(l, allow, cur, doc, false, true, tag)
					}
				}
				return
			}
			for _, k := range abc {
				rec(append(append([]keyForm{}, cur...), k))
			}
		}
		rec(nil)
	}
	pool := append(append([]keyForm{}, plainKeys...), fancyKeys...)
	for i := 0; i < o.Pick(1500, 30000); i++ {
		n := r.Intn(12)
		tag := "random<=16"
		if r.Intn(4) == 0 {
			n = 17 + r.Intn(24)
			tag = "random>16"
		}
		var keys []keyForm
		seen := map[string]bool{}
		allowDup := n <= 16 && r.Intn(4) == 0
		for len(keys) < n {
			var k keyForm
			if r.Intn(3) == 0 || len(seen) >= len(pool) {
				s := fmt.Sprintf("f%d", r.Intn(60))
				k = keyForm{`"` + s + `"`, s}
			} else {
				k = pool[r.Intn(len(pool))]
			}
			if seen[k.name] && !allowDup {
				continue
			}
			if seen[k.name] {
				tag = "random-dup-names"
			}
			seen[k.name] = true
			keys = append(keys, k)
		}
		var fields []string
		for j := r.Intn(6); j > 0; j-- {
			switch {
			case len(keys) > 0 && r.Intn(4) > 0:
				fields = append(fields, keys[r.Intn(len(keys))].name)
			default:
				fields = append(fields, []string{"zz", "", "a", "nope"}[r.Intn(4)])
			}
		}
		if r.Intn(15) == 0 && len(keys) > 0 { // all names
			fields = nil
			for _, k := range keys {
				fields = append(fields, k.name)
			}
		}
		add(fields, r.Bool(), keys, indexDoc(keys, r), false, true, tag)
	}
	// the verbatim paths
	for _, allow := range []bool{true, false} {
		add([]string{"a"}, allow, nil, nil, true, true, "not-found-entry")
		add([]string{"a"}, allow, nil, []byte(` [1,2] `), false, false, "array")
		add([]string{"a"}, allow, nil, []byte(` 17 `), false, false, "scalar")
		add([]string{"a"}, allow, nil, []byte(` {"a":1 `), false, false, "broken-json")
		add(nil, allow, []keyForm{plainKeys[0]}, []byte(` {"a" :0} `), false, true, "empty-list")
	}
	return ch
}

// ---------------------------------------------------------------- channel fields.pipe

// longFilter: the filter part in front of the pipe.  One query in four carries a phrase of 257..2000 bytes on the
// text-mapped field `message` (or-ed, so the result set stays "all documents"): the stores parse it with the real
// mapping, the proxy re-parses the whole query with a nil mapping when it extracts the pipe.
func longFilter(r *vh.RNG) string {
	if r.Intn(4) != 0 {
		return "service:c20"
	}
	n := 257 + r.Intn(1744)
	var b strings.Builder
	for b.Len() < n {
		b.WriteString([]string{"timeout", "while", "connecting", "to", "upstream", "retry", "x"}[r.Intn(7)])
		b.WriteByte(' ')
	}
	return `service:c20 or message:"` + b.String()[:n] + `"`
}

// kwCase writes a keyword in one of the spellings the lexer accepts (lexer.IsKeyword is case-insensitive).
func kwCase(r *vh.RNG, kw string) string {
	switch r.Intn(4) {
	case 0:
		return strings.ToUpper(kw)
	case 1:
		return strings.ToUpper(kw[:1]) + kw[1:]
	}
	return kw
}

// uniSpaces are separators the lexer skips with unicode.IsSpace (ASCII blank, tab, NBSP, NEL, EM SPACE, IDEOGRAPHIC SPACE)
var uniSpaces = []string{" ", " ", "  ", "\t", "\u00a0", "\u0085", "\u2003", "\u3000",
	"\n", "\r\n", " # note | fields z\n", "\n# a comment line\r\n  "} // a `#` comment runs to the end of its line: white space

// parseChannel: parser.parsePipeFields / parseFieldList / parseCompositeToken (through search.tryParseFieldsFilter)
// vs SV.Fields.parsePipeFields on the token list the lexer produces for the generated text.
func parseChannel(o vh.Opts, r *vh.RNG) *vh.Channel {
	ch := vh.NewChannel("fields.parse", "search.tryParseFieldsFilter(`service:c20 | <text>`) vs SV.Fields.parsePipeFields on the lexer tokens of <text> (text, quoted, space-skipped): keywords fields/except in lower, UPPER, Capitalised spelling and with the non-ASCII fold partner (fieldſ), quoted keywords as names, composite names glued without white space (a-b, a.b, a_b-c, a\"b c\", x*), symbol tokens ($ % & @ - * and the non-ASCII € — ™ ° ¿ 😀) alone and inside names, non-ASCII letters and digits (é ж 中 ٣) in names - the letter/digit answer for the first rune of a token is Go's unicode.IsLetter/IsDigit, passed to the model as an oracle bit, white space of every unicode kind between names, optional commas, error shapes (missing list, leading / trailing / double comma, no fields keyword, bare symbol); non-trivial = the pipe parses")
	type tok struct {
		text   string
		quoted bool
		word   bool // a run of token runes (two of them need white space in between)
	}
	words := []string{"a", "b", "message", "k8s_pod", "level", "a.b", "ts", "zone_1", "x", "é", "日本", "Except", "or", "fields",
		"ж", "中", "٣", "naïve", "٣٤", "éa", "x٣"} // letters and digits of several scripts
	quotedNames := []string{"except", "EXCEPT", "fields", "x y", "a|b", "", "k$", "x\ny", "# no comment"}
	symbols := []string{"$", "%", "&", "@", "-", "-", "*", "€", "—", "™", "°", "¿", "😀"} // one rune each; the non-ASCII ones are no letters
	n := o.Pick(1200, 15000)
	for i := 0; i < n; i++ {
		var ts []tok
		var glue []bool // white space before token i
		tags := []string{}
		add := func(t tok, space bool) {
			if len(ts) > 0 && !space && ts[len(ts)-1].word && !ts[len(ts)-1].quoted && t.word && !t.quoted {
				space = true // two bare words always need a separator
			}
			ts = append(ts, t)
			glue = append(glue, space)
		}
		switch r.Intn(14) {
		case 0:
			add(tok{"field", false, true}, true)
			tags = append(tags, "no-keyword")
		case 1:
			add(tok{"field\u017f", false, true}, true) // fieldſ
			tags = append(tags, "keyword-long-s")
		default:
			add(tok{kwCase(r, "fields"), false, true}, true)
		}
		if r.Intn(2) == 0 {
			add(tok{kwCase(r, "except"), false, true}, true)
			tags = append(tags, "except-keyword")
		}
		k := r.Intn(5)
		for j := 0; j < k; j++ {
			if j > 0 && r.Intn(5) > 1 {
				add(tok{",", false, false}, r.Bool())
			}
			// one name: 1..4 glued pieces
			pieces := 1
			if r.Intn(3) == 0 {
				pieces = 2 + r.Intn(3)
				tags = append(tags, "composite-name")
			}
			for pc := 0; pc < pieces; pc++ {
				var t tok
				switch r.Intn(8) {
				case 0, 1:
					t = tok{symbols[r.Intn(len(symbols))], false, false}
					tags = append(tags, "symbol-token")
				case 2:
					t = tok{quotedNames[r.Intn(len(quotedNames))], true, true}
				default:
					t = tok{words[r.Intn(len(words))], false, true}
				}
				add(t, pc == 0)
			}
		}
		switch r.Intn(14) {
		case 0:
			add(tok{",", false, false}, r.Bool())
			tags = append(tags, "trailing-comma")
		case 1:
			if len(ts) > 1 {
				ts = append(ts[:1], append([]tok{{",", false, false}}, ts[1:]...)...)
				glue = append(glue[:1], append([]bool{true}, glue[1:]...)...)
				tags = append(tags, "comma-first")
			}
		}
		var text strings.Builder
		var model []string
		uni := false
		for j, t := range ts {
			if glue[j] {
				sp := uniSpaces[r.Intn(len(uniSpaces))]
				if sp[0] >= 0x80 {
					uni = true
				}
				if strings.Contains(sp, "#") {
					tags = append(tags, "comment")
				}
				text.WriteString(sp)
			}
			m := "u"
			if t.quoted {
				if strings.Contains(t.text, "\n") {
					text.WriteString("`" + t.text + "`")
				} else {
					text.WriteString(`"` + t.text + `"`)
				}
				m = "q"
			} else {
				text.WriteString(t.text)
			}
			if glue[j] {
				m += "s"
			} else {
				m += "n"
			}
			// the unicode oracle: Go's own answer for the first rune
			first, _ := utf8.DecodeRuneInString(t.text)
			if t.text != "" && (unicode.IsLetter(first) || unicode.IsDigit(first)) {
				m += "l"
			} else {
				m += "x"
			}
			if first >= 0x80 && !t.quoted {
				if strings.HasSuffix(m, "l") {
					tags = append(tags, "non-ascii-letter-or-digit")
				} else {
					tags = append(tags, "non-ascii-symbol")
				}
			}
			model = append(model, m+nameHex(t.text))
		}
		if uni {
			tags = append(tags, "non-ascii-space")
		}
		q := "service:c20 |" + text.String()
		fields, allow := search.VerifC20ParseFieldsFilter(q)
		impl := "err"
		if len(fields) > 0 {
			impl = fmt.Sprintf("ok %s %s rest=0", vh.B(allow), namesHex(fields, ","))
		}
		ch.Add("parse "+strings.Join(model, ","), impl, impl != "err", tags...)
	}
	return ch
}

func pipeChannel(o vh.Opts, r *vh.RNG) *vh.Channel {
	ch := vh.NewChannel("fields.pipe", "proxy/search.tryParseFieldsFilter on generated SeqQL queries (filter part x optional `| fields [except] names`, quoted names, a second fields pipe = parse error, legacy/invalid queries) vs SV.Fields.firstFieldsPipe on the generated pipe list; non-trivial = a fields pipe is present")
	filters := []string{`message:a`, `*`, `level:info and not k8s_pod:x*`, `(a:b or c:d)`, `message:"x | fields y"`}
	names := []string{"a", "message", "k8s_pod", "x y", "ts", "level", "a.b", "zone-1", "a|b", "p|", "h#1", "| fields z"}
	quote := func(s string) string {
		if strings.ContainsAny(s, " .|#") {
			return `"` + s + `"`
		}
		return s
	}
	n := o.Pick(300, 4000)
	for i := 0; i < n; i++ {
		q := filters[r.Intn(len(filters))]
		want := "none"
		model := "-"
		switch r.Intn(6) {
		case 0: // no pipe
		case 1: // broken query: no filtering
			q += " | fields"
			model = "-"
		case 2: // two fields pipes: parse error, no filtering
			q += " | fields a | fields except b"
			model = "-"
		default:
			except := r.Bool()
			k := 1 + r.Intn(4)
			var fs, qs []string
			for j := 0; j < k; j++ {
				nm := names[r.Intn(len(names))]
				fs = append(fs, nm)
				qs = append(qs, quote(nm))
			}
			q += " | " + kwCase(r, "fields") + " "
			if except {
				q += kwCase(r, "except") + " "
			}
			q += strings.Join(qs, []string{", ", ",", " , "}[r.Intn(3)])
			switch r.Intn(5) {
			case 0:
				q += " # show these | only"
			case 1:
				q += "\n# comment | fields other\n"
			}
			model = fmt.Sprintf("F:%s:%s", vh.B(except), namesHex(fs, "+"))
			want = fmt.Sprintf("ok %s %s", vh.B(!except), namesHex(fs, ","))
		}
		fields, allow := search.VerifC20ParseFieldsFilter(q)
		impl := "none"
		if len(fields) > 0 {
			impl = fmt.Sprintf("ok %s %s", vh.B(allow), namesHex(fields, ","))
		}
		if impl != want {
			// the generator's own expectation disagrees with the implementation: show it as a disagreement of the channel
			impl = impl + " (query " + q + ")"
		}
		ch.Add("pipe "+model, impl, model != "-", "has-pipe="+vh.B(model != "-"))
	}
	return ch
}

// ---------------------------------------------------------------- oracle fields.fetch

type fakeStream struct {
	grpc.ServerStream
	ctx    context.Context
	blocks [][]byte
}

func (s *fakeStream) Context() context.Context     { return s.ctx }
func (s *fakeStream) SetHeader(metadata.MD) error  { return nil }
func (s *fakeStream) SendHeader(metadata.MD) error { return nil }
func (s *fakeStream) SetTrailer(metadata.MD)       {}
func (s *fakeStream) Send(d *pb.BinaryData) error {
	s.blocks = append(s.blocks, append([]byte{}, d.Data...))
	return nil
}

func genValue(r *vh.RNG, depth int) string {
	scalars := []string{`0`, `-0`, `1.50e3`, `1E+2`, `-12.0`, `123456789012345678901234567890`, `0.000001`, `true`, `false`, `null`,
		`""`, `"x"`, `"a\"b"`, `"line\nbreak"`, `"tab\t"`, `"unié中"`, `"é中😀"`, `"😀"`, `"sl\/ash"`, `"back\\slash"`, `"<&>"`, `"{\"nested\":\"json\"}"`,
		`"v\u0001"`, `"bel\u0007vt\u000b"`, "\"del\x7f\"", "\"tag\U000E0001\"", `"\udb40\udc01"`}
	if depth >= 3 || r.Intn(3) > 0 {
		return scalars[r.Intn(len(scalars))]
	}
	sp := func() string { return []string{"", " ", "  ", "\n", "\t"}[r.Intn(5)] }
	n := r.Intn(4)
	var parts []string
	if r.Bool() {
		for i := 0; i < n; i++ {
			parts = append(parts, sp()+genValue(r, depth+1)+sp())
		}
		return "[" + strings.Join(parts, ",") + "]"
	}
	for i := 0; i < n; i++ {
		k := append(append([]keyForm{}, plainKeys...), fancyKeys...)[r.Intn(len(plainKeys)+len(fancyKeys))]
		parts = append(parts, sp()+k.raw+sp()+":"+sp()+genValue(r, depth+1)+sp())
	}
	return "{" + strings.Join(parts, ",") + "}"
}

func genDoc(r *vh.RNG) ([]byte, []keyForm) {
	pool := append(append([]keyForm{}, plainKeys...), fancyKeys...)
	n := r.Intn(9)
	if r.Intn(8) == 0 {
		n = 17 + r.Intn(10)
	}
	var keys []keyForm
	seen := map[string]bool{}
	if r.Intn(4) == 0 { // the white-space family next to the trimmed names
		for _, k := range []keyForm{{`"a"`, "a"}, {`" a"`, " a"}, {`"a "`, "a "}, {`"\ta"`, "\ta"}, {`" "`, " "}, {`""`, ""}, {`"level"`, "level"}, {`" level "`, " level "}} {
			if r.Intn(3) > 0 {
				seen[k.name] = true
				keys = append(keys, k)
			}
		}
		n = max(n, len(keys))
	}
	for len(keys) < n {
		var k keyForm
		if len(seen) >= len(pool)-2 || r.Intn(4) == 0 {
			s := fmt.Sprintf("g%d", r.Intn(80))
			k = keyForm{`"` + s + `"`, s}
		} else {
			k = pool[r.Intn(len(pool))]
		}
		if seen[k.name] {
			continue
		}
		seen[k.name] = true
		keys = append(keys, k)
	}
	sp := func() string { return []string{"", " ", "  "}[r.Intn(3)] }
	var b strings.Builder
	b.WriteString("{")
	for i, k := range keys {
		if i > 0 {
			b.WriteString(",")
		}
		b.WriteString(sp() + k.raw + sp() + ":" + sp() + genValue(r, 0) + sp())
	}
	b.WriteString("}")
	return []byte(b.String()), keys
}

func multiset(ps []kv) []string {
	r := make([]string, len(ps))
	for i, p := range ps {
		r[i] = fmt.Sprintf("%q=%s", p.key, compact(p.raw))
	}
	sort.Strings(r)
	return r
}

type stored struct {
	id   seq.ID
	doc  []byte
	keys []keyForm
}

// localStore lets the real proxy search.Ingestor talk to the real in-process store (storeapi.GrpcV1).
type localStore struct {
	pb.StoreApiClient
	g    *storeapi.GrpcV1
	host string
	w    *replicaWorld
}

// replicaWorld: which replica answered the last search, and whether that replica is down when the fetch comes
type replicaWorld struct {
	mu          sync.Mutex
	lastSearch  string
	downAtFetch bool
	refused     int
}

func (l *localStore) Search(ctx context.Context, in *pb.SearchRequest, _ ...grpc.CallOption) (*pb.SearchResponse, error) {
	if l.w != nil {
		l.w.mu.Lock()
		l.w.lastSearch = l.host
		l.w.mu.Unlock()
	}
	return l.g.Search(metadata.NewIncomingContext(ctx, metadata.Pairs("use-seq-ql", "true")), in)
}

type clientStream struct {
	grpc.ClientStream
	blocks [][]byte
	pos    int
}

func (c *clientStream) Recv() (*pb.BinaryData, error) {
	if c.pos >= len(c.blocks) {
		return nil, io.EOF
	}
	c.pos++
	return &pb.BinaryData{Data: c.blocks[c.pos-1]}, nil
}

func (l *localStore) Fetch(ctx context.Context, in *pb.FetchRequest, _ ...grpc.CallOption) (pb.StoreApi_FetchClient, error) {
	if l.w != nil {
		l.w.mu.Lock()
		down := l.w.downAtFetch && l.w.lastSearch == l.host
		if down {
			l.w.refused++
		}
		l.w.mu.Unlock()
		if down {
			return nil, status.Error(codes.Unavailable, "replica is down")
		}
	}
	fs := &fakeStream{ctx: ctx}
	if err := l.g.Fetch(in, fs); err != nil {
		return nil, err
	}
	return &clientStream{blocks: fs.blocks}, nil
}

// searchOracle: the real proxy search.Ingestor.Search (search at the store, pagination, fetch with the filter the
// proxy derives from the query text, merged docs stream) over the real store, with and without a `| fields` pipe.
func searchOracle(o vh.Opts, r *vh.RNG, rep *vh.Report, g *storeapi.GrpcV1, docs []stored) *vh.Oracle {
	orc := vh.NewOracle("fields.search", "real proxy/search.Ingestor.Search over the real in-process store (search, pagination, fetch with the filter derived from the query text, docs stream) for `service:c20 | fields [except] names` vs the same search without the pipe: same IDs in the same order, same number of documents, every document the exact projection of the document the plain search returns (which must be the stored bytes); names incl. quoted ones with `|`, trailing `#` comments, sizes/offsets/orders vary; non-trivial = at least one field kept and one removed")
	byID := map[seq.ID]*stored{}
	for i := range docs {
		byID[docs[i].id] = &docs[i]
	}
	empty := &stores.Stores{}
	w := &replicaWorld{}
	si := search.NewIngestor(search.Config{HotStores: &stores.Stores{Shards: [][]string{{"s0", "s1"}}}, HotReadStores: empty, ReadStores: empty, WriteStores: empty},
		map[string]pb.StoreApiClient{"s0": &localStore{g: g, host: "s0", w: w}, "s1": &localStore{g: g, host: "s1", w: w}})
	run := func(q string, off, size int, order seq.DocsOrder) ([]seq.ID, [][]byte, error) {
		qpr, ds, _, err := si.Search(context.Background(), &search.SearchRequest{Q: []byte(q), From: 0, To: seq.MID(1 << 42), Offset: off, Size: size, ShouldFetch: true, Order: order}, nil)
		if err != nil {
			return nil, nil, err
		}
		var ids []seq.ID
		var out [][]byte
		for _, id := range qpr.IDs {
			d, err := ds.Next()
			if err != nil {
				return nil, nil, err
			}
			ids = append(ids, id.ID)
			out = append(out, append([]byte{}, d.Data...))
		}
		return ids, out, nil
	}
	n := o.Pick(200, 2500)
	for q := 0; q < n; q++ {
		base := &docs[r.Intn(len(docs))]
		var fields []string
		for j := 1 + r.Intn(4); j > 0; j-- {
			if len(base.keys) > 0 && r.Intn(4) > 0 {
				fields = append(fields, base.keys[r.Intn(len(base.keys))].name)
			} else {
				fields = append(fields, []string{"no_such_field", "level", "a", "a|b"}[r.Intn(4)])
			}
		}
		// only names the query language can carry without escapes beyond quoting
		ok := true
		var qn []string
		for _, f := range fields {
			simple := f != ""
			for _, c := range f {
				simple = simple && (c >= 'a' && c <= 'z' || c >= 'A' && c <= 'Z' || c >= '0' && c <= '9' || c == '_' || c == '|' || c == ' ' || c == '.' || c == '\n')
			}
			ok = ok && simple
			if strings.Contains(f, "\n") {
				f = "`" + f + "`" // a raw string keeps the line break
			} else if strings.ContainsAny(f, "| .") {
				f = `"` + f + `"`
			}
			qn = append(qn, f)
		}
		if !ok {
			continue
		}
		allow := r.Bool()
		flt := longFilter(r)
		// the query is written on one line or on several: `#` comment lines (holding a `|` and the word fields) before the
		// pipe, LF or CRLF line ends
		sepPipe := " | "
		multiline := "no"
		switch r.Intn(4) {
		case 0:
			sepPipe = "\n# project the answer | fields nothing\n| "
			multiline = "comment-line-before-pipe"
		case 1:
			sepPipe = "\r\n# only a few | fields\r\n  | "
			multiline = "comment-line-before-pipe-crlf"
		}
		qs := flt + sepPipe + kwCase(r, "fields") + " "
		mode := "allow"
		if !allow {
			qs += kwCase(r, "except") + " "
			mode = "except"
		}
		qs += strings.Join(qn, []string{", ", ",", " ", "\u00a0", "\u3000", " , ", ",\n  ", "\n# and\n"}[r.Intn(8)])
		if r.Intn(4) == 0 {
			qs += " # only | these"
		}
		off, size := r.Intn(20), 1+r.Intn(40)
		order := seq.DocsOrderDesc
		if r.Bool() {
			order = seq.DocsOrderAsc
		}
		line := fmt.Sprintf("search seed=%d req=%d off=%d size=%d order=%d query=%s", o.Seed, q, off, size, order, hex.EncodeToString([]byte(qs)))
		ids0, plain, err1 := run(flt, off, size, order)
		// one request in five: the replica that answers the search is down when the documents are fetched; the shard
		// has a second replica with the same data.  An error is an honest answer, a document that is not the
		// projection is not.
		replicaDown := r.Intn(5) == 0
		w.mu.Lock()
		w.downAtFetch = replicaDown
		w.mu.Unlock()
		ids1, filt, err2 := run(qs, off, size, order)
		w.mu.Lock()
		w.downAtFetch = false
		w.mu.Unlock()
		if replicaDown && err1 == nil && err2 != nil {
			orc.Case(line, false, "mode="+mode, "replica-down-at-fetch=error")
			continue
		}
		bad := ""
		keptAny, removedAny := false, false
		switch {
		case err1 != nil || err2 != nil:
			bad = fmt.Sprintf("search failed: %v / %v", err1, err2)
		case len(ids0) != len(ids1) || len(plain) != len(filt):
			bad = fmt.Sprintf("%d documents without the pipe, %d with it", len(ids0), len(ids1))
		case len(ids0) == 0:
			bad = "the plain search returned nothing"
		}
		for i := 0; bad == "" && i < len(ids0); i++ {
			if ids0[i] != ids1[i] {
				bad = fmt.Sprintf("position %d: another document than without the pipe", i)
				break
			}
			st := byID[ids0[i]]
			if st == nil || !bytes.Equal(plain[i], st.doc) {
				bad = fmt.Sprintf("position %d: the plain search does not return the stored bytes", i)
				break
			}
			got, err := topLevel(filt[i])
			if err != nil || !json.Valid(filt[i]) {
				bad = fmt.Sprintf("position %d: answer is not a JSON object: %q", i, clip(filt[i]))
				break
			}
			orig, _ := topLevel(st.doc)
			var want []kv
			for _, p := range orig {
				listed := false
				for _, f := range fields {
					listed = listed || f == p.key
				}
				if listed == allow {
					want = append(want, p)
				}
			}
			keptAny = keptAny || len(want) > 0
			removedAny = removedAny || len(want) < len(orig)
			if strings.Join(multiset(got), "\x00") != strings.Join(multiset(want), "\x00") {
				bad = fmt.Sprintf("position %d: %s %q of %q gave %q", i, mode, fields, clip(st.doc), clip(filt[i]))
			}
		}
		tagDown := "replica-down-at-fetch=no"
		if replicaDown {
			tagDown = "replica-down-at-fetch=answered"
		}
		tagLong := "long-text-literal=no"
		if len(flt) > 200 {
			tagLong = "long-text-literal=yes"
		}
		orc.Case(line, keptAny && removedAny, "mode="+mode, fmt.Sprintf("order=%d", order), tagDown, tagLong, "multi-line="+multiline)
		if bad != "" {
			rep.Violate(vh.Violation{Site: "proxy/search/ingestor.go:Search", Class: "wrong-projection-or-document-set", What: bad + " (query " + qs + ")", Replay: []string{line}})
		}
	}
	return orc
}

// ---------------------------------------------------------------- oracle fields.concurrent (child process)

type testStore struct {
	g    *storeapi.GrpcV1
	fm   *fracmanager.FracManager
	dir  string
	docs []stored
}

// genBigDoc: a document above 128 KiB (the decoder of the pooled field filter grows with it)
func genBigDoc(r *vh.RNG) ([]byte, []keyForm) { return genBigDocN(r, 200_000, 400_000) }

// genBigDocN: a document whose field "big" holds lo..hi bytes
func genBigDocN(r *vh.RNG, lo, hi int) ([]byte, []keyForm) {
	keys := []keyForm{{`"a"`, "a"}, {`"big"`, "big"}, {`"level"`, "level"}, {`"msg"`, "msg"}}
	var b strings.Builder
	b.WriteString(`{"a":` + fmt.Sprint(r.Intn(1000)) + `,"big":"`)
	n := lo + r.Intn(hi-lo)
	for i := 0; i < n; i++ {
		b.WriteByte(byte('a' + (i*7+n)%26))
	}
	b.WriteString(`","level":"info","msg":"m` + fmt.Sprint(r.Intn(1000)) + `"}`)
	return []byte(b.String()), keys
}

func buildStore(r *vh.RNG, nDocs int) (*testStore, error) {
	return buildStoreBig(r, nDocs, 0)
}

func buildStoreBig(r *vh.RNG, nDocs, nBig int) (*testStore, error) {
	dir, err := os.MkdirTemp("", "verif-c20-")
	if err != nil {
		return nil, err
	}
	fm := fracmanager.NewFracManager(&fracmanager.Config{FracSize: 1 << 40, TotalSize: 1 << 42, DataDir: dir})
	if err := fm.Load(context.Background()); err != nil {
		return nil, err
	}
	fm.Start()
	mp, _ := mappingprovider.New("", mappingprovider.WithMapping(seq.TestMapping))
	g := storeapi.NewGrpcV1(storeapi.APIConfig{
		Bulk:   storeapi.BulkConfig{RequestsLimit: consts.DefaultBulkRequestsLimit},
		Search: storeapi.SearchConfig{WorkersCount: 1, FractionsPerIteration: 1, RequestsLimit: consts.DefaultSearchRequestsLimit, Async: fracmanager.AsyncSearcherConfig{DataDir: filepath.Join(dir, "async")}},
	}, fm, mp)
	st := &testStore{g: g, fm: fm, dir: dir}
	for part := 0; part < 2; part++ {
		dp := frac.NewDocProvider()
		for i := 0; i < nDocs/2+nBig; i++ {
			d, keys := genDoc(r)
			if i >= nDocs/2 {
				d, keys = genBigDoc(r)
			}
			id := seq.ID{MID: seq.MID(1_700_000_000_000 + uint64(len(st.docs))), RID: seq.RID(1000 + uint64(r.Intn(1000)))}
			st.docs = append(st.docs, stored{id, d, keys})
			dp.Append(d, nil, id, seq.Tokens("_all_:", "service:c20"))
		}
		req := &pb.BulkRequest{Count: int64(dp.DocCount)}
		req.Docs, req.Metas = dp.Provide()
		if _, err := g.Bulk(context.Background(), req); err != nil {
			return nil, err
		}
		fm.WaitIdle()
		if part == 0 {
			fm.SealForcedForTests()
			fm.WaitIdle()
		}
	}
	return st, nil
}

// checkProjection compares one answered entry with the expected projection of the stored document.
func checkProjection(st *stored, out []byte, fields []string, allow, filtered bool) string {
	if !filtered {
		if !bytes.Equal(out, st.doc) {
			return fmt.Sprintf("fetch without filter returned %q for stored %q", clip(out), clip(st.doc))
		}
		return ""
	}
	if !json.Valid(out) {
		return fmt.Sprintf("answer is not valid JSON: %q (stored %q)", clip(out), clip(st.doc))
	}
	got, err := topLevel(out)
	if err != nil {
		return fmt.Sprintf("answer is not a JSON object: %q", clip(out))
	}
	orig, _ := topLevel(st.doc)
	var want []kv
	for _, p := range orig {
		listed := false
		for _, f := range fields {
			listed = listed || f == p.key
		}
		if listed == allow {
			want = append(want, p)
		}
	}
	if strings.Join(multiset(got), "\x00") != strings.Join(multiset(want), "\x00") {
		mode := "except"
		if allow {
			mode = "allow"
		}
		return fmt.Sprintf("%s %q of %q gave %q", mode, fields, clip(st.doc), clip(out))
	}
	return ""
}

// concurrentChild: several goroutines fetch from the same GrpcV1 at the same time, each with its own field filter
// (or none), after a few warm-up fetches; every response is checked against its own expected projection.
func concurrentChild(seed int64, thorough bool) {
	logger.SetLevel(zap.FatalLevel)
	r := vh.NewRNG(seed)
	st, err := buildStoreBig(r.Fork(), 160, 2)
	if err != nil {
		fmt.Println("child-error", err)
		os.Exit(3)
	}
	type job struct {
		fields   []string
		allow    bool
		filtered bool
	}
	fetch := func(ids []seq.ID, j job) ([][]byte, error) {
		req := &pb.FetchRequest{}
		if j.filtered {
			req.FieldsFilter = &pb.FetchRequest_FieldsFilter{Fields: j.fields, AllowList: j.allow}
		}
		for _, id := range ids {
			req.Ids = append(req.Ids, id.String())
		}
		fs := &fakeStream{ctx: context.Background()}
		if err := st.g.Fetch(req, fs); err != nil {
			return nil, err
		}
		var res [][]byte
		for _, b := range fs.blocks {
			res = append(res, append([]byte{}, disk.DocBlock(b).Payload()...))
		}
		return res, nil
	}
	// warm-up: sequential fetches with and without a filter
	var bigIdx []int
	for i := range st.docs {
		if len(st.docs[i].doc) > 128*1024 {
			bigIdx = append(bigIdx, i)
		}
	}
	for i := 0; i < 4; i++ {
		fetch([]seq.ID{st.docs[i].id}, job{fields: []string{"a"}, allow: i%2 == 0, filtered: i < 3})
	}
	for _, bi := range bigIdx { // history: filtered fetches that decoded a document above 128 KiB
		fetch([]seq.ID{st.docs[bi].id}, job{fields: []string{"a", "msg"}, allow: true, filtered: true})
	}
	workers, iters := 16, 60
	if thorough {
		workers, iters = 32, 200
	}
	var mu sync.Mutex
	var firstBad string
	var total int
	var wg sync.WaitGroup
	start := make(chan struct{})
	for w := 0; w < workers; w++ {
		wr := r.Fork()
		wg.Add(1)
		go func(w int) {
			defer wg.Done()
			<-start
			for it := 0; it < iters; it++ {
				n := 20 + wr.Intn(60)
				var ids []seq.ID
				var sel []*stored
				seen := map[int]bool{}
				for len(ids) < n {
					k := wr.Intn(len(st.docs))
					if len(ids) == 0 && len(bigIdx) > 0 && wr.Intn(6) == 0 { // now and then a document above 128 KiB
						k = bigIdx[wr.Intn(len(bigIdx))]
					}
					if seen[k] || (len(st.docs[k].doc) > 128*1024 && len(ids) > 0) {
						continue
					}
					seen[k] = true
					ids = append(ids, st.docs[k].id)
					sel = append(sel, &st.docs[k])
				}
				j := job{filtered: w%3 != 0, allow: wr.Bool()} // every third worker never sends a filter
				if j.filtered {
					base := sel[wr.Intn(len(sel))]
					for k := 1 + wr.Intn(3); k > 0 && len(base.keys) > 0; k-- {
						j.fields = append(j.fields, base.keys[wr.Intn(len(base.keys))].name)
					}
					j.fields = append(j.fields, []string{"a", "level", "msg", "g7"}[w%4])
				}
				out, err := fetch(ids, j)
				bad := ""
				switch {
				case err != nil:
					bad = "fetch failed: " + err.Error()
				case len(out) != len(ids):
					bad = fmt.Sprintf("%d entries for %d ids", len(out), len(ids))
				}
				for i := 0; bad == "" && i < len(ids); i++ {
					if m := checkProjection(sel[i], out[i], j.fields, j.allow, j.filtered); m != "" {
						bad = fmt.Sprintf("worker %d (filter=%v) entry %d: %s", w, j.filtered, i, m)
					}
				}
				mu.Lock()
				total++
				if bad != "" && firstBad == "" {
					firstBad = bad
				}
				mu.Unlock()
			}
		}(w)
	}
	close(start)
	wg.Wait()
	if firstBad != "" {
		fmt.Println("viol", strings.ReplaceAll(firstBad, "\n", " "))
	}
	fmt.Println("done", total)
	st.fm.Stop()
	os.RemoveAll(st.dir)
	os.Exit(0)
}

func concurrentOracle(o vh.Opts, rep *vh.Report) *vh.Oracle {
	orc := vh.NewOracle("fields.concurrent", "child process: after sequential warm-up fetches (two of them filtered fetches of documents above 128 KiB), 16 (thorough: 32) goroutines fetch 20-80 documents each (now and then one above 128 KiB) from the same storeapi.GrpcV1 at the same time, 60 (200) times, each with its own field list and mode or with no filter at all (every third worker); every response must be its OWN expected projection (or the stored bytes), no error, process alive - only schedule-independent facts are asserted; non-trivial = all")
	rounds := o.Pick(2, 5)
	for k := 0; k < rounds; k++ {
		seed := o.Seed*1000 + int64(k)
		ctx, cancel := context.WithTimeout(context.Background(), 5*time.Minute)
		cmd := exec.CommandContext(ctx, os.Args[0])
		cmd.Env = append(os.Environ(), fmt.Sprintf("VERIF_C20_CHILD=%d:%s", seed, o.Tier))
		var so, se bytes.Buffer
		cmd.Stdout, cmd.Stderr = &so, &se
		runErr := cmd.Run()
		timedOut := ctx.Err() != nil
		cancel()
		line := fmt.Sprintf("concurrent seed=%d tier=%s", seed, o.Tier)
		done := false
		for _, l := range strings.Split(so.String(), "\n") {
			switch {
			case strings.HasPrefix(l, "viol "):
				rep.Violate(vh.Violation{Site: "storeapi/grpc_fetch.go:doFetch", Class: "concurrent-fetch-wrong-projection", What: strings.TrimPrefix(l, "viol "), Replay: []string{line}})
			case strings.HasPrefix(l, "done "):
				done = true
				var n int
				fmt.Sscanf(l, "done %d", &n)
				for i := 0; i < n; i++ {
					orc.Cases++
				}
				orc.Nontrivial += n
			case strings.HasPrefix(l, "child-error"):
				orc.Error = l
			}
		}
		orc.Distribution["rounds"]++
		if len(orc.Samples) < 2 {
			orc.Samples = append(orc.Samples, line)
		}
		if !done && orc.Error == "" {
			what := "the store process died during concurrent fetches"
			class := "concurrent-fetch-process-died"
			if timedOut {
				what, class = "concurrent fetches did not finish within 5 minutes", "concurrent-fetch-hang"
			}
			first := ""
			for _, l := range strings.Split(se.String(), "\n") {
				if strings.HasPrefix(l, "panic:") || strings.HasPrefix(l, "fatal error:") {
					first = l
					break
				}
			}
			rep.Violate(vh.Violation{Site: "storeapi/grpc_fetch.go:doFetch", Class: class, What: fmt.Sprintf("%s: %s (%v)", what, first, runErr), Replay: []string{line}})
		}
	}
	return orc
}

type proxyFetchStream struct {
	grpc.ServerStream
	ctx  context.Context
	docs []*proxypb.Document
}

func (s *proxyFetchStream) Context() context.Context     { return s.ctx }
func (s *proxyFetchStream) SetHeader(metadata.MD) error  { return nil }
func (s *proxyFetchStream) SendHeader(metadata.MD) error { return nil }
func (s *proxyFetchStream) SetTrailer(metadata.MD)       {}
func (s *proxyFetchStream) Send(d *proxypb.Document) error {
	s.docs = append(s.docs, &proxypb.Document{Id: d.Id, Data: append([]byte{}, d.Data...)})
	return nil
}

// proxyFetchOracle: the real proxy Fetch handler (proxyapi.grpcV1.Fetch -> search.Ingestor.Documents -> store Fetch)
// with a fields filter whose names are taken literally: empty, with leading / trailing blanks or tabs, next to
// documents that have exactly such keys and their trimmed twins.
func proxyFetchOracle(o vh.Opts, r *vh.RNG, rep *vh.Report, g *storeapi.GrpcV1, docs []stored) *vh.Oracle {
	orc := vh.NewOracle("fields.proxyfetch", "real proxyapi Fetch handler over search.Ingestor and the in-process store with FieldsFilter names \"\", \" a\", \"a \", \"\\ta\", \" \", \" level \" and their trimmed twins (documents hold both), allow and except, plus ordinary names; every answer is checked like the store-level projection (valid JSON object, exact (name, value) multiset), ids and count as requested; non-trivial = at least one field kept and one removed")
	empty := &stores.Stores{}
	si := search.NewIngestor(search.Config{HotStores: &stores.Stores{Shards: [][]string{{"s0"}}}, HotReadStores: empty, ReadStores: empty, WriteStores: empty},
		map[string]pb.StoreApiClient{"s0": &localStore{g: g}})
	api := proxyapi.VerifNewGrpcV1C16T(si, time.Minute, time.Minute)
	family := []string{"", " a", "a ", "\ta", " ", " level ", "a", "level"}
	var famDocs []int
	for i := range docs {
		for _, k := range docs[i].keys {
			if k.name == " a" || k.name == "a " || k.name == " " || k.name == "\ta" || k.name == " level " {
				famDocs = append(famDocs, i)
				break
			}
		}
	}
	n := o.Pick(120, 1500)
	for q := 0; q < n; q++ {
		var sel []*stored
		seen := map[int]bool{}
		for len(sel) < 1+r.Intn(8) {
			k := r.Intn(len(docs))
			if len(famDocs) > 0 && r.Bool() {
				k = famDocs[r.Intn(len(famDocs))]
			}
			if !seen[k] {
				seen[k] = true
				sel = append(sel, &docs[k])
			}
		}
		var fields []string
		for j := 1 + r.Intn(3); j > 0; j-- {
			if r.Intn(4) > 0 {
				fields = append(fields, family[r.Intn(len(family))])
			} else if b := sel[r.Intn(len(sel))]; len(b.keys) > 0 {
				fields = append(fields, b.keys[r.Intn(len(b.keys))].name)
			} else {
				fields = append(fields, "no_such_field")
			}
		}
		allow := r.Bool()
		mode := "except"
		if allow {
			mode = "allow"
		}
		req := &proxypb.FetchRequest{FieldsFilter: &proxypb.FetchRequest_FieldsFilter{Fields: fields, AllowList: allow}}
		var idS []string
		for _, s := range sel {
			req.Ids = append(req.Ids, s.id.String())
			idS = append(idS, fmt.Sprintf("%d:%d", uint64(s.id.MID), uint64(s.id.RID)))
		}
		line := fmt.Sprintf("proxyfetch seed=%d req=%d %s fields=%s ids=%s", o.Seed, q, mode, namesHex(fields, ","), strings.Join(idS, ","))
		fs := &proxyFetchStream{ctx: context.Background()}
		err := api.Fetch(req, fs)
		bad := ""
		kept, removed := false, false
		switch {
		case err != nil:
			bad = "proxy fetch failed: " + err.Error()
		case len(fs.docs) != len(sel):
			bad = fmt.Sprintf("%d documents for %d ids", len(fs.docs), len(sel))
		}
		for i := 0; bad == "" && i < len(sel); i++ {
			if fs.docs[i].Id != sel[i].id.String() {
				bad = fmt.Sprintf("position %d carries another id", i)
				break
			}
			if m := checkProjection(sel[i], fs.docs[i].Data, fields, allow, true); m != "" {
				bad = fmt.Sprintf("position %d: %s", i, m)
				break
			}
			orig, _ := topLevel(sel[i].doc)
			got, _ := topLevel(fs.docs[i].Data)
			kept = kept || len(got) > 0
			removed = removed || len(got) < len(orig)
		}
		orc.Case(line, kept && removed, "mode="+mode)
		if bad != "" {
			rep.Violate(vh.Violation{Site: "proxyapi/grpc_fetch.go:Fetch", Class: "wrong-projection", What: bad, Replay: []string{line}})
		}
	}
	return orc
}

// slowStream is a fetch stream whose consumer is slow on the first messages (the loader runs ahead).
type slowStream struct {
	fakeStream
	slow int
}

func (s *slowStream) Send(d *pb.BinaryData) error {
	if len(s.blocks) < s.slow {
		time.Sleep(2 * time.Millisecond)
	}
	return s.fakeStream.Send(d)
}

// slowStreamOracle: one filtered fetch of ~1800 documents (two chunks of the store's docs stream) whose consumer is
// slower than the background loader.
func slowStreamOracle(o vh.Opts, r *vh.RNG, rep *vh.Report) *vh.Oracle {
	orc := vh.NewOracle("fields.slowstream", "real storeapi.GrpcV1.Fetch of 1500-1900 stored documents (more than one chunk of the docs stream) with an allow list and with an except list, through a stream whose Send sleeps 2 ms on the first 40 messages (the batch loader runs one batch ahead of the sender); every answer must be its own projection; non-trivial = all")
	st, err := buildStore(r.Fork(), 2000)
	if err != nil {
		orc.Error = err.Error()
		return orc
	}
	defer func() { st.fm.Stop(); os.RemoveAll(st.dir) }()
	for q := 0; q < o.Pick(2, 8); q++ {
		n := 1500 + r.Intn(400)
		perm := r.Perm(len(st.docs))[:n]
		allow := q%2 == 0
		base := &st.docs[perm[r.Intn(n)]]
		fields := []string{"a", "level", "msg", "g7"}
		for _, k := range base.keys {
			fields = append(fields, k.name)
		}
		mode := "except"
		if allow {
			mode = "allow"
		}
		req := &pb.FetchRequest{FieldsFilter: &pb.FetchRequest_FieldsFilter{Fields: fields, AllowList: allow}}
		for _, pi := range perm {
			req.Ids = append(req.Ids, st.docs[pi].id.String())
		}
		line := fmt.Sprintf("slowstream seed=%d req=%d %s n=%d", o.Seed, q, mode, n)
		fs := &slowStream{fakeStream: fakeStream{ctx: context.Background()}, slow: 40}
		bad := ""
		if err := st.g.Fetch(req, fs); err != nil {
			bad = "fetch failed: " + err.Error()
		} else if len(fs.blocks) != n {
			bad = fmt.Sprintf("%d entries for %d ids", len(fs.blocks), n)
		}
		for i := 0; bad == "" && i < n; i++ {
			if m := checkProjection(&st.docs[perm[i]], disk.DocBlock(fs.blocks[i]).Payload(), fields, allow, true); m != "" {
				bad = fmt.Sprintf("entry %d of %d: %s", i, n, m)
			}
		}
		orc.Case(line, true, "mode="+mode)
		if bad != "" {
			rep.Violate(vh.Violation{Site: "storeapi/docs_stream.go:batchLoader", Class: "filtered-batch-overwritten", What: bad, Replay: []string{line}})
		}
	}
	return orc
}

// singleOracle: the single-binary wiring - the real storeapi.Store behind the in-memory StoreApiClient
// (storeapi.NewClient) under the real search.Ingestor - with documents above 16 KiB followed by small ones.
func singleOracle(o vh.Opts, r *vh.RNG, rep *vh.Report) *vh.Oracle {
	orc := vh.NewOracle("fields.single", "single mode: search.Ingestor.Documents over storeapi.NewClient(store) (the in-memory client --mode single uses) on a real store holding documents of 17-90 KiB among small ones; requests put a big document in front of smaller ones (and random orders), with no filter, except lists, and allow lists naming the big field; every answer must be its own document / projection; non-trivial = a big document followed by a smaller one")
	dir, err := os.MkdirTemp("", "verif-c20-single-")
	if err != nil {
		orc.Error = err.Error()
		return orc
	}
	defer os.RemoveAll(dir)
	mp, _ := mappingprovider.New("", mappingprovider.WithMapping(seq.TestMapping))
	ctx := context.Background()
	store, err := storeapi.NewStore(ctx, storeapi.StoreConfig{
		API:         storeapi.APIConfig{Search: storeapi.SearchConfig{WorkersCount: 2, FractionsPerIteration: 2, Async: fracmanager.AsyncSearcherConfig{DataDir: filepath.Join(dir, "async")}}},
		FracManager: *fracmanager.FillConfigWithDefault(&fracmanager.Config{DataDir: dir, FracSize: 1 << 40, TotalSize: 1 << 42, CacheSize: 256 * consts.MB}),
	}, mp)
	if err != nil {
		orc.Error = "NewStore: " + err.Error()
		return orc
	}
	defer store.Stop()
	var docs []stored
	var bigIdx, smallIdx []int
	for part := 0; part < 2; part++ {
		dp := frac.NewDocProvider()
		for i := 0; i < 40; i++ {
			d, keys := genDoc(r)
			if i%4 == 0 {
				d, keys = genBigDocN(r, 17_000, 90_000)
				bigIdx = append(bigIdx, len(docs))
			} else {
				smallIdx = append(smallIdx, len(docs))
			}
			id := seq.ID{MID: seq.MID(1_700_000_000_000 + uint64(len(docs))), RID: seq.RID(1000 + uint64(r.Intn(1000)))}
			docs = append(docs, stored{id, d, keys})
			dp.Append(d, nil, id, seq.Tokens("_all_:", "service:c20"))
		}
		req := &pb.BulkRequest{Count: int64(dp.DocCount)}
		req.Docs, req.Metas = dp.Provide()
		if _, err := store.GrpcV1().Bulk(ctx, req); err != nil {
			orc.Error = "bulk: " + err.Error()
			return orc
		}
		store.FracManager.WaitIdle()
		if part == 0 {
			store.FracManager.SealForcedForTests()
			store.FracManager.WaitIdle()
		}
	}
	hot := stores.NewStoresFromString("memory", 1)
	none := stores.NewStoresFromString("", 1)
	si := search.NewIngestor(search.Config{HotStores: hot, HotReadStores: none, ReadStores: none, WriteStores: none},
		map[string]pb.StoreApiClient{"memory": storeapi.NewClient(store)})
	n := o.Pick(80, 1000)
	for q := 0; q < n; q++ {
		var sel []int
		seen := map[int]bool{}
		pick := func(from []int) {
			k := from[r.Intn(len(from))]
			if !seen[k] {
				seen[k] = true
				sel = append(sel, k)
			}
		}
		shape := []string{"big-then-small", "big-big-small", "random"}[r.Intn(3)]
		switch shape {
		case "big-then-small":
			pick(bigIdx)
			for j := 1 + r.Intn(5); j > 0; j-- {
				pick(smallIdx)
			}
		case "big-big-small": // the second big one smaller or larger than the first, then small ones
			pick(bigIdx)
			pick(bigIdx)
			for j := 1 + r.Intn(3); j > 0; j-- {
				pick(smallIdx)
			}
		default:
			for j := 2 + r.Intn(8); j > 0; j-- {
				if r.Intn(3) == 0 {
					pick(bigIdx)
				} else {
					pick(smallIdx)
				}
			}
		}
		mode := []string{"none", "except", "allow-big"}[r.Intn(3)]
		var ff search.FetchFieldsFilter
		var fields []string
		switch mode {
		case "except":
			fields = []string{"level", "a"}
			ff = search.FetchFieldsFilter{Fields: fields}
		case "allow-big":
			fields = []string{"big", "msg", "a"}
			ff = search.FetchFieldsFilter{Fields: fields, AllowList: true}
		}
		var ids []seq.ID
		var idS []string
		for _, k := range sel {
			ids = append(ids, docs[k].id)
			idS = append(idS, fmt.Sprintf("%d:%d", uint64(docs[k].id.MID), uint64(docs[k].id.RID)))
		}
		line := fmt.Sprintf("single seed=%d req=%d %s mode=%s ids=%s", o.Seed, q, shape, mode, strings.Join(idS, ","))
		bad := ""
		it, err := si.Documents(ctx, search.FetchRequest{IDs: ids, FieldsFilter: ff})
		if err != nil {
			bad = "fetch failed: " + err.Error()
		}
		got := 0
		for bad == "" {
			d, err := it.Next()
			if err != nil {
				break
			}
			if got >= len(sel) {
				bad = "more documents than requested"
				break
			}
			st := &docs[sel[got]]
			if d.ID != st.id {
				bad = fmt.Sprintf("position %d carries another id", got)
				break
			}
			if m := checkProjection(st, d.Data, fields, mode == "allow-big", mode != "none"); m != "" {
				bad = fmt.Sprintf("position %d (%d stored bytes): %s", got, len(st.doc), m)
			}
			got++
		}
		if bad == "" && got != len(sel) {
			bad = fmt.Sprintf("%d documents for %d ids", got, len(sel))
		}
		orc.Case(line, shape != "random", "shape="+shape, "mode="+mode)
		if bad != "" {
			rep.Violate(vh.Violation{Site: "storeapi/client.go:Fetch", Class: "single-mode-wrong-document", What: bad, Replay: []string{line}})
		}
	}
	return orc
}

func fetchOracle(o vh.Opts, r *vh.RNG, rep *vh.Report) *vh.Oracle {
	orc := vh.NewOracle("fields.fetch", "real storeapi.GrpcV1.Fetch with FieldsFilter over stored generated JSON objects (all value types, nesting, escapes, unicode, number notations, empty object, up to 26 fields) x field lists (present, absent, all, none, repeated) x allow/except, sealed and active fractions: every answer valid JSON, an object with exactly the expected top-level (name, value) multiset (values compared after json.Compact), not-found entries and the sequence of IDs as in the fetch without filter; non-trivial = at least one field kept and one removed in some document")
	dir, err := os.MkdirTemp("", "verif-c20-")
	if err != nil {
		orc.Error = err.Error()
		return orc
	}
	defer os.RemoveAll(dir)
	fm := fracmanager.NewFracManager(&fracmanager.Config{FracSize: 1 << 40, TotalSize: 1 << 42, DataDir: dir})
	if err := fm.Load(context.Background()); err != nil {
		orc.Error = err.Error()
		return orc
	}
	fm.Start()
	defer fm.Stop()
	mp, _ := mappingprovider.New("", mappingprovider.WithMapping(seq.TestMapping))
	g := storeapi.NewGrpcV1(storeapi.APIConfig{
		Bulk:   storeapi.BulkConfig{RequestsLimit: consts.DefaultBulkRequestsLimit},
		Search: storeapi.SearchConfig{WorkersCount: 1, FractionsPerIteration: 1, RequestsLimit: consts.DefaultSearchRequestsLimit, Async: fracmanager.AsyncSearcherConfig{DataDir: filepath.Join(dir, "async")}},
	}, fm, mp)

	var docs []stored
	nDocs := o.Pick(120, 1200)
	ctx := context.Background()
	for part := 0; part < 2; part++ { // first half sealed, second half stays active
		dp := frac.NewDocProvider()
		for i := 0; i < nDocs/2; i++ {
			d, keys := genDoc(r)
			id := seq.ID{MID: seq.MID(1_700_000_000_000 + uint64(len(docs))), RID: seq.RID(1000 + uint64(r.Intn(1000)))}
			docs = append(docs, stored{id, d, keys})
			dp.Append(d, nil, id, seq.Tokens("_all_:", "service:c20"))
		}
		req := &pb.BulkRequest{Count: int64(dp.DocCount)}
		req.Docs, req.Metas = dp.Provide()
		if _, err := g.Bulk(ctx, req); err != nil {
			orc.Error = "bulk: " + err.Error()
			return orc
		}
		fm.WaitIdle()
		if part == 0 {
			fm.SealForcedForTests()
			fm.WaitIdle()
		}
	}
	fetch := func(ids []seq.ID, ff *pb.FetchRequest_FieldsFilter) ([][]byte, []seq.ID, error) {
		req := &pb.FetchRequest{FieldsFilter: ff}
		for _, id := range ids {
			req.Ids = append(req.Ids, id.String())
		}
		fs := &fakeStream{ctx: ctx}
		if err := g.Fetch(req, fs); err != nil {
			return nil, nil, err
		}
		var res [][]byte
		var got []seq.ID
		for _, b := range fs.blocks {
			blk := disk.DocBlock(b)
			res = append(res, append([]byte{}, blk.Payload()...))
			got = append(got, seq.ID{MID: seq.MID(blk.GetExt1()), RID: seq.RID(blk.GetExt2())})
		}
		return res, got, nil
	}
	violate := func(class, what string, line string) {
		rep.Violate(vh.Violation{Site: "storeapi/grpc_fetch.go:filterFields", Class: class, What: what, Replay: []string{line}})
	}
	nReq := o.Pick(150, 2500)
	for q := 0; q < nReq; q++ {
		// a request of up to 12 distinct IDs, some absent
		n := 1 + r.Intn(12)
		var ids []seq.ID
		var sel []*stored
		seen := map[int]bool{}
		for len(ids) < n {
			if r.Intn(6) == 0 {
				ids = append(ids, seq.ID{MID: seq.MID(1_600_000_000_000 + uint64(r.Intn(1000))), RID: seq.RID(r.U64() | 1<<40)})
				sel = append(sel, nil)
				continue
			}
			k := r.Intn(len(docs))
			if seen[k] {
				continue
			}
			seen[k] = true
			ids = append(ids, docs[k].id)
			sel = append(sel, &docs[k])
		}
		// the field list: from the names of one selected document plus absent / repeated names
		var fields []string
		var base *stored
		for _, s := range sel {
			if s != nil && len(s.keys) > 0 {
				base = s
			}
		}
		kind := []string{"some", "absent-only", "all", "repeated", "mixed"}[r.Intn(5)]
		switch {
		case base == nil || kind == "absent-only":
			fields = []string{"no_such_field", "zz"}
		case kind == "all":
			for _, k := range base.keys {
				fields = append(fields, k.name)
			}
		default:
			for j := 1 + r.Intn(4); j > 0; j-- {
				fields = append(fields, base.keys[r.Intn(len(base.keys))].name)
			}
			if kind == "repeated" {
				fields = append(fields, fields[0])
			}
			if kind == "mixed" {
				fields = append(fields, "no_such_field")
			}
		}
		allow := r.Bool()
		mode := "except"
		if allow {
			mode = "allow"
		}
		var idS []string
		for _, id := range ids {
			idS = append(idS, fmt.Sprintf("%d:%d", uint64(id.MID), uint64(id.RID)))
		}
		line := fmt.Sprintf("fetch seed=%d req=%d %s fields=%s ids=%s", o.Seed, q, mode, namesHex(fields, ","), strings.Join(idS, ","))
		// half of the simple-name requests take the filter the proxy would send for the query text
		// (search.tryParseFieldsFilter); the expectation stays the meaning of the pipe
		ff := &pb.FetchRequest_FieldsFilter{Fields: fields, AllowList: allow}
		via := "direct"
		simple := true
		for _, f := range fields {
			ok := f != ""
			for _, c := range f {
				ok = ok && (c >= 'a' && c <= 'z' || c >= 'A' && c <= 'Z' || c >= '0' && c <= '9' || c == '_' || c == '|')
			}
			simple = simple && ok
		}
		if simple && r.Bool() {
			via = "query"
			qs := longFilter(r) + " | " + kwCase(r, "fields") + " "
			if !allow {
				qs += kwCase(r, "except") + " "
			}
			qn := make([]string, len(fields))
			for i, f := range fields {
				qn[i] = f
				if strings.Contains(f, "|") {
					qn[i] = `"` + f + `"`
				}
			}
			qs += strings.Join(qn, []string{", ", ",", " ", "\u00a0", "\u2003", " , "}[r.Intn(6)])
			if r.Intn(4) == 0 {
				qs += " # projection | for the dashboard"
			}
			pf, pa := search.VerifC20ParseFieldsFilter(qs)
			ff = &pb.FetchRequest_FieldsFilter{Fields: pf, AllowList: pa}
			line += " query=" + hex.EncodeToString([]byte(qs))
		}
		plain, idsPlain, err1 := fetch(ids, nil)
		filt, idsFilt, err2 := fetch(ids, ff)
		if err1 != nil || err2 != nil {
			violate("fetch-error", fmt.Sprintf("fetch failed: %v / %v", err1, err2), line)
			continue
		}
		keptAny, removedAny := false, false
		bad := ""
		if len(plain) != len(ids) || len(filt) != len(ids) {
			bad = fmt.Sprintf("%d entries without filter, %d with filter, %d requested", len(plain), len(filt), len(ids))
		}
		for i := 0; bad == "" && i < len(ids); i++ {
			if idsPlain[i] != ids[i] || idsFilt[i] != ids[i] {
				bad = fmt.Sprintf("entry %d carries another id", i)
				break
			}
			if sel[i] == nil {
				if len(plain[i]) != 0 || len(filt[i]) != 0 {
					bad = fmt.Sprintf("entry %d: absent id answered with %d / %d bytes", i, len(plain[i]), len(filt[i]))
				}
				continue
			}
			if !bytes.Equal(plain[i], sel[i].doc) {
				bad = fmt.Sprintf("entry %d: fetch without filter does not return the stored bytes", i)
				break
			}
			if !json.Valid(filt[i]) {
				bad = fmt.Sprintf("entry %d: answer is not valid JSON: %q (stored %q)", i, clip(filt[i]), clip(sel[i].doc))
				break
			}
			got, err := topLevel(filt[i])
			if err != nil {
				bad = fmt.Sprintf("entry %d: answer is not a JSON object: %q", i, clip(filt[i]))
				break
			}
			orig, _ := topLevel(sel[i].doc)
			var want []kv
			for _, p := range orig {
				listed := false
				for _, f := range fields {
					listed = listed || f == p.key
				}
				if listed == allow {
					want = append(want, p)
				}
			}
			if len(want) > 0 {
				keptAny = true
			}
			if len(want) < len(orig) {
				removedAny = true
			}
			a, b := multiset(got), multiset(want)
			if strings.Join(a, "\x00") != strings.Join(b, "\x00") {
				bad = fmt.Sprintf("entry %d: %s %q (filter from %s) of %q gave %q", i, mode, fields, via, clip(sel[i].doc), clip(filt[i]))
				break
			}
		}
		orc.Case(line, keptAny && removedAny, "mode="+mode, "list="+kind, "filter-from="+via)
		if bad != "" {
			violate("wrong-projection", bad, line)
		}
	}
	rep.AddOracle(searchOracle(o, r, rep, g, docs))
	rep.AddOracle(proxyFetchOracle(o, r, rep, g, docs))
	return orc
}

func clip(b []byte) string {
	if len(b) > 160 {
		return string(b[:160]) + "..."
	}
	return string(b)
}

func main() {
	if c := os.Getenv("VERIF_C20_CHILD"); c != "" {
		var seed int64
		var tier string
		if i := strings.IndexByte(c, ':'); i > 0 {
			fmt.Sscanf(c[:i], "%d", &seed)
			tier = c[i+1:]
		}
		concurrentChild(seed, tier == "thorough")
		return
	}
	o := vh.ParseFlags()
	logger.SetLevel(zap.FatalLevel)
	rep := vh.NewReport("C20", o)
	rng := vh.NewRNG(o.Seed)
	if o.Replay != "" {
		// replay lines carry the seed and the request number: re-run the oracle with that seed
		lines, err := vh.ReadReplay(o.Replay)
		if err != nil {
			fmt.Fprintln(os.Stderr, err)
			os.Exit(3)
		}
		for _, l := range lines {
			if strings.HasPrefix(l, "slowstream seed=") {
				var cs int64
				fmt.Sscanf(l, "slowstream seed=%d", &cs)
				oo := o
				oo.Seed = cs
				rep.AddOracle(slowStreamOracle(oo, vh.NewRNG(cs+909), rep))
				break
			}
			if strings.HasPrefix(l, "single seed=") {
				var cs int64
				fmt.Sscanf(l, "single seed=%d", &cs)
				oo := o
				oo.Seed = cs
				rep.AddOracle(singleOracle(oo, vh.NewRNG(cs+404), rep))
				break
			}
			if strings.HasPrefix(l, "concurrent seed=") {
				var cs int64
				var tier string
				fmt.Sscanf(l, "concurrent seed=%d tier=%s", &cs, &tier)
				oo := o
				oo.Seed, oo.Tier = cs/1000, tier
				rep.AddOracle(concurrentOracle(oo, rep))
				break
			}
			var seed int64
			var q int
			_, err := fmt.Sscanf(l, "fetch seed=%d req=%d", &seed, &q)
			if err != nil {
				_, err = fmt.Sscanf(l, "search seed=%d req=%d", &seed, &q)
			}
			if err != nil {
				_, err = fmt.Sscanf(l, "proxyfetch seed=%d req=%d", &seed, &q)
			}
			if err == nil {
				o.Seed = seed
				rng = vh.NewRNG(seed)
				rng.Fork()
				rng.Fork()
				rep.AddOracle(fetchOracle(o, rng.Fork(), rep))
				break
			}
		}
		rep.Write(o.Out)
		return
	}
	run := func(name string) bool { return o.Only == "" || o.Only == name }
	r1, r2, r3 := rng.Fork(), rng.Fork(), rng.Fork()
	if run("fields.filter") {
		rep.AddChannel(filterChannel(o, r1), o.Driver)
	}
	if run("fields.pipe") {
		rep.AddChannel(pipeChannel(o, r2), o.Driver)
	}
	if run("fields.parse") {
		rep.AddChannel(parseChannel(o, rng.Fork()), o.Driver)
	}
	if run("fields.fetch") {
		rep.AddOracle(fetchOracle(o, r3, rep))
	}
	if run("fields.slowstream") {
		rep.AddOracle(slowStreamOracle(o, vh.NewRNG(o.Seed+909), rep))
	}
	if run("fields.single") {
		rep.AddOracle(singleOracle(o, vh.NewRNG(o.Seed+404), rep))
	}
	if run("fields.concurrent") {
		rep.AddOracle(concurrentOracle(o, rep))
	}
	rep.Write(o.Out)
}
