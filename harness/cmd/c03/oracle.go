package main

// System oracle for C03: one corpus served by (A) the active fraction, (B) the fraction sealed from it
// (NewSealedPreloaded), (C) a brand new Sealed loaded from the files, (D) the same with a tiny, constantly evicted
// cache.  The same requests (search / histogram / aggregation / fetch) must give identical canonical answers.
// Every case runs in a child process (the loaders use logger.Fatal, the sealer can panic).

import (
	"bufio"
	"context"
	"encoding/json"
	"fmt"
	"os"
	"os/exec"
	"path/filepath"
	"runtime"
	"runtime/debug"
	"sort"
	"strconv"
	"strings"
	"sync"
	"time"

	insaneJSON "github.com/ozontech/insane-json"
	"go.uber.org/zap"

	"github.com/ozontech/seq-db/cache"
	"github.com/ozontech/seq-db/frac"
	"github.com/ozontech/seq-db/frac/lids"
	"github.com/ozontech/seq-db/frac/processor"
	"github.com/ozontech/seq-db/frac/token"
	"github.com/ozontech/seq-db/fracmanager"
	"github.com/ozontech/seq-db/logger"
	"github.com/ozontech/seq-db/parser"
	"github.com/ozontech/seq-db/seq"

	"verifharness/internal/vh"
)

// ---------------------------------------------------------------- case description (= replay line)

type sysCase struct {
	Shape     string
	Seed      int64
	SkipSort  bool
	Zstd      int
	DocBlock  int
	CacheKB   int // size limit of the tiny cache of form D
	OnlyReq   int // -1 = all requests
	BigTokens string
}

func (c sysCase) String() string {
	return fmt.Sprintf("sys %s seed=%d skipsort=%s zstd=%d docblock=%d cachekb=%d req=%d", c.Shape, c.Seed, vh.B(c.SkipSort), c.Zstd, c.DocBlock, c.CacheKB, c.OnlyReq)
}

func parseSysCase(line string) (sysCase, error) {
	var c sysCase
	var skip string
	_, err := fmt.Sscanf(line, "sys %s seed=%d skipsort=%s zstd=%d docblock=%d cachekb=%d req=%d", &c.Shape, &c.Seed, &skip, &c.Zstd, &c.DocBlock, &c.CacheKB, &c.OnlyReq)
	c.SkipSort = skip == "1"
	return c, err
}

type sysResult struct {
	Cases      int               `json:"cases"`
	Nontrivial int               `json:"nontrivial"`
	Tags       map[string]int    `json:"tags"`
	Mismatches []sysMismatch     `json:"mismatches"`
	Samples    []string          `json:"samples"`
	Notes      []string          `json:"notes"`
	Stats      map[string]string `json:"stats"`
	Lines      [][2]string       `json:"lines"` // (driver request, implementation answer) for the frac.search channel
}

type sysMismatch struct {
	Req   int    `json:"req"`
	Desc  string `json:"desc"`
	Forms string `json:"forms"`
	A     string `json:"a"`
	B     string `json:"b"`
	Class string `json:"class"`
}

// ---------------------------------------------------------------- corpus

type docSpec struct {
	id     seq.ID
	doc    []byte
	tokens []string
}

type corpus struct {
	docs    []docSpec // insertion order
	queries []string
	aggs    [][2]string // (field, groupBy)
	from    seq.MID
	to      seq.MID
	step    uint64
	crosses map[string]bool
	byI     []int // logical index -> position in docs
	lite    bool  // huge corpus: only the listed queries, small limits
	numAgg  bool  // has the numeric field `num` with a dictionary larger than one token block
}

const baseMID = 1_700_000_000_000

// lateNow: wall clock of this process (ms); the `latedocs` shape places its documents relative to the creation time of
// the fraction, which the code takes from the clock
var lateNow = time.Now().UnixMilli()

func genCorpus(shape string, rng *vh.RNG) *corpus {
	c := &corpus{crosses: map[string]bool{}}
	n, services, pods, words := 0, 4, 40, 12
	uniq, exact := 0, 0
	switch shape {
	case "small":
		n = rng.Range(50, 500)
	case "ids2": // > 4096 ids: two ID blocks
		n = 5000
		c.crosses["ids"] = true
	case "ids-exact": // IDsTotal (with the system id) exactly 2 blocks
		n = 2*4096 - 1
		c.crosses["ids"] = true
	case "ids-exact1":
		n = 2 * 4096
		c.crosses["ids"] = true
	case "lids64k": // one token in all docs, others straddling the 64Ki LID block boundary
		n = 70000
		c.crosses["ids"], c.crosses["lids"] = true, true
	case "bigdict": // a field whose dictionary needs several 16 KiB token blocks
		n = 3500
		uniq = 12
		c.crosses["tokens"] = true
	case "lids2m": // > 2^21 documents: LID deltas and chunk end markers need 4-byte varints with bit 21 set / clear
		n = 2200000
		c.lite = true
		c.crosses["ids"], c.crosses["lids"] = true, true
	case "latedocs": // late / backfilled documents: the sealed fraction gets a MIDs distribution bitmap (Info.IsIntersecting)
		n = 120
		c.crosses["dist"] = true
	case "tinybulks": // every document is its own bulk: doc blocks of 48..70 bytes, several starting in one 64-byte window
		n = 400
		c.crosses["docblocks"] = true
	case "hugedict": // one field with > 256 token blocks (> 4 MiB of token bytes): its token-table entries exceed one "portion"
		n = 75000
		c.crosses["tokens"], c.crosses["ids"], c.crosses["lids"] = true, true, true
	case "manyfields": // hundreds of small fields: the token TABLE itself spans several 16 KiB blocks
		n = 1500
		c.crosses["tokens"] = true
	case "exactdict": // a field whose tokens total exactly 16 KiB
		n = 1200
		exact = 1024
		c.crosses["tokens"] = true
	default:
		n = 100
		if strings.HasPrefix(shape, "docs") { // docs<N>: exactly N documents (block-capacity boundaries)
			if v, err := strconv.Atoi(strings.TrimPrefix(shape, "docs")); err == nil {
				n = v
				c.crosses["ids"] = n >= 4094
			}
		}
	}
	c.step = 1000
	perm := rng.Perm(n)
	c.docs = make([]docSpec, n)
	c.byI = make([]int, n)
	for k := 0; k < n; k++ {
		i := perm[k] // logical index; ids grow with i, insertion order is shuffled
		c.byI[i] = k
		mid := uint64(baseMID) + uint64(i/3)*c.step
		rid := uint64(i%3)*1_000_003 + uint64(rng.Intn(1000)) + 1
		// LID of document i is n-i (LID 1 = newest); around every ID block boundary (LID 4096*b) a run of documents
		// shares one millisecond, with several RIDs on both sides of the boundary
		for bnd := 4096; bnd < n; bnd += 4096 {
			if i0 := n - bnd; i >= i0-9 && i <= i0+9 {
				mid = uint64(baseMID) + uint64(i0/3)*c.step
				rid = 5_000_000 + uint64(i)*3
			}
		}
		svc := fmt.Sprintf("s%d", (i*7+i/5)%services)
		lvl := []string{"info", "warn", "error"}[(i/2)%3]
		pod := fmt.Sprintf("p%02d", (i*13)%pods)
		size := (i*37)%200 + 1
		w1, w2 := fmt.Sprintf("w%d", i%words), fmt.Sprintf("w%d", (i/4)%words)
		toks := []string{"_all_:", "service:" + svc, "level:" + lvl, "pod:" + pod, "size:" + strconv.Itoa(size), "message:" + w1}
		if w2 != w1 {
			toks = append(toks, "message:"+w2)
		}
		extra := ""
		if shape == "small" {
			toks = append(toks, "opt:"+[]string{"", "a", "b", "c", "dd"}[i%5]) // a field that contains the empty value
			if i < 6 {                                                         // a group of documents 60 days older: MID deltas between 2^31 and 2^34 ms inside an ID block
				mid -= 60 * 24 * 3600 * 1000
			}
		}
		if c.lite {
			toks = []string{"_all_:"}
			if i%1000003 == 7 || i == n-5 || i == 20 {
				toks = append(toks, "rare:x") // postings more than 2^21 LIDs apart
			}
			if i%2 == 0 && i > n-3000000 {
				toks = append(toks, "par:even")
			}
		}
		if shape == "lids64k" {
			toks = append(toks, "grp:all")
			if i < 40000 {
				toks = append(toks, "half:lo")
			} else {
				toks = append(toks, "half:hi")
			}
			if i%2 == 0 {
				toks = append(toks, "par:even")
			}
			// posting counts at the LID block capacity: cap-1, cap, cap+1 in one field, exactly cap alone in another
			if i < 65535 {
				toks = append(toks, "cnt:a")
			}
			if i < 65536 {
				toks = append(toks, "cnt:b", "full:one")
			}
			if i < 65537 {
				toks = append(toks, "cnt:c")
			}
		}
		if shape == "hugedict" {
			toks = append(toks, fmt.Sprintf("uid64:%s%08d", strings.Repeat("0123456789abcdef", 4), (i*7919)%100000000))
		}
		if shape == "manyfields" {
			for _, fi := range []int{i % 700, (i * 7) % 700, (i / 2) % 700} {
				toks = append(toks, fmt.Sprintf("fld%03d_%s:v%d", fi, strings.Repeat("x", 26), i%3))
			}
		}
		if uniq > 0 {
			u := fmt.Sprintf("u%0*d", uniq-1, (i*7919)%1000000)
			toks = append(toks, "uid:"+u, fmt.Sprintf("num:%d", 1000000+i))                                      // num: > 16 KiB dictionary of numbers growing with time
			toks = append(toks, fmt.Sprintf("long:%s%06d", strings.Repeat("commonprefix", 7), (i*7919)%1000000)) // 90-byte tokens, 84-byte common prefix
			// one field with ~21000 short values followed (in sort order) by 3500 values of 72 bytes: its token blocks of
			// ~940 values exceed 64 KiB in the long run
			for j := 0; j < 6; j++ {
				toks = append(toks, fmt.Sprintf("mix:m%07d", i*6+j))
			}
			toks = append(toks, fmt.Sprintf("mix:z%s%06d", strings.Repeat("0123456789", 6)+"01234", i))
			extra = fmt.Sprintf(`,"uid":"%s"`, u)
		}
		if exact > 0 {
			e := fmt.Sprintf("e%015d", (i*104729)%exact) // 16 bytes, `exact` distinct values -> 16 KiB in total
			toks = append(toks, "ex:"+e)
			extra = fmt.Sprintf(`,"ex":"%s"`, e)
		}
		if shape == "latedocs" { // groups 170, 165 and 30 minutes before now (a long empty stretch before the last one), each inside one minute
			g := i * 3 / n
			mid = uint64(lateNow) - uint64([]int{170, 165, 30}[g])*60000 + uint64(i%40)*700
			rid = uint64(i) + 1
		}
		doc := fmt.Sprintf(`{"service":"%s","level":"%s","pod":"%s","size":%d,"message":"%s %s","n":%d%s}`, svc, lvl, pod, size, w1, w2, i, extra)
		if c.lite {
			doc = fmt.Sprintf(`{"n":%d}`, i)
		}
		if shape == "tinybulks" {
			switch i % 4 {
			case 0, 1:
				doc = fmt.Sprintf(`{"n":%d}`, i) // <= 17 bytes of JSON: a block shorter than 64 bytes
			case 2:
				doc = fmt.Sprintf(`{"n":%d,"p":"%s"}`, i, strings.Repeat("z", i%9))
			}
		}
		c.docs[k] = docSpec{id: seq.ID{MID: seq.MID(mid), RID: seq.RID(rid)}, doc: []byte(doc), tokens: toks}
	}
	c.from, c.to = seq.MID(baseMID), seq.MID(uint64(baseMID)+uint64(n/3+1)*c.step)
	if shape == "latedocs" {
		c.from, c.to = seq.MID(uint64(lateNow)-175*60000), seq.MID(uint64(lateNow)-25*60000)
		c.step = 60000
	}
	c.queries = []string{
		"service:s1", "level:error", "pod:p07", "message:w3", "service:s0 AND level:warn", "service:s2 OR pod:p11",
		"NOT level:info", "service:s1 AND NOT message:w2", "(service:s0 OR service:s3) AND level:error AND message:w1",
		"pod:p1*", "pod:*7", "message:w*", "service:nosuch", "level:error AND service:nosuch", "_all_:*", "size:17",
	}
	if shape == "small" {
		c.queries = append(c.queries, "opt:a", "opt:c", "opt:dd", "opt:*", "opt:a OR opt:b")
	}
	if c.lite {
		c.queries = []string{"rare:x", "_all_:*", "par:even", "rare:x AND par:even"}
	}
	if shape == "lids64k" {
		c.queries = append(c.queries, "cnt:a", "cnt:b", "cnt:c", "full:one", "cnt:a AND NOT cnt:b", "cnt:c AND NOT cnt:b", "grp:all", "half:lo", "half:hi", "par:even", "grp:all AND half:hi", "half:lo OR par:even", "grp:all AND NOT par:even")
	}
	if shape == "hugedict" {
		for k := 0; k < 30; k++ {
			d := c.docs[rng.Intn(n)]
			for _, t := range d.tokens {
				if strings.HasPrefix(t, "uid64:") {
					c.queries = append(c.queries, t)
					if k%5 == 0 {
						c.queries = append(c.queries, t[:len(t)-3]+"*")
					}
				}
			}
		}
	}
	if shape == "manyfields" {
		for k := 0; k < 40; k++ {
			fi := rng.Intn(700)
			if k < 10 {
				fi = 150 + k*45 // spread over the table blocks
			}
			c.queries = append(c.queries, fmt.Sprintf("fld%03d_%s:v%d", fi, strings.Repeat("x", 26), k%3))
		}
	}
	if uniq > 0 {
		for k := 0; k < 12; k++ {
			d := c.docs[rng.Intn(n)]
			for _, t := range d.tokens {
				if strings.HasPrefix(t, "uid:") {
					c.queries = append(c.queries, t, t[:len(t)-2]+"*", t[:len(t)-4]+"*")
				}
			}
		}
		c.queries = append(c.queries, "uid:u0*", "uid:u00000*", "uid:*1", "uid:u9*")
		for k := 0; k < 10; k++ {
			d := c.docs[rng.Intn(n)]
			for _, t := range d.tokens {
				if strings.HasPrefix(t, "long:") {
					c.queries = append(c.queries, t, t[:len(t)-2]+"*")
				}
			}
		}
		c.queries = append(c.queries, "long:"+strings.Repeat("commonprefix", 7)+"5*", "long:commonprefixcommon*")
		for k := 0; k < 8; k++ {
			i := rng.Intn(n)
			c.queries = append(c.queries, fmt.Sprintf("mix:z%s%06d", strings.Repeat("0123456789", 6)+"01234", i), fmt.Sprintf("mix:m%07d", i*6+k%6))
		}
		c.queries = append(c.queries, "mix:z"+strings.Repeat("0123456789", 6)+"0123400*", "mix:m00001*")
	}
	if exact > 0 {
		for k := 0; k < 8; k++ {
			c.queries = append(c.queries, fmt.Sprintf("ex:e%015d", rng.Intn(exact)), fmt.Sprintf("ex:e0000000000000%d*", rng.Intn(10)))
		}
		c.queries = append(c.queries, "ex:e000000000000000", fmt.Sprintf("ex:e%015d", exact-1), "ex:e*")
	}
	c.aggs = [][2]string{{"", "service"}, {"", "level"}, {"size", "service"}, {"size", ""}, {"", "pod"}}
	if uniq > 0 {
		c.numAgg = true
	}
	return c
}

// ---------------------------------------------------------------- requests and canonical answers

type request struct {
	kind   string // search | fetch
	desc   string
	params processor.SearchParams
	ids    []seq.ID
	hits   bool
}

func mustParse(q string) *parser.ASTNode {
	ast, err := parser.ParseQuery(q, nil)
	if err != nil {
		panic(fmt.Sprintf("harness: query %q does not parse: %v", q, err))
	}
	return ast
}

func buildRequests(c *corpus, rng *vh.RNG, quick bool) []request {
	var reqs []request
	if c.lite { // a few requests only: every one walks millions of LIDs
		for qi, q := range c.queries {
			for _, order := range []seq.DocsOrder{seq.DocsOrderDesc, seq.DocsOrderAsc} {
				p := processor.SearchParams{AST: mustParse(q), From: c.from, To: c.to, Limit: 5, WithTotal: qi != 1, Order: order}
				reqs = append(reqs, request{kind: "search", desc: fmt.Sprintf("search q=%q order=%d limit=5 total=%v (2.2M documents)", q, order, p.WithTotal), params: p})
			}
		}
		var ids []seq.ID
		for _, i := range []int{0, 20, len(c.docs) - 5, len(c.docs) / 2, 2097152, 2097153} {
			ids = append(ids, c.docs[c.byI[i]].id)
		}
		reqs = append(reqs, request{kind: "fetch", desc: "fetch 6 ids (2.2M documents)", ids: ids})
		return reqs
	}
	mid := c.from + (c.to-c.from)/2
	windows := [][2]seq.MID{{0, seq.MID(^uint64(0) >> 1)}, {c.from, c.to}, {c.from + seq.MID(c.step)*3, mid}, {mid, mid + seq.MID(c.step)}, {c.to + 10, c.to + 20}}
	for qi, q := range c.queries {
		for _, order := range []seq.DocsOrder{seq.DocsOrderDesc, seq.DocsOrderAsc} {
			for _, limit := range []int{3, 1 << 20} {
				w := windows[(qi+limit+int(order))%len(windows)]
				if quick && (qi+int(order)+limit)%2 == 1 && len(c.docs) > 3000 {
					continue
				}
				p := processor.SearchParams{AST: mustParse(q), From: w[0], To: w[1], Limit: limit, WithTotal: (qi+limit)%2 == 0, Order: order}
				reqs = append(reqs, request{kind: "search", desc: fmt.Sprintf("search q=%q order=%d limit=%d total=%v from=%d to=%d", q, order, limit, p.WithTotal, w[0], w[1]), params: p})
			}
		}
		// histogram
		w := windows[qi%3]
		p := processor.SearchParams{AST: mustParse(q), From: w[0], To: w[1], Limit: 10, HistInterval: c.step * uint64(7+qi%5), Order: seq.DocsOrder(qi % 2)}
		reqs = append(reqs, request{kind: "hist", desc: fmt.Sprintf("hist q=%q interval=%d order=%d from=%d to=%d", q, p.HistInterval, p.Order, w[0], w[1]), params: p})
		// aggregations
		a := c.aggs[qi%len(c.aggs)]
		aq := processor.AggQuery{}
		fn := "count"
		if a[0] != "" {
			aq.Field = &parser.Literal{Field: a[0], Terms: []parser.Term{{Kind: parser.TermSymbol, Data: "*"}}}
			aq.Func = []seq.AggFunc{seq.AggFuncSum, seq.AggFuncMin, seq.AggFuncMax}[qi%3]
			fn = []string{"sum", "min", "max"}[qi%3]
		} else {
			aq.Func = seq.AggFuncCount
		}
		if a[1] != "" {
			aq.GroupBy = &parser.Literal{Field: a[1], Terms: []parser.Term{{Kind: parser.TermSymbol, Data: "*"}}}
		}
		p = processor.SearchParams{AST: mustParse(q), From: w[0], To: w[1], Limit: 5, AggQ: []processor.AggQuery{aq}, Order: seq.DocsOrder(qi % 2)}
		reqs = append(reqs, request{kind: "agg", desc: fmt.Sprintf("agg q=%q func=%s field=%q groupBy=%q order=%d from=%d to=%d", q, fn, a[0], a[1], p.Order, w[0], w[1]), params: p})
	}
	// windows confined to the oldest / newest documents and around the LID block boundary: a token whose postings span
	// several LID blocks then has whole chunks outside the window (the iterators' "continue reading blocks" paths)
	if c.crosses["lids"] {
		n := uint64(len(c.docs))
		span := n / 3 * c.step
		bnd := uint64(c.from) + (n-65536)/3*c.step // MID of the document at LID 65536
		ws := [][2]uint64{{uint64(c.from), uint64(c.from) + span/60}, {uint64(c.to) - span/60, uint64(c.to)}, {bnd - 40*c.step, bnd + 40*c.step},
			{uint64(c.from), bnd + 2000*c.step}, {bnd - 1000*c.step, uint64(c.to)}, {bnd + 5*c.step, bnd + 900*c.step}, {bnd - 900*c.step, bnd - 5*c.step}}
		for qi, q := range []string{"grp:all", "half:lo", "half:hi", "par:even", "grp:all AND par:even", "half:lo OR half:hi", "level:error", "message:w3"} {
			for wi, w := range ws {
				for _, order := range []seq.DocsOrder{seq.DocsOrderDesc, seq.DocsOrderAsc} {
					if quick && (qi+wi+int(order))%2 == 1 && qi >= 4 {
						continue
					}
					p := processor.SearchParams{AST: mustParse(q), From: seq.MID(w[0]), To: seq.MID(w[1]), Limit: []int{4, 1 << 20}[(qi+wi)%2], WithTotal: true, Order: order}
					reqs = append(reqs, request{kind: "search", desc: fmt.Sprintf("search q=%q order=%d limit=%d total=true from=%d to=%d (lid-block window)", q, order, p.Limit, w[0], w[1]), params: p})
				}
			}
		}
	}
	// aggregations over a numeric field whose dictionary spans several token blocks: the values are looked up in
	// increasing (asc order) / decreasing token order across the block boundaries
	if c.numAgg {
		for qi, q := range []string{"_all_:*", "service:s1", "level:error OR level:warn"} {
			for fi, fn := range []seq.AggFunc{seq.AggFuncSum, seq.AggFuncMin, seq.AggFuncMax} {
				for _, order := range []seq.DocsOrder{seq.DocsOrderDesc, seq.DocsOrderAsc} {
					for _, gb := range []string{"", "service"} {
						aq := processor.AggQuery{Field: &parser.Literal{Field: "num", Terms: []parser.Term{{Kind: parser.TermSymbol, Data: "*"}}}, Func: fn}
						if gb != "" {
							aq.GroupBy = &parser.Literal{Field: gb, Terms: []parser.Term{{Kind: parser.TermSymbol, Data: "*"}}}
						}
						w := [][2]seq.MID{{c.from, c.to}, {c.from + (c.to-c.from)/3, c.to - (c.to-c.from)/4}}[(qi+fi)%2]
						p := processor.SearchParams{AST: mustParse(q), From: w[0], To: w[1], Limit: 3, AggQ: []processor.AggQuery{aq}, Order: order}
						reqs = append(reqs, request{kind: "agg", desc: fmt.Sprintf("agg q=%q func=%d field=\"num\" groupBy=%q order=%d from=%d to=%d (big numeric dictionary)", q, fn, gb, order, w[0], w[1]), params: p})
					}
				}
			}
		}
	}
	// fetch + narrow windows around every ID block boundary (runs of equal MIDs straddle it)
	for bnd := 4096; bnd < len(c.docs); bnd += 4096 {
		i0 := len(c.docs) - bnd
		var ids []seq.ID
		for i := i0 - 12; i <= i0+12; i++ {
			if i >= 0 && i < len(c.docs) {
				ids = append(ids, c.docs[c.byI[i]].id)
			}
		}
		reqs = append(reqs, request{kind: "fetch", desc: fmt.Sprintf("fetch id-block-boundary lid=%d n=%d", bnd, len(ids)), ids: ids})
		rev := append([]seq.ID{}, ids...)
		sort.Slice(rev, func(a, b int) bool { return seq.Less(rev[b], rev[a]) })
		reqs = append(reqs, request{kind: "fetch", desc: fmt.Sprintf("fetch id-block-boundary desc lid=%d n=%d", bnd, len(rev)), ids: rev})
		m := uint64(c.docs[c.byI[i0]].id.MID)
		for _, w := range [][2]uint64{{m, m}, {m - c.step, m}, {m, m + c.step}, {m + 1, m + 5*c.step}, {m - 5*c.step, m - 1}} {
			for _, order := range []seq.DocsOrder{seq.DocsOrderDesc, seq.DocsOrderAsc} {
				p := processor.SearchParams{AST: mustParse("_all_:*"), From: seq.MID(w[0]), To: seq.MID(w[1]), Limit: 1 << 20, WithTotal: true, Order: order}
				reqs = append(reqs, request{kind: "search", desc: fmt.Sprintf("search q=\"_all_:*\" order=%d from=%d to=%d (id-block boundary)", order, w[0], w[1]), params: p})
			}
		}
	}
	// windows of many sizes ending shortly after a group of late documents: between the bitmap byte of `from` and the
	// byte of `to` lie 1..20 whole bytes and the documents sit in the first or the last ones
	if c.crosses["dist"] {
		for _, g := range []int{165, 30} {
			gm := uint64(lateNow) - uint64(g)*60000
			for k := 10; k <= 160; k += 3 {
				for _, t := range []int{9, 13, 18} {
					for qi, q := range []string{"_all_:*", "service:s1"} {
						if (k+t+qi)%2 == 0 {
							continue
						}
						p := processor.SearchParams{AST: mustParse(q), From: seq.MID(gm - uint64(k)*60000), To: seq.MID(gm + uint64(t)*60000), Limit: 1000, WithTotal: true, Order: seq.DocsOrder(k % 2)}
						reqs = append(reqs, request{kind: "search", desc: fmt.Sprintf("search q=%q order=%d from=group(-%dmin)-%dmin to=+%dmin (late documents)", q, k%2, g, k, t), params: p})
					}
				}
			}
		}
	}
	// every stored id, in insertion order and in descending id order, each asked twice (cold then warm doc-block cache)
	if c.crosses["docblocks"] {
		var all []seq.ID
		for _, d := range c.docs {
			all = append(all, d.id)
		}
		desc := append([]seq.ID{}, all...)
		sort.Slice(desc, func(a, b int) bool { return seq.Less(desc[b], desc[a]) })
		asc := append([]seq.ID{}, all...)
		sort.Slice(asc, func(a, b int) bool { return seq.Less(asc[a], asc[b]) })
		for pass := 0; pass < 2; pass++ {
			for li, l := range [][]seq.ID{all, desc, asc} {
				reqs = append(reqs, request{kind: "fetch", desc: fmt.Sprintf("fetch all ids order#%d pass=%d n=%d", li, pass, len(l)), ids: l})
				for st := 0; st+3 <= len(l) && st < 60; st += 3 { // neighbours only: few blocks per request
					reqs = append(reqs, request{kind: "fetch", desc: fmt.Sprintf("fetch 3 neighbours order#%d from=%d pass=%d", li, st, pass), ids: l[st : st+3]})
				}
			}
		}
	}
	// fetch lists: present, absent, duplicates, unsorted and sorted
	n := len(c.docs)
	for k := 0; k < 6; k++ {
		var ids []seq.ID
		for j := rng.Range(1, 40); j > 0; j-- {
			switch rng.Intn(6) {
			case 0:
				ids = append(ids, seq.ID{MID: seq.MID(uint64(baseMID) + uint64(rng.Intn(n))*c.step/3), RID: seq.RID(rng.U64() >> 1)}) // absent
			case 1:
				if len(ids) > 0 {
					ids = append(ids, ids[rng.Intn(len(ids))]) // duplicate
				}
			default:
				ids = append(ids, c.docs[rng.Intn(n)].id)
			}
		}
		if k%3 == 1 {
			sort.Slice(ids, func(i, j int) bool { return seq.Less(ids[j], ids[i]) }) // descending
		}
		if k == 5 { // extremes: below and above every stored id
			ids = append(ids, seq.ID{MID: 1, RID: 1}, seq.ID{MID: seq.MID(uint64(c.to) + 100000), RID: 5}, seq.ID{MID: c.from, RID: 0})
		}
		reqs = append(reqs, request{kind: "fetch", desc: fmt.Sprintf("fetch #%d n=%d", k, len(ids)), ids: ids})
	}
	return reqs
}

func canonQPR(q *seq.QPR, err error) string {
	if err != nil {
		return "error: " + err.Error()
	}
	var sb strings.Builder
	fmt.Fprintf(&sb, "total=%d ids=", q.Total)
	for _, id := range q.IDs {
		fmt.Fprintf(&sb, "%d:%d,", uint64(id.ID.MID), uint64(id.ID.RID))
	}
	if q.Histogram != nil {
		keys := make([]uint64, 0, len(q.Histogram))
		for k := range q.Histogram {
			keys = append(keys, uint64(k))
		}
		sort.Slice(keys, func(i, j int) bool { return keys[i] < keys[j] })
		sb.WriteString(" hist=")
		for _, k := range keys {
			fmt.Fprintf(&sb, "%d:%d,", k, q.Histogram[seq.MID(k)])
		}
	}
	for i, a := range q.Aggs {
		type row struct {
			mid uint64
			tok string
			s   string
		}
		var rows []row
		for bin, sc := range a.SamplesByBin {
			rows = append(rows, row{uint64(bin.MID), bin.Token, fmt.Sprintf("min=%v max=%v sum=%v total=%d notexists=%d nsamples=%d", sc.Min, sc.Max, sc.Sum, sc.Total, sc.NotExists, len(sc.Samples))})
		}
		sort.Slice(rows, func(i, j int) bool {
			if rows[i].mid != rows[j].mid {
				return rows[i].mid < rows[j].mid
			}
			return rows[i].tok < rows[j].tok
		})
		fmt.Fprintf(&sb, " agg%d(notexists=%d)=", i, a.NotExists)
		for _, r := range rows {
			fmt.Fprintf(&sb, "[%d|%s %s]", r.mid, r.tok, r.s)
		}
	}
	return sb.String()
}

func canonDocs(docs [][]byte, err error) string {
	if err != nil {
		return "error: " + err.Error()
	}
	var sb strings.Builder
	for _, d := range docs {
		if d == nil {
			sb.WriteString("<nil>|")
		} else {
			sb.WriteString(string(d) + "|")
		}
	}
	return sb.String()
}

func answer(f frac.Fraction, r request) (res string) {
	defer func() {
		if p := recover(); p != nil {
			res = fmt.Sprintf("panic: %v", p)
		}
	}()
	// the searcher / fetcher of the fraction manager consult the fraction's time range first
	// (fracmanager.List.FilterInRange -> IsIntersecting, fetcher -> Contains): a skipped fraction contributes nothing
	if r.kind == "fetch" {
		var ask []seq.ID
		var slot []int
		for i, id := range r.ids {
			if f.Contains(id.MID) {
				ask = append(ask, id)
				slot = append(slot, i)
			}
		}
		out := make([][]byte, len(r.ids))
		if len(ask) > 0 {
			dp, release := f.DataProvider(context.Background())
			defer release()
			docs, err := dp.Fetch(ask)
			if err != nil {
				return canonDocs(nil, err)
			}
			for k, d := range docs {
				out[slot[k]] = d
			}
		}
		return canonDocs(out, nil)
	}
	if !f.IsIntersecting(r.params.From, r.params.To) {
		empty := &seq.QPR{Aggs: make([]seq.AggregatableSamples, len(r.params.AggQ))}
		if r.params.HasHist() {
			empty.Histogram = map[seq.MID]uint64{}
		}
		return canonQPR(empty, nil)
	}
	dp, release := f.DataProvider(context.Background())
	defer release()
	return canonQPR(dp.Search(r.params))
}

// ---------------------------------------------------------------- the three (four) forms

type cacheSet struct {
	cleaner *cache.Cleaner
	index   *frac.IndexCache
	docs    *cache.Cache[[]byte]
	sort    *cache.Cache[[]byte]
}

func newCacheSet(limitBytes uint64) *cacheSet {
	var cl *cache.Cleaner
	if limitBytes > 0 {
		cl = cache.NewCleaner(limitBytes, nil)
	}
	return &cacheSet{
		cleaner: cl,
		index: &frac.IndexCache{
			MIDs:       cache.NewCache[[]byte](cl, nil),
			RIDs:       cache.NewCache[[]byte](cl, nil),
			Params:     cache.NewCache[[]uint64](cl, nil),
			LIDs:       cache.NewCache[*lids.Chunks](cl, nil),
			Tokens:     cache.NewCache[*token.CacheEntry](cl, nil),
			TokenTable: cache.NewCache[token.Table](cl, nil),
			Registry:   cache.NewCache[[]byte](cl, nil),
		},
		docs: cache.NewCache[[]byte](cl, nil),
		sort: cache.NewCache[[]byte](cl, nil),
	}
}

// evict rotates the generation and cleans up: with a tiny limit nearly everything loaded so far is dropped.
func (cs *cacheSet) evict() uint64 {
	if cs.cleaner == nil {
		return 0
	}
	cs.cleaner.Rotate()
	st := &cache.CleanStat{}
	cs.cleaner.Cleanup(st)
	return st.BytesReleased
}

// ingestConcurrent: `writers` goroutines append single-document bulks at the same time (as concurrent bulk requests do).
func ingestConcurrent(active *frac.Active, docs []docSpec, writers int) error {
	var wg, wwg sync.WaitGroup
	errs := make(chan error, writers)
	for g := 0; g < writers; g++ {
		wwg.Add(1)
		go func(g int) {
			defer wwg.Done()
			root := insaneJSON.Spawn()
			defer insaneJSON.Release(root)
			for k := g; k < len(docs); k += writers {
				dp := frac.NewDocProvider()
				dp.Append(docs[k].doc, root, docs[k].id, seq.Tokens(docs[k].tokens...))
				bd, bm := dp.Provide()
				wg.Add(1)
				if err := active.Append(bd, bm, &wg); err != nil {
					errs <- err
					return
				}
			}
		}(g)
	}
	wwg.Wait()
	wg.Wait()
	select {
	case err := <-errs:
		return err
	default:
		return nil
	}
}

func ingest(active *frac.Active, docs []docSpec, batch int) error {
	root := insaneJSON.Spawn()
	defer insaneJSON.Release(root)
	var wg sync.WaitGroup
	for start := 0; start < len(docs); start += batch {
		dp := frac.NewDocProvider()
		for _, d := range docs[start:min(start+batch, len(docs))] {
			dp.Append(d.doc, root, d.id, seq.Tokens(d.tokens...))
		}
		bd, bm := dp.Provide()
		wg.Add(1)
		if err := active.Append(bd, bm, &wg); err != nil {
			return err
		}
	}
	wg.Wait()
	return nil
}

func runSysCaseInProcess(c sysCase, dir string) *sysResult {
	res := &sysResult{Tags: map[string]int{}, Stats: map[string]string{}}
	rng := vh.NewRNG(c.Seed)
	cor := genCorpus(c.Shape, rng.Fork())
	reqs := buildRequests(cor, rng.Fork(), c.Shape != "small" && os.Getenv("C03_ALLREQ") == "")
	indexer := frac.NewActiveIndexer(4, 4)
	indexer.Start()
	defer indexer.Stop()
	base := filepath.Join(dir, "seq-db-c03")
	cfg := &frac.Config{SkipSortDocs: c.SkipSort}
	csA := newCacheSet(0)
	active := frac.NewActive(base, indexer, readLimiter, csA.docs, csA.sort, cfg)
	batch := 700
	if c.Shape == "tinybulks" {
		batch = 1
	}
	if cor.lite {
		batch = 20000
	}
	var ierr error
	if c.Shape == "tinybulks" && c.CacheKB%2 == 1 {
		ierr = ingestConcurrent(active, cor.docs, 6) // concurrent writers
	} else {
		ierr = ingest(active, cor.docs, batch)
	}
	if err := ierr; err != nil {
		res.Notes = append(res.Notes, "ingest error: "+err.Error())
		return res
	}
	type formAns struct {
		name string
		ans  []string
	}
	run := func(name string, f frac.Fraction, cs *cacheSet) formAns {
		fa := formAns{name: name, ans: make([]string, len(reqs))}
		released := uint64(0)
		for i, r := range reqs {
			if c.OnlyReq >= 0 && i != c.OnlyReq {
				continue
			}
			fa.ans[i] = answer(f, r)
			if cs != nil {
				released += cs.evict()
			}
		}
		if cs != nil {
			res.Stats["evicted_bytes_"+name] = strconv.FormatUint(released, 10)
		}
		return fa
	}
	var restarted []formAns
	forms := []formAns{run("active", active, nil)}
	if c.Shape == "tinybulks" {
		// the active fraction as a restart would rebuild it: a second Active over the same files, filled by Replay
		csR := newCacheSet(0)
		replayed := frac.NewActive(base, indexer, readLimiter, csR.docs, csR.sort, cfg)
		if err := replayed.Replay(context.Background()); err != nil {
			res.Mismatches = append(res.Mismatches, sysMismatch{Req: -1, Desc: "Active.Replay", Forms: "replay", A: "ok expected", B: err.Error(), Class: "replay-error"})
			return res
		}
		restarted = []formAns{run("active-replayed", replayed, nil)}
	}
	var mq []modelQuery
	if c.Shape == "small" && c.OnlyReq < 0 {
		mq = buildModelQueries(active, rng.Fork(), cor)
		for i := range mq {
			mq[i].implActive = answer(active, request{kind: "search", params: mq[i].params})
		}
	}

	params := frac.SealParams{IDsZstdLevel: c.Zstd, LIDsZstdLevel: c.Zstd, TokenListZstdLevel: c.Zstd, DocsPositionsZstdLevel: c.Zstd,
		TokenTableZstdLevel: c.Zstd, DocBlocksZstdLevel: c.Zstd, DocBlockSize: c.DocBlock}
	t0 := time.Now()
	pre, err := frac.Seal(active, params)
	if err != nil {
		res.Notes = append(res.Notes, "seal error: "+err.Error())
		res.Mismatches = append(res.Mismatches, sysMismatch{Req: -1, Desc: "frac.Seal", Forms: "seal", A: "ok expected", B: err.Error(), Class: "seal-error"})
		return res
	}
	res.Stats["seal_ms"] = strconv.FormatInt(time.Since(t0).Milliseconds(), 10)
	// the proxy fraction keeps serving from the active form until Seal has returned and the sealed form is swapped in:
	// sealing must not change what the (not yet released) active fraction answers
	forms = append(forms, run("active-after-seal", active, nil))
	csB := newCacheSet(512)
	sealedB := frac.NewSealedPreloaded(base, pre, readLimiter, csB.index, csB.docs, cfg)
	forms = append(forms, run("preloaded", sealedB, nil))
	// crash-leftover states of Active.Release (it removes .meta first, then .docs): a restart finds .docs next to
	// .sdocs + .index, with or without .meta; the fraction manager's loader must bring up the same sealed fraction
	var leftovers []formAns
	if !c.SkipSort && len(cor.docs) <= 1000 && c.OnlyReq < 0 {
		for _, st := range []struct {
			name  string
			files []string
		}{{"restart-docs-left", []string{".docs", ".sdocs", ".index"}}, {"restart-docs-meta-left", []string{".docs", ".meta", ".sdocs", ".index"}}} {
			d := filepath.Join(dir, st.name)
			os.MkdirAll(d, 0o755)
			ok := true
			for _, suf := range st.files {
				b, err := os.ReadFile(base + suf)
				if err != nil || os.WriteFile(filepath.Join(d, filepath.Base(base)+suf), b, 0o644) != nil {
					ok = false
				}
			}
			if !ok {
				res.Notes = append(res.Notes, "leftover state "+st.name+": files missing")
				continue
			}
			func() {
				defer func() {
					if p := recover(); p != nil {
						fa := formAns{name: st.name, ans: make([]string, len(reqs))}
						for i := range fa.ans {
							fa.ans[i] = fmt.Sprintf("panic: %v", p)
						}
						leftovers = append(leftovers, fa)
					}
				}()
				fm := fracmanager.NewFracManager(&fracmanager.Config{DataDir: d, FracSize: 1 << 30, TotalSize: 1 << 40, CacheSize: 64 << 20, SortCacheSize: 8 << 20})
				if err := fm.Load(context.Background()); err != nil {
					panic(err)
				}
				fm.Start()
				defer fm.Stop()
				var target frac.Fraction
				for _, f := range fm.GetAllFracs() {
					if strings.HasSuffix(f.Info().Path, filepath.Base(base)) {
						target = f
					}
				}
				if target == nil {
					panic("the sealed fraction was not loaded")
				}
				leftovers = append(leftovers, run(st.name, target, nil))
			}()
		}
	}
	for _, q := range mq {
		impl := modelAnswerFormat(q.implActive, q.params.HistInterval > 0)
		if b := answer(sealedB, request{kind: "search", params: q.params}); b != q.implActive {
			impl = "forms-differ active[" + trunc(q.implActive) + "] sealed[" + trunc(b) + "]"
		}
		res.Lines = append(res.Lines, [2]string{q.line, impl})
	}
	active.Release()
	// the freshly sealed fraction keeps serving after the active one released its resources (same process, no reload);
	// its caches are emptied first so that documents and index blocks are really read from the files again
	csB.evict()
	forms = append(forms, run("preloaded-after-release", sealedB, csB))

	csC := newCacheSet(0)
	sealedC := frac.NewSealed(base, readLimiter, csC.index, csC.docs, nil, cfg)
	forms = append(forms, run("loaded", sealedC, nil))

	csD := newCacheSet(uint64(c.CacheKB) * 1024)
	sealedD := frac.NewSealed(base, readLimiter, csD.index, csD.docs, nil, cfg)
	forms = append(forms, run("loaded-tinycache", sealedD, csD))
	// second pass over the same instance after all evictions, reverse request order
	fa := formAns{name: "loaded-tinycache-2nd", ans: make([]string, len(reqs))}
	for i := len(reqs) - 1; i >= 0; i-- {
		if c.OnlyReq >= 0 && i != c.OnlyReq {
			continue
		}
		fa.ans[i] = answer(sealedD, reqs[i])
		if i%3 == 0 {
			csD.evict()
		}
	}
	forms = append(forms, fa)

	info := sealedC.Info()
	res.Stats["docs"] = strconv.Itoa(len(cor.docs))
	res.Stats["index_bytes"] = strconv.FormatUint(info.IndexOnDisk, 10)

	for i, r := range reqs {
		if c.OnlyReq >= 0 && i != c.OnlyReq {
			continue
		}
		a := forms[0].ans[i]
		hit := !strings.HasPrefix(a, "total=0 ids= ") && a != "total=0 ids=" && !strings.HasPrefix(a, "error") && !(r.kind == "fetch" && !strings.Contains(a, "{"))
		cross := cor.crosses["dist"] || cor.crosses["ids"] || cor.crosses["lids"] || cor.crosses["tokens"] || cor.crosses["docblocks"] || c.DocBlock < 4096
		res.Cases++
		if hit && cross {
			res.Nontrivial++
			if len(res.Samples) < 3 {
				res.Samples = append(res.Samples, c.String()+" :: "+r.desc)
			}
		}
		res.Tags["req="+r.kind]++
		res.Tags["shape="+c.Shape]++
		if hit {
			res.Tags["hits"]++
		}
		if r.kind == "fetch" { // ground truth: the bytes that were ingested under the id (nil for ids never stored)
			byID := map[seq.ID][]byte{}
			for _, d := range cor.docs {
				byID[d.id] = d.doc
			}
			want := make([][]byte, len(r.ids))
			for k, id := range r.ids {
				want[k] = byID[id]
			}
			ws := canonDocs(want, nil)
			bad := false
			for _, f := range forms {
				if f.ans[i] != ws && !bad {
					bad = true
					res.Mismatches = append(res.Mismatches, sysMismatch{Req: i, Desc: r.desc, Forms: "stored/" + f.name, A: trunc(ws), B: trunc(f.ans[i]), Class: "fetch-returns-other-bytes-than-stored:" + f.name})
				}
			}
			if bad {
				continue
			}
		}
		for _, f := range leftovers {
			if f.ans[i] != a {
				res.Mismatches = append(res.Mismatches, sysMismatch{Req: i, Desc: r.desc, Forms: "active/" + f.name, A: trunc(a), B: trunc(f.ans[i]), Class: "restart-after-crash-in-release-differs:" + f.name})
				break
			}
		}
		for _, f := range restarted {
			if f.ans[i] != a {
				res.Mismatches = append(res.Mismatches, sysMismatch{Req: i, Desc: r.desc, Forms: "active/" + f.name, A: trunc(a), B: trunc(f.ans[i]), Class: "replayed-active-differs"})
			}
		}
		for _, f := range forms[1:] {
			if f.ans[i] != a {
				class := "sealed-vs-active-mismatch"
				switch {
				case strings.HasPrefix(f.ans[i], "panic") || strings.HasPrefix(a, "panic"):
					class = "panic"
				case f.name == "active-after-seal":
					class = "active-changed-by-seal"
				case f.name == "preloaded-after-release" && forms[4].ans[i] != forms[2].ans[i]:
					// its caches were emptied: what it re-reads from the files is what a freshly loaded fraction reads
					class = "loaded-vs-preloaded-mismatch"
				case f.name == "preloaded-after-release":
					class = "preloaded-broken-after-active-release"
				case f.name != "preloaded" && f.ans[i] != forms[2].ans[i] && strings.HasPrefix(f.name, "loaded-tiny") && forms[4].ans[i] == forms[2].ans[i]:
					class = "cache-size-dependence"
				case f.name != "preloaded" && f.ans[i] != forms[2].ans[i]:
					class = "loaded-vs-preloaded-mismatch"
				}
				if r.kind == "fetch" && class != "panic" {
					class = "fetch-" + class
				}
				res.Mismatches = append(res.Mismatches, sysMismatch{Req: i, Desc: r.desc, Forms: "active/" + f.name, A: trunc(a), B: trunc(f.ans[i]), Class: class})
				break
			}
		}
	}
	sealedB.Suicide()
	return res
}

func trunc(s string) string {
	if len(s) > 400 {
		return s[:400] + "..."
	}
	return s
}

// ---------------------------------------------------------------- model queries (frac.search channel)

type modelQuery struct {
	line       string
	params     processor.SearchParams
	implActive string
}

// modelAnswerFormat turns canonQPR's text into the driver's `ok total=.. ids=.. hist=..`.
func modelAnswerFormat(a string, hasHist bool) string {
	if !strings.HasPrefix(a, "total=") {
		return a
	}
	var total string
	rest := a
	total, rest, _ = strings.Cut(strings.TrimPrefix(rest, "total="), " ids=")
	ids, hist, _ := strings.Cut(rest, " hist=")
	ids = strings.TrimSuffix(strings.TrimSpace(ids), ",")
	hist = strings.TrimSuffix(strings.TrimSpace(hist), ",")
	if ids == "" {
		ids = "-"
	}
	if hist == "" || !hasHist {
		hist = "-"
	}
	return fmt.Sprintf("ok total=%s ids=%s hist=%s", total, ids, hist)
}

func buildModelQueries(active *frac.Active, rng *vh.RNG, cor *corpus) []modelQuery {
	st := frac.VerifActiveSnapshot(active)
	type tokRef struct {
		field, val string
		tid        int
	}
	var toks []tokRef
	var fparts []string
	tid := 0
	for _, f := range st.Fields {
		var tp []string
		for i, v := range f.Tokens {
			tid++
			tp = append(tp, fmt.Sprintf("x%x=%s", v, fmtU32s(f.Postings[i])))
			ok := len(v) > 0
			for _, ch := range v {
				ok = ok && (ch >= 'a' && ch <= 'z' || ch >= '0' && ch <= '9')
			}
			if ok {
				toks = append(toks, tokRef{f.Name, string(v), tid})
			}
		}
		fparts = append(fparts, strings.Join(tp, ";"))
	}
	state := fmt.Sprintf("%s %s %s %s", vh.JoinInts(st.MIDs), vh.JoinInts(st.RIDs), fmtU32s(st.AllDocs), strings.Join(fparts, "|"))
	var res []modelQuery
	for k := 0; k < 24; k++ {
		a, b := toks[rng.Intn(len(toks))], toks[rng.Intn(len(toks))]
		var qs, rpn string
		switch k % 4 {
		case 0:
			qs, rpn = fmt.Sprintf("%s:%s", a.field, a.val), fmt.Sprintf("t%d", a.tid)
		case 1:
			qs, rpn = fmt.Sprintf("%s:%s AND %s:%s", a.field, a.val, b.field, b.val), fmt.Sprintf("t%d,t%d,&", a.tid, b.tid)
		case 2:
			qs, rpn = fmt.Sprintf("%s:%s OR %s:%s", a.field, a.val, b.field, b.val), fmt.Sprintf("t%d,t%d,|", a.tid, b.tid)
		default:
			qs, rpn = fmt.Sprintf("%s:%s AND NOT %s:%s", a.field, a.val, b.field, b.val), fmt.Sprintf("t%d,t%d,!", b.tid, a.tid)
		}
		from, to := uint64(cor.from), uint64(cor.to)
		switch k % 3 {
		case 1:
			from += uint64(rng.Intn(int(to-from)/2 + 1))
			to = from + uint64(rng.Intn(int(to-from)+1))
		case 2:
			from, to = 0, 1<<62
		}
		rev := k%2 == 1
		limit := []int{2, 7, 100000}[k%3]
		interval := []uint64{0, cor.step * 5, 1700}[(k/2)%3]
		order := seq.DocsOrderDesc
		if rev {
			order = seq.DocsOrderAsc
		}
		p := processor.SearchParams{AST: mustParse(qs), From: seq.MID(from), To: seq.MID(to), Limit: limit, WithTotal: true, HistInterval: interval, Order: order}
		// model block sizes deliberately differ from the real constants: the answer must not depend on them
		per, lcap, rbs := rng.Range(1, 9), rng.Range(1, 9), []int{16, 64, 16384}[k%3]
		line := fmt.Sprintf("frac.search %s %d %d %d %s %d %d %s %d %d", state, per, lcap, rbs, rpn, from, to, vh.B(rev), limit, interval)
		res = append(res, modelQuery{line: line, params: p})
	}
	return res
}

// ---------------------------------------------------------------- seal sequence in one process

// runSeqCaseInProcess seals several fractions one after another in the same process (as the fraction manager does) and
// re-checks every earlier freshly sealed (preloaded, never reloaded) fraction after each later seal: pooled writers,
// shared buffers and caches must not leak from one seal into the tables of another fraction.
func runSeqCaseInProcess(c sysCase, dir string) *sysResult {
	res := &sysResult{Tags: map[string]int{}, Stats: map[string]string{}}
	runtime.GOMAXPROCS(1)  // make sync.Pool reuse between the seals deterministic
	debug.SetGCPercent(-1) // a GC cycle would empty the pools
	rng := vh.NewRNG(c.Seed)
	indexer := frac.NewActiveIndexer(2, 2)
	indexer.Start()
	defer indexer.Stop()
	cfg := &frac.Config{SkipSortDocs: c.SkipSort}
	params := frac.SealParams{IDsZstdLevel: c.Zstd, LIDsZstdLevel: c.Zstd, TokenListZstdLevel: c.Zstd, DocsPositionsZstdLevel: c.Zstd,
		TokenTableZstdLevel: c.Zstd, DocBlocksZstdLevel: c.Zstd, DocBlockSize: c.DocBlock}
	type sealedFrac struct {
		f    *frac.Sealed
		reqs []request
		want []string
	}
	var done []sealedFrac
	nfr := 4
	for k := 0; k < nfr; k++ {
		cor := genCorpus("small", rng.Fork())
		reqs := buildRequests(cor, rng.Fork(), true)
		base := filepath.Join(dir, fmt.Sprintf("seq-db-c03-%d", k))
		cs := newCacheSet(0)
		active := frac.NewActive(base, indexer, readLimiter, cs.docs, cs.sort, cfg)
		if err := ingest(active, cor.docs, 300); err != nil {
			res.Notes = append(res.Notes, "ingest error: "+err.Error())
			return res
		}
		want := make([]string, len(reqs))
		for i, r := range reqs {
			want[i] = answer(active, r)
		}
		pre, err := frac.Seal(active, params)
		if err != nil {
			res.Mismatches = append(res.Mismatches, sysMismatch{Req: -1, Desc: "frac.Seal", Forms: "seal", A: "ok expected", B: err.Error(), Class: "seal-error"})
			return res
		}
		csB := newCacheSet(0)
		sf := frac.NewSealedPreloaded(base, pre, readLimiter, csB.index, csB.docs, cfg)
		active.Release()
		done = append(done, sealedFrac{sf, reqs, want})
		res.Stats[fmt.Sprintf("docblocks_%d", k)] = strconv.Itoa(len(sf.BlocksOffsets))
		// every fraction sealed so far (the new one and all earlier ones) must still answer like its active form
		for j, d := range done {
			for i, r := range d.reqs {
				got := answer(d.f, r)
				res.Cases++
				res.Tags["req="+r.kind]++
				res.Tags[fmt.Sprintf("after-later-seals=%d", k-j)]++
				if k > j && len(d.f.BlocksOffsets) > 1 {
					res.Nontrivial++
				}
				if got != d.want[i] {
					class := "earlier-sealed-fraction-changed-by-later-seal"
					if j == k {
						class = "sealed-vs-active-mismatch"
					}
					if strings.HasPrefix(got, "panic") {
						class += "-panic"
					}
					if r.kind == "fetch" {
						class = "fetch-" + class
					}
					res.Mismatches = append(res.Mismatches, sysMismatch{Req: i, Desc: fmt.Sprintf("fraction #%d after sealing #%d: %s", j, k, r.desc),
						Forms: "active/preloaded", A: trunc(d.want[i]), B: trunc(got), Class: class})
					break
				}
			}
		}
		if len(res.Mismatches) > 0 {
			break
		}
	}
	if len(res.Samples) == 0 {
		res.Samples = append(res.Samples, c.String()+" :: 4 fractions sealed in a row, earlier ones re-checked")
	}
	return res
}

// ---------------------------------------------------------------- seal totality (token block size 0)

func runBigTokensInProcess(spec string, dir string) *sysResult {
	res := &sysResult{Tags: map[string]int{}, Stats: map[string]string{}}
	var count, size int
	fmt.Sscanf(spec, "%dx%d", &count, &size)
	indexer := frac.NewActiveIndexer(2, 2)
	indexer.Start()
	defer indexer.Stop()
	base := filepath.Join(dir, "seq-db-c03big")
	cs := newCacheSet(0)
	active := frac.NewActive(base, indexer, readLimiter, cs.docs, cs.sort, &frac.Config{})
	var docs []docSpec
	for i := 0; i < count; i++ {
		val := strings.Repeat(string(rune('a'+i%26)), size)
		docs = append(docs, docSpec{id: seq.ID{MID: seq.MID(baseMID + i), RID: seq.RID(i + 1)}, doc: []byte(fmt.Sprintf(`{"n":%d}`, i)),
			tokens: []string{"_all_:", "big:" + val, "k:v"}})
	}
	if err := ingest(active, docs, 100); err != nil {
		res.Notes = append(res.Notes, "ingest error: "+err.Error())
		return res
	}
	before := answer(active, request{kind: "search", params: processor.SearchParams{AST: mustParse("k:v"), From: 0, To: seq.MID(^uint64(0) >> 1), Limit: 1000, WithTotal: true}})
	res.Cases = 1
	pre, err := frac.Seal(active, frac.SealParams{IDsZstdLevel: 1, LIDsZstdLevel: 1, TokenListZstdLevel: 1, DocsPositionsZstdLevel: 1, TokenTableZstdLevel: 1, DocBlocksZstdLevel: 1, DocBlockSize: 4096})
	if err != nil {
		res.Mismatches = append(res.Mismatches, sysMismatch{Req: -1, Desc: "frac.Seal " + spec, Forms: "seal", A: "ok expected", B: err.Error(), Class: "seal-error"})
		return res
	}
	cs2 := newCacheSet(0)
	sealed := frac.NewSealedPreloaded(base, pre, readLimiter, cs2.index, cs2.docs, &frac.Config{})
	after := answer(sealed, request{kind: "search", params: processor.SearchParams{AST: mustParse("k:v"), From: 0, To: seq.MID(^uint64(0) >> 1), Limit: 1000, WithTotal: true}})
	if after != before {
		res.Mismatches = append(res.Mismatches, sysMismatch{Req: 0, Desc: "search k:v", Forms: "active/preloaded", A: trunc(before), B: trunc(after), Class: "sealed-vs-active-mismatch"})
	}
	res.Nontrivial = 1
	return res
}

// ---------------------------------------------------------------- child process plumbing

func oracleChildMain() bool {
	if len(os.Args) < 3 || os.Args[1] != "c03-child" {
		return false
	}
	logger.SetLevel(zap.FatalLevel)
	dir, err := os.MkdirTemp("", "vh-c03-child-")
	if err != nil {
		fmt.Println("CHILD-ERROR", err)
		os.Exit(3)
	}
	defer os.RemoveAll(dir)
	var res *sysResult
	line := strings.Join(os.Args[2:], " ")
	if strings.HasPrefix(line, "sys seal-bigtokens ") {
		res = runBigTokensInProcess(strings.TrimPrefix(line, "sys seal-bigtokens "), dir)
	} else {
		c, err := parseSysCase(line)
		if err != nil {
			fmt.Println("CHILD-ERROR bad case line:", err)
			os.RemoveAll(dir)
			os.Exit(3)
		}
		if c.Shape == "sealseq" {
			res = runSeqCaseInProcess(c, dir)
		} else {
			res = runSysCaseInProcess(c, dir)
		}
	}
	b, _ := json.Marshal(res)
	fmt.Println("CHILD-RESULT " + string(b))
	return true
}

// runChild re-executes the harness for one case; a crash / timeout is an observation.
func runChild(line string, timeout time.Duration) (*sysResult, string) {
	ctx, cancel := context.WithTimeout(context.Background(), timeout)
	defer cancel()
	cmd := exec.CommandContext(ctx, os.Args[0], append([]string{"c03-child"}, strings.Fields(line)...)...)
	cmd.Env = append(os.Environ(), "GOMAXPROCS=8")
	out, err := cmd.CombinedOutput()
	sc := bufio.NewScanner(strings.NewReader(string(out)))
	sc.Buffer(make([]byte, 1<<20), 1<<28)
	for sc.Scan() {
		if l := sc.Text(); strings.HasPrefix(l, "CHILD-RESULT ") {
			var r sysResult
			if json.Unmarshal([]byte(strings.TrimPrefix(l, "CHILD-RESULT ")), &r) == nil {
				return &r, ""
			}
		}
	}
	tail := string(out)
	if i := strings.Index(tail, "panic:"); i >= 0 {
		tail = tail[i:]
	} else if i := strings.Index(tail, "CHILD-ERROR"); i >= 0 {
		tail = tail[i:]
	}
	if len(tail) > 600 {
		tail = tail[:600]
	}
	if ctx.Err() != nil {
		return nil, "timeout after " + timeout.String() + ": " + tail
	}
	return nil, fmt.Sprintf("child died (%v): %s", err, tail)
}

func crashSite(msg string) (string, string) {
	switch {
	case strings.Contains(msg, "createTokenTableEntry") || strings.Contains(msg, "getTokensBlocksGenerator"):
		return "frac/disk_blocks_producer.go:getTokensBlocksGenerator", "token-block-size-zero"
	case strings.Contains(msg, "timeout"):
		return "frac/sealed_index.go", "hang"
	}
	if strings.Contains(msg, "out of memory") || strings.Contains(msg, "Replay") {
		return "frac/active.go:Replay", "crash"
	}
	return "frac/sealed_index.go", "crash"
}

func mismatchSite(m sysMismatch) string {
	switch {
	case strings.Contains(m.Class, "earlier-sealed-fraction-changed-by-later-seal"):
		return "frac/active_sealer.go:writeSealedFraction"
	case strings.HasPrefix(m.Class, "fetch-returns-other-bytes-than-stored:active"):
		return "frac/active_index.go:activeDataProvider.Fetch"
	case strings.HasPrefix(m.Class, "fetch-returns-other-bytes-than-stored"):
		return "frac/sealed_index.go:sealedDataProvider.Fetch"
	case strings.HasPrefix(m.Class, "restart-after-crash-in-release-differs") || strings.HasPrefix(m.Class, "fetch-restart-after-crash"):
		return "fracmanager/loader.go:load"
	case m.Class == "replayed-active-differs" || m.Class == "replay-error":
		return "frac/active.go:Replay"
	case strings.Contains(m.Class, "active-changed-by-seal"):
		return "frac/active_sealer.go:writeSealedFraction"
	case strings.Contains(m.Class, "preloaded-broken-after-active-release"):
		return "frac/active.go:Release"
	case strings.HasPrefix(m.Class, "fetch"):
		return "frac/sealed_index.go:sealedFetchIndex"
	case m.Class == "seal-error":
		return "frac/active_sealer.go:Seal"
	case strings.Contains(m.Class, "earlier-sealed-fraction-changed-by-later-seal"):
		return "frac/active_sealer.go:writeSealedFraction"
	}
	return "frac/sealed_index.go:sealedDataProvider.Search"
}

var searchChannel *vh.Channel

func collect(orc *vh.Oracle, rep *vh.Report, line string, timeout time.Duration) {
	r, crash := runChild(line, timeout)
	if r == nil {
		// a dead child is re-run once alone before it is reported
		r, crash = runChild(line, timeout)
	}
	if r == nil {
		site, class := crashSite(crash)
		orc.Case(line, true, "crash")
		rep.Violate(vh.Violation{Site: site, Class: class, What: crash, Replay: []string{line}})
		return
	}
	for i := 0; i < r.Cases; i++ {
		orc.Cases++
	}
	orc.Nontrivial += r.Nontrivial
	for k, v := range r.Tags {
		orc.Distribution[k] += v
	}
	for _, s := range r.Samples {
		if len(orc.Samples) < 6 {
			orc.Samples = append(orc.Samples, s)
		}
	}
	for _, n := range r.Notes {
		rep.Note("%s: %s", line, n)
	}
	if searchChannel != nil {
		for _, l := range r.Lines {
			searchChannel.Add(l[0], l[1], !strings.Contains(l[1], "total=0 "), "queries")
		}
	}
	if len(r.Stats) > 0 {
		var ks []string
		for _, k := range vh.SortedKeys(r.Stats) {
			ks = append(ks, k+"="+r.Stats[k])
		}
		rep.Note("%s: %s", line, strings.Join(ks, " "))
	}
	seen := map[string]bool{}
	for _, m := range r.Mismatches {
		if seen[m.Class] {
			continue
		}
		seen[m.Class] = true
		rl := line
		if m.Req >= 0 && !strings.HasPrefix(line, "sys sealseq ") {
			rl = strings.Replace(line, "req=-1", fmt.Sprintf("req=%d", m.Req), 1)
		}
		rep.Violate(vh.Violation{Site: mismatchSite(m), Class: m.Class,
			What: fmt.Sprintf("%s [%s]: %s  <>  %s", m.Desc, m.Forms, m.A, m.B), Replay: []string{rl}})
	}
}

func runSystemOracle(o vh.Opts, rng *vh.RNG, rep *vh.Report, tmp string) {
	orc := vh.NewOracle("c03.forms", "one corpus served by the active fraction, the fraction sealed from it (NewSealedPreloaded), a fresh Sealed loaded from the files, and the latter with a tiny cache that is rotated and cleaned after every request (constant eviction), twice: the same search / histogram / aggregation / fetch requests must give byte-identical canonical answers (ids in order, total, sorted histogram, sorted aggregation bins with min/max/sum/total/notExists, fetched documents); varied: corpus shape, SkipSortDocs, zstd level, doc block size, cache size; non-trivial = the request has hits and the shape crosses an ID / LID / token / doc block boundary")
	var cases []sysCase
	zs := []int{-5, 1, 3, 9}
	for i := 0; i < o.Pick(3, 10); i++ {
		cases = append(cases, sysCase{Shape: "small", Seed: int64(rng.U64() >> 2), SkipSort: i%2 == 1, Zstd: zs[i%4], DocBlock: []int{128, 1024, 0}[i%3], CacheKB: []int{1, 4, 64}[i%3], OnlyReq: -1})
	}
	cases = append(cases, sysCase{Shape: "ids2", Seed: int64(rng.U64() >> 2), SkipSort: false, Zstd: 1, DocBlock: 4096, CacheKB: 8, OnlyReq: -1})
	cases = append(cases, sysCase{Shape: "lids2m", Seed: int64(rng.U64() >> 2), SkipSort: true, Zstd: -5, DocBlock: 0, CacheKB: 64, OnlyReq: -1})
	if o.Thorough() {
		for i, sh := range []string{"latedocs", "latedocs", "docs4094", "docs4095", "docs4096", "docs4097", "docs8190", "docs12287", "ids-exact", "ids-exact1", "bigdict", "exactdict", "lids64k", "ids2", "bigdict", "manyfields", "manyfields", "hugedict", "tinybulks", "tinybulks", "tinybulks"} {
			cases = append(cases, sysCase{Shape: sh, Seed: int64(rng.U64() >> 2), SkipSort: i%2 == 0, Zstd: zs[i%4], DocBlock: []int{2048, 0, 512}[i%3], CacheKB: []int{4, 16, 1}[i%3], OnlyReq: -1})
		}
	} else {
		cases = append(cases, sysCase{Shape: "latedocs", Seed: int64(rng.U64() >> 2), SkipSort: false, Zstd: 1, DocBlock: 512, CacheKB: 4, OnlyReq: -1})
		cases = append(cases, sysCase{Shape: "docs4095", Seed: int64(rng.U64() >> 2), SkipSort: true, Zstd: 1, DocBlock: 0, CacheKB: 4, OnlyReq: -1})
		cases = append(cases, sysCase{Shape: "tinybulks", Seed: int64(rng.U64() >> 2), SkipSort: true, Zstd: 1, DocBlock: 0, CacheKB: 2, OnlyReq: -1},
			sysCase{Shape: "tinybulks", Seed: int64(rng.U64() >> 2), SkipSort: false, Zstd: 3, DocBlock: 64, CacheKB: 1, OnlyReq: -1})
		for i, sh := range []string{"bigdict", "lids64k", "ids-exact", "exactdict", "manyfields", "hugedict"} {
			cases = append(cases, sysCase{Shape: sh, Seed: int64(rng.U64() >> 2), SkipSort: i%2 == 0, Zstd: zs[(i+1)%4], DocBlock: []int{1024, 0, 256}[i%3], CacheKB: []int{4, 16, 1}[i%3], OnlyReq: -1})
		}
	}
	searchChannel = vh.NewChannel("frac.search", "the real active fraction and the fraction sealed from it (both must agree) vs the model: the active state is read through the sealer's accessors (MIDs, RIDs, all-documents list, sorted fields/tokens/posting lists) and given to sealFrac + search (sealedIndex) and search (activeIndex) with small random ID block sizes, LID capacities and token block sizes (the answer must not depend on them): token, AND, OR, AND NOT queries over existing tokens, time windows, both orders, limits, histogram intervals; compared: total, ids in order, histogram; non-trivial = at least one hit")
	for _, c := range cases {
		collect(orc, rep, c.String(), 10*time.Minute)
	}
	rep.AddOracle(orc)
	seqo := vh.NewOracle("c03.seal-sequence", "four fractions are filled and sealed one after another in ONE process (GOMAXPROCS=1, GC off so that pooled writers are reused); after every seal the new and every earlier freshly sealed (preloaded, not reloaded) fraction must still answer every search / histogram / aggregation / fetch like its active form did; varied: SkipSortDocs, zstd level, doc block size (128..1024 bytes -> many doc blocks); non-trivial = an earlier fraction with > 1 doc block re-checked after a later seal")
	for i := 0; i < o.Pick(2, 8); i++ {
		c := sysCase{Shape: "sealseq", Seed: int64(rng.U64() >> 2), SkipSort: i%2 == 1, Zstd: zs[i%4], DocBlock: []int{256, 128, 1024}[i%3], CacheKB: 0, OnlyReq: -1}
		collect(seqo, rep, c.String(), 10*time.Minute)
	}
	rep.AddOracle(seqo)
	rep.AddChannel(searchChannel, o.Driver)
	searchChannel = nil

	tot := vh.NewOracle("c03.seal-total", "sealing must succeed for every token shape the active fraction accepted: N tokens of S bytes in one field (average token longer than one 16 KiB token block makes blockSize = len(tids)/blocksCount = 0); run in a child process; non-trivial = the fraction was sealed and answered like the active one")
	for _, spec := range []string{"2x8000", "40x100", "3x16385", "2x17000"} {
		collect(tot, rep, "sys seal-bigtokens "+spec, 2*time.Minute)
	}
	rep.AddOracle(tot)
}

func replaySystemOracle(lines []string, o vh.Opts, rep *vh.Report, tmp string) {
	if len(lines) == 0 {
		return
	}
	orc := vh.NewOracle("c03.forms.replay", "replayed system cases")
	for _, l := range lines {
		collect(orc, rep, l, 10*time.Minute)
	}
	rep.AddOracle(orc)
}
