package main

import (
	"encoding/hex"
	"fmt"
	"os"
	"path/filepath"
	"sort"
	"strconv"
	"strings"

	"github.com/ozontech/seq-db/cache"
	"github.com/ozontech/seq-db/disk"
	"github.com/ozontech/seq-db/frac"
	"github.com/ozontech/seq-db/frac/token"

	"verifharness/internal/vh"
)

func parseTokFields(s string) []frac.VerifField {
	if s == "-" {
		return nil
	}
	var res []frac.VerifField
	parts := strings.Split(s, "|")
	pad := ""
	if len(parts) > 100 { // long names: the token TABLE then needs several 16 KiB blocks
		pad = strings.Repeat("_", 40)
	}
	for i, f := range parts {
		vf := frac.VerifField{Name: fmt.Sprintf("f%03d%s", i, pad)}
		if f != "-" {
			for _, t := range strings.Split(f, ",") {
				vf.Tokens = append(vf.Tokens, unx(t))
				vf.Postings = append(vf.Postings, []uint32{1})
			}
		}
		res = append(res, vf)
	}
	return res
}

func fmtTokFields(fs [][][]byte) string {
	if len(fs) == 0 {
		return "-"
	}
	p := make([]string, len(fs))
	for i, f := range fs {
		q := make([]string, len(f))
		for j, t := range f {
			q[j] = xh(t)
		}
		p[i] = vh.JoinStrs(q, ",")
	}
	return strings.Join(p, "|")
}

func fieldIndex(name string) int {
	n, _ := strconv.Atoi(strings.TrimRight(strings.TrimPrefix(name, "f"), "_"))
	return n
}

func hexToks(ts [][]byte) string {
	q := make([]string, len(ts))
	for j, t := range ts {
		q[j] = xh(t)
	}
	return vh.JoinStrs(q, ",")
}

// tokens are written as 'x' + hex so that an empty token ("x") differs from an empty list ("-")
func xh(b []byte) string { return "x" + hex.EncodeToString(b) }

func unx(s string) []byte {
	b, _ := hex.DecodeString(strings.TrimPrefix(s, "x"))
	return b
}

func fmtTable(t token.Table) string {
	names := vh.SortedKeys(t)
	var es []string
	for _, n := range names {
		fd := t[n]
		for i, e := range fd.Entries {
			mn := "-"
			if i == 0 {
				mn = xh([]byte(fd.MinVal))
			}
			es = append(es, fmt.Sprintf("%d:%d:%d:%d:%d:%s:%s", fieldIndex(n), e.StartIndex, e.StartTID, e.BlockIndex, e.ValCount, mn, xh([]byte(e.MaxVal))))
		}
	}
	return vh.JoinStrs(es, ";")
}

func tokensTableImpl(dir string, fields []frac.VerifField) (res string) {
	defer func() {
		if r := recover(); r != nil {
			res = "panic"
		}
	}()
	f, err := os.CreateTemp(dir, "tok-*.index")
	if err != nil {
		return "err " + err.Error()
	}
	defer func() { f.Close(); os.Remove(f.Name()) }()
	w, err := frac.VerifNewIndexWriter(f)
	if err != nil {
		return "err " + err.Error()
	}
	if err := w.WriteInfo(); err != nil {
		return "err " + err.Error()
	}
	tt, p, err := w.WriteTokens(fields, 1)
	if p != "" {
		return "panic"
	}
	if err != nil {
		return "err " + err.Error()
	}
	if err := w.Finish(); err != nil {
		return "err " + err.Error()
	}
	reader := disk.NewIndexReader(readLimiter, f, cache.NewCache[[]byte](nil, nil))
	loaded := token.NewTableLoader("verif", &reader, cache.NewCache[token.Table](nil, nil)).Load()
	a, b := fmtTable(tt), fmtTable(loaded)
	if a != b {
		return "loaded-table-differs " + a + " / " + b
	}
	n := 0
	for _, fl := range fields {
		n += len(fl.Tokens)
	}
	vals := make([]string, n)
	for _, tbl := range []token.Table{tt, loaded} {
		bl := token.NewBlockLoader("verif", &reader, cache.NewCache[*token.CacheEntry](nil, nil))
		for tid := 1; tid <= n; tid++ {
			v := "x"
			func() {
				defer func() { recover() }()
				if e := tbl.GetEntryByTID(uint32(tid)); e != nil {
					v = xh(bl.Load(e).GetValByTID(uint32(tid)))
				}
			}()
			if vals[tid-1] != "" && vals[tid-1] != v {
				return fmt.Sprintf("loaded-value-differs tid %d", tid)
			}
			vals[tid-1] = v
		}
	}
	return "ok entries=" + a + " vals=" + vh.JoinStrs(vals, ",")
}

// tokensTableBytesImpl writes tokens + token table and returns the raw bytes of every token TABLE block and whether the
// table re-loaded from the file equals the one kept from sealing.
func tokensTableBytesImpl(dir string, fields []frac.VerifField) (res string) {
	defer func() {
		if r := recover(); r != nil {
			res = "panic"
		}
	}()
	f, err := os.CreateTemp(dir, "tokb-*.index")
	if err != nil {
		return "err " + err.Error()
	}
	defer func() { f.Close(); os.Remove(f.Name()) }()
	w, err := frac.VerifNewIndexWriter(f)
	if err != nil {
		return "err " + err.Error()
	}
	if err := w.WriteInfo(); err != nil {
		return "err " + err.Error()
	}
	tt, p, err := w.WriteTokens(fields, 1)
	if p != "" || err != nil {
		return "panic"
	}
	if err := w.Finish(); err != nil {
		return "err " + err.Error()
	}
	reader := disk.NewIndexReader(readLimiter, f, cache.NewCache[[]byte](nil, nil))
	i := uint32(1)
	for { // skip the token blocks
		h, err := reader.GetBlockHeader(i)
		i++
		if err != nil || h.Len() == 0 {
			break
		}
	}
	var blocks []string
	for {
		h, err := reader.GetBlockHeader(i)
		if err != nil || h.Len() == 0 {
			break
		}
		data, _, err := reader.ReadIndexBlock(i, nil)
		if err != nil {
			return "err " + err.Error()
		}
		blocks = append(blocks, vh.Hex(data))
		i++
	}
	loaded := token.NewTableLoader("verif", &reader, cache.NewCache[token.Table](nil, nil)).Load()
	return "ok " + vh.JoinStrs(blocks, "|") + " loaded=" + vh.B(fmtTable(tt) == fmtTable(loaded))
}

// tokensGetSeqImpl: a sequence of GetValByTID calls on ONE sealedTokenIndex over a real index file.
func tokensGetSeqImpl(dir string, fields []frac.VerifField, tids []uint32) (res string) {
	defer func() {
		if r := recover(); r != nil {
			res = "panic"
		}
	}()
	f, err := os.CreateTemp(dir, "tokq-*.index")
	if err != nil {
		return "err " + err.Error()
	}
	defer func() { f.Close(); os.Remove(f.Name()) }()
	w, err := frac.VerifNewIndexWriter(f)
	if err != nil {
		return "err " + err.Error()
	}
	if err := w.WriteInfo(); err != nil {
		return "err " + err.Error()
	}
	if _, p, err := w.WriteTokens(fields, 1); p != "" || err != nil {
		return "panic"
	}
	if err := w.Finish(); err != nil {
		return "err " + err.Error()
	}
	reader := disk.NewIndexReader(readLimiter, f, cache.NewCache[[]byte](nil, nil))
	ti := frac.VerifNewTokenIndex(&reader, newIndexCache())
	out := make([]string, len(tids))
	for i, tid := range tids {
		v := "?"
		func() {
			defer func() { recover() }()
			v = xh(ti.GetValByTID(tid))
		}()
		out[i] = v
	}
	return "ok " + vh.JoinStrs(out, ",")
}

// tokensTableCodecImpl writes a synthetic token table with the real writer and re-loads it with token.TableLoader.
func tokensTableCodecImpl(dir string, spec string) (res string) {
	defer func() {
		if r := recover(); r != nil {
			res = fmt.Sprint("panic ", r)
		}
	}()
	var fields []frac.VerifTableField
	for _, fs := range strings.Split(spec, "|") {
		name, es, _ := strings.Cut(fs, "=")
		vf := frac.VerifTableField{Name: string(unx(name))}
		if es != "-" && es != "" {
			for _, e := range strings.Split(es, ";") {
				p := strings.Split(e, ":")
				u := func(x string) uint32 { v, _ := strconv.ParseUint(x, 10, 32); return uint32(v) }
				te := &token.TableEntry{StartTID: u(p[0]), ValCount: u(p[1]), StartIndex: u(p[2]), BlockIndex: u(p[3]), MaxVal: string(unx(p[5]))}
				if p[4] != "-" {
					te.MinVal = string(unx(p[4]))
				}
				vf.Entries = append(vf.Entries, te)
			}
		}
		fields = append(fields, vf)
	}
	f, err := os.CreateTemp(dir, "tokc-*.index")
	if err != nil {
		return "err " + err.Error()
	}
	defer func() { f.Close(); os.Remove(f.Name()) }()
	w, err := frac.VerifNewIndexWriter(f)
	if err != nil {
		return "err " + err.Error()
	}
	if err := w.WriteInfo(); err != nil {
		return "err " + err.Error()
	}
	if err := w.WriteTokenTableOnly(fields, 1); err != nil {
		return "err " + err.Error()
	}
	if err := w.Finish(); err != nil {
		return "err " + err.Error()
	}
	reader := disk.NewIndexReader(readLimiter, f, cache.NewCache[[]byte](nil, nil))
	var blocks []string
	for i := uint32(2); ; i++ {
		h, err := reader.GetBlockHeader(i)
		if err != nil || h.Len() == 0 {
			break
		}
		data, _, err := reader.ReadIndexBlock(i, nil)
		if err != nil {
			return "err " + err.Error()
		}
		blocks = append(blocks, vh.Hex(data))
	}
	loaded := token.NewTableLoader("verif", &reader, cache.NewCache[token.Table](nil, nil)).Load()
	var lf []string
	for _, n := range vh.SortedKeys(loaded) {
		fd := loaded[n]
		var es []string
		for _, e := range fd.Entries {
			es = append(es, fmt.Sprintf("%d:%d:%d:%d:%s", e.StartIndex, e.StartTID, e.BlockIndex, e.ValCount, xh([]byte(e.MaxVal))))
		}
		lf = append(lf, fmt.Sprintf("%s=%s[%s]", xh([]byte(n)), xh([]byte(fd.MinVal)), vh.JoinStrs(es, ";")))
	}
	return "ok " + vh.JoinStrs(blocks, "|") + " loaded=" + vh.JoinStrs(lf, "|")
}

func tokensAnswer(line, tmp string) (string, bool) {
	f := strings.Fields(line)
	switch {
	case len(f) == 3 && f[0] == "tokens.tablecodec":
		if f[1] != "16384" {
			return "err fixed block size", true
		}
		return tokensTableCodecImpl(tmp, f[2]), true
	case len(f) == 5 && f[0] == "tokens.getseq":
		if f[1] != "16384" || f[2] != "1" {
			return "err fixed block size / first block index", true
		}
		return tokensGetSeqImpl(tmp, parseTokFields(f[3]), parseU32s(f[4])), true
	case len(f) == 5 && f[0] == "tokens.tablebytes":
		if f[1] != "16384" || f[2] != "1" {
			return "err fixed block size / first block index", true
		}
		return tokensTableBytesImpl(tmp, parseTokFields(f[4])), true
	case len(f) == 4 && f[0] == "tokens.gen":
		if f[1] != "new" || f[2] != "16384" {
			return "err only the current code with consts.RegularBlockSize can be run", true
		}
		bs, stopped := frac.VerifTokensBlocks(parseTokFields(f[3]), 4096)
		if stopped {
			return "panic", true
		}
		p := make([]string, len(bs))
		for i, b := range bs {
			p[i] = fmt.Sprintf("%d:%s:%d:%d:%s", fieldIndex(b.Field), vh.B(b.IsStartOfField), b.TotalSizeOfField, b.StartTID, hexToks(b.Tokens))
		}
		return "ok " + vh.JoinStrs(p, "|"), true
	case len(f) == 4 && f[0] == "tokens.table":
		if f[1] != "16384" || f[2] != "1" {
			return "err fixed block size / first block index", true
		}
		return tokensTableImpl(tmp, parseTokFields(f[3])), true
	case len(f) == 4 && f[0] == "tokens.select":
		fd := &token.FieldData{MinVal: string(unx(f[2]))}
		for i, m := range strings.Split(f[3], ",") {
			fd.Entries = append(fd.Entries, &token.TableEntry{StartIndex: uint32(i), MaxVal: string(unx(m))})
		}
		res := token.Table{"f": fd}.SelectEntries("f", string(unx(f[1])))
		if len(res) == 0 {
			return "ok empty", true
		}
		return fmt.Sprintf("ok %d %d", res[0].StartIndex, res[len(res)-1].StartIndex+1), true
	}
	return "", false
}

func runTokenChannels(o vh.Opts, rng *vh.RNG, rep *vh.Report, tmp string) {
	dir := filepath.Join(tmp, "tok")
	os.MkdirAll(dir, 0o755)
	mk := func(seed, n int) []byte {
		b := make([]byte, n)
		for i := range b {
			b[i] = byte('a' + (seed+i*7)%26)
		}
		return b
	}
	gen := vh.NewChannel("tokens.gen", "getTokensBlocksGenerator vs genTokenBlocks bsNew 16384: EXHAUSTIVE over fields of 1..4 tokens with sizes from {1, 5000, 9000, 17000} (thorough; quick samples 1/4) so that blocksCount is below, equal to and above the token count (the blockSize = 0 shape of the defect fixed in fb6d41d), two-field combinations, plus random dictionaries; compared block by block (field, isStartOfField, totalSizeOfField, startTID, tokens); non-trivial = some field is split into >= 2 blocks")
	tab := vh.NewChannel("tokens.table", "writeTokensBlocks + writeTokenTableBlocks on a real index file, token.TableLoader (table re-loaded from the file must equal the table kept from sealing), BlockLoader + GetEntryByTID + GetValByTID for every tid vs writeTokens / getValByTID: table entries (StartIndex, StartTID, BlockIndex, ValCount, MinVal, MaxVal) and the value of every tid; same inputs; non-trivial = >= 2 physical blocks or >= 2 entries in one block")
	seqc := vh.NewChannel("tokens.getseq", "SEQUENCES of sealedTokenIndex.GetValByTID calls on one index instance over a real index file (table + block loaders, caches) vs getValSeq (= the stateless per-TID answer): all TIDs ascending, all descending, random jumps, and neighbours back and forth across every entry / physical block boundary; same layouts as tokens.table; non-trivial = >= 2 table entries")
	tbb := vh.NewChannel("tokens.tablebytes", "writeTokenTableBlocks (raw bytes of every token TABLE block of a real index file) and token.TableLoader (re-loaded table = table kept from sealing) vs packFieldBlock / writeTable / loadTable / keptField; same inputs as tokens.table incl. hundreds of small fields with long names (several table blocks over shared physical token blocks); non-trivial = >= 2 table blocks")
	sizes := []int{1, 5000, 9000, 17000}
	var layouts [][][][]byte
	idx := 0
	var rec func(cur [][]byte)
	rec = func(cur [][]byte) {
		if len(cur) > 0 {
			idx++
			if o.Thorough() || idx%4 == int(o.Seed%4) {
				fs := [][][]byte{sortedToks(cur)}
				if idx%3 == 0 {
					fs = append([][][]byte{{[]byte("a"), []byte("b")}}, fs...)
				}
				if idx%5 == 0 {
					fs = append(fs, sortedToks([][]byte{mk(idx, 3), mk(idx+1, 20000)}))
				}
				layouts = append(layouts, fs)
			}
		}
		if len(cur) == 4 {
			return
		}
		for _, s := range sizes {
			rec(append(append([][]byte{}, cur...), mk(len(cur)*31+s, s)))
		}
	}
	rec(nil)
	nExh := len(layouts)
	for i := 0; i < o.Pick(15, 150); i++ {
		var fs [][][]byte
		for f := rng.Range(1, 4); f > 0; f-- {
			var toks [][]byte
			big := rng.Chance(1, 3)
			for t := rng.Range(1, 60); t > 0; t-- {
				n := rng.Range(0, 40)
				if big {
					n = rng.Range(200, 3000)
				}
				toks = append(toks, mk(int(rng.U64()%1000), n))
			}
			fs = append(fs, sortedToks(toks))
		}
		layouts = append(layouts, fs)
	}
	nMany := 0
	for _, target := range []int{16383, 16384, 16385, 16386} { // packed size of one token block right at the flush threshold (> 16384)
		l1 := 8000
		l2 := target - 12 - l1
		fs := [][][]byte{sortedToks([][]byte{mk(1, l1), mk(2, l2)}), {[]byte("p"), []byte("q")}, sortedToks([][]byte{mk(3, 16384-12-4000+target-16384), mk(4, 4000)})}
		layouts = append(layouts, fs)
		nMany++
	}
	{ // a field that contains the empty value (its MinVal is ""), alone and followed by another field
		layouts = append(layouts, [][][]byte{{[]byte(""), []byte("a"), []byte("b")}}, [][][]byte{{[]byte(""), []byte("zz")}, {[]byte("k")}},
			[][][]byte{sortedToks([][]byte{[]byte(""), mk(1, 9000), mk(2, 9000), mk(3, 9000)})})
		nMany += 3
	}
	{ // token blocks larger than 64 KiB: many short values and a sorted run of long ones in one field
		var toks [][]byte
		for t := 0; t < 20000; t++ {
			toks = append(toks, []byte(fmt.Sprintf("m%07d", t)))
		}
		for t := 0; t < 3000; t++ {
			toks = append(toks, []byte(fmt.Sprintf("z%s%06d", strings.Repeat("0123456789", 6)+"01234", t)))
		}
		layouts = append(layouts, [][][]byte{sortedToks(toks)})
		nMany++
	}
	for i := 0; i < o.Pick(3, 12); i++ { // many small fields: multi-block token table over shared physical token blocks
		var fs [][][]byte
		nf := rng.Range(250, 600)
		for f := 0; f < nf; f++ {
			var toks [][]byte
			for t := rng.Range(1, 3); t > 0; t-- {
				toks = append(toks, mk(int(rng.U64()%1000), rng.Range(1, 6)))
			}
			if i%3 == 2 && f == nf/2 {
				toks = append(toks, mk(7, 9000), mk(8, 9000)) // a big field in the middle forces block changes
			}
			fs = append(fs, sortedToks(toks))
		}
		layouts = append(layouts, fs)
		nMany++
	}
	for i := 0; i < o.Pick(2, 10); i++ { // long tokens with a long common prefix spread over several token blocks
		var toks [][]byte
		plen := []int{33, 80, 100}[i%3]
		prefix := mk(i, plen)
		for t := rng.Range(250, 500); t > 0; t-- {
			toks = append(toks, append(append([]byte{}, prefix...), []byte(fmt.Sprintf("%08d", rng.Intn(1000000)))...))
		}
		layouts = append(layouts, [][][]byte{sortedToks(toks)})
		nMany++
	}
	for li, fs := range layouts {
		kind := "exhaustive"
		if li >= nExh {
			kind = "random"
		}
		if li >= len(layouts)-nMany {
			kind = "many-fields-or-long-common-prefix"
		}
		line := "tokens.gen new 16384 " + fmtTokFields(fs)
		impl, _ := tokensAnswer(line, dir)
		split := false
		seen := map[string]int{}
		for _, b := range strings.Split(strings.TrimPrefix(impl, "ok "), "|") {
			fld, _, _ := strings.Cut(b, ":")
			seen[fld]++
			split = split || seen[fld] >= 2
		}
		gen.Add(line, impl, split, kind)
		line = "tokens.table 16384 1 " + fmtTokFields(fs)
		impl, _ = tokensAnswer(line, dir)
		tabImpl := impl
		tab.Add(line, impl, strings.Count(impl, ";") >= 1, kind)
		pad := 0
		if len(fs) > 100 {
			pad = 40
		}
		// sequences of GetValByTID calls on one index instance: ascending, descending, around every entry boundary, random
		ntok := 0
		for _, fl := range fs {
			ntok += len(fl)
		}
		if ntok > 0 && (ntok <= 2000 || ntok == 23000) {
			var asc, desc, rnd, edges []uint32
			for t := 1; t <= ntok; t++ {
				asc = append(asc, uint32(t))
				desc = append(desc, uint32(ntok+1-t))
			}
			for k := 0; k < 40; k++ {
				rnd = append(rnd, uint32(rng.Range(1, ntok)))
			}
			for t := 1; t < ntok; t++ { // t, t+1, t, t+1: neighbours back and forth across every boundary
				edges = append(edges, uint32(t), uint32(t+1), uint32(t), uint32(t+1))
			}
			if len(edges) > 600 {
				st := rng.Intn(len(edges)-600) / 4 * 4
				edges = edges[st : st+600]
			}
			for si, sq := range [][]uint32{asc, desc, rnd, edges} {
				if len(asc) > 300 && si < 2 && !o.Thorough() && li%2 == 0 {
					continue
				}
				line = fmt.Sprintf("tokens.getseq 16384 1 %s %s", fmtTokFields(fs), fmtU32s(sq))
				impl, _ = tokensAnswer(line, dir)
				seqc.Add(line, impl, strings.Count(tabImpl, ";") >= 1, kind, []string{"ascending", "descending", "random", "neighbours"}[si])
			}
		}
		line = fmt.Sprintf("tokens.tablebytes 16384 1 %d %s", pad, fmtTokFields(fs))
		impl, _ = tokensAnswer(line, dir)
		tbb.Add(line, impl, strings.Count(impl, "|") >= 1, kind)
	}
	gen.Exhaustive, tab.Exhaustive = o.Thorough(), o.Thorough()
	tbb.Exhaustive = o.Thorough()
	rep.AddChannel(gen, o.Driver)
	rep.AddChannel(tab, o.Driver)
	rep.AddChannel(tbb, o.Driver)
	rep.AddChannel(seqc, o.Driver)

	tc := vh.NewChannel("tokens.tablecodec", "writeTokenTableBlocks + token.TableLoader on SYNTHETIC token tables (no token blocks needed) vs writeTable / loadTable: fields with 0..700 entries (incl. far more than 256 = RegularBlockSize/64 entries in one field), border values of 0..120 bytes with long common prefixes, many fields per table block and fields larger than a table block; compared: raw bytes of every table block and the re-loaded table (MinVal, every entry); non-trivial = some field has > 256 entries or a border value longer than 72 bytes")
	for i := 0; i < o.Pick(12, 120); i++ {
		nf := rng.Range(1, 6)
		var fparts []string
		big := false
		tid := 1
		for fi := 0; fi < nf; fi++ {
			ne := []int{0, 1, 3, 40, 257, 300, 700}[rng.Intn(7)]
			if i < 3 && fi == 0 {
				ne = []int{257, 300, 700}[i]
			}
			prefix := mk(i+fi, []int{0, 5, 30, 33, 80, 110}[rng.Intn(6)])
			var es []string
			for e := 0; e < ne; e++ {
				mx := append(append([]byte{}, prefix...), []byte(fmt.Sprintf("%06d", e*3+2))...)
				mn := "-"
				if e == 0 {
					mn = xh(append(append([]byte{}, prefix...), []byte("000000")...))
				}
				vc := rng.Range(1, 9)
				es = append(es, fmt.Sprintf("%d:%d:%d:%d:%s:%s", tid, vc, rng.Intn(50), 1+e/3, mn, xh(mx)))
				tid += vc
				big = big || ne > 256 || len(mx) > 72
			}
			fparts = append(fparts, fmt.Sprintf("%s=%s", xh([]byte(fmt.Sprintf("fld%02d", fi))), vh.JoinStrs(es, ";")))
		}
		line := "tokens.tablecodec 16384 " + strings.Join(fparts, "|")
		impl, _ := tokensAnswer(line, dir)
		tc.Add(line, impl, big, fmt.Sprintf("fields=%d", nf))
	}
	rep.AddChannel(tc, o.Driver)

	sel := vh.NewChannel("tokens.select", "token.Table.SelectEntries vs selectEntries: EXHAUSTIVE over hints of length 0..2 over {a,b}, MinVal and 1..3 sorted MaxVals of length 0..3 over {a,b} (thorough; quick samples 1/3), plus random byte strings; answer = the selected entry range; non-trivial = hint non-empty and >= 2 entries")
	var words []string
	var grow func(w string, n int)
	grow = func(w string, n int) {
		words = append(words, w)
		if n == 0 {
			return
		}
		grow(w+"a", n-1)
		grow(w+"b", n-1)
	}
	grow("", 3)
	sort.Strings(words)
	hx := func(s string) string { return xh([]byte(s)) }
	cnt := 0
	for _, hint := range words {
		if len(hint) > 2 {
			continue
		}
		for i0, mn := range words {
			for i1 := i0; i1 < len(words); i1++ {
				addSel := func(mxs []string) {
					cnt++
					if !o.Thorough() && cnt%3 != int(o.Seed%3) {
						return
					}
					hs := make([]string, len(mxs))
					for i, m := range mxs {
						hs[i] = hx(m)
					}
					line := fmt.Sprintf("tokens.select %s %s %s", hx(hint), hx(mn), strings.Join(hs, ","))
					impl, _ := tokensAnswer(line, dir)
					sel.Add(line, impl, hint != "" && len(mxs) >= 2, "exhaustive", fmt.Sprintf("entries=%d", len(mxs)))
				}
				addSel([]string{words[i1]})
				for i2 := i1 + 1; i2 < len(words); i2++ {
					addSel([]string{words[i1], words[i2]})
					for i3 := i2 + 1; i3 < len(words); i3 += 2 {
						addSel([]string{words[i1], words[i2], words[i3]})
					}
				}
			}
		}
	}
	sel.Exhaustive = o.Thorough()
	for i := 0; i < o.Pick(200, 3000); i++ {
		n := rng.Range(1, 8)
		vals := make([]string, n+1)
		for k := range vals {
			b := make([]byte, rng.Range(0, 5))
			for j := range b {
				b[j] = byte(rng.Intn(4) * 85)
			}
			vals[k] = string(b)
		}
		sort.Strings(vals)
		hint := make([]byte, rng.Range(0, 4))
		for j := range hint {
			hint[j] = byte(rng.Intn(4) * 85)
		}
		hs := make([]string, n)
		for k := range hs {
			hs[k] = xh([]byte(vals[k+1]))
		}
		line := fmt.Sprintf("tokens.select %s %s %s", xh(hint), hx(vals[0]), strings.Join(hs, ","))
		impl, _ := tokensAnswer(line, dir)
		sel.Add(line, impl, len(hint) > 0 && n >= 2, "random")
	}
	rep.AddChannel(sel, o.Driver)
}

func sortedToks(ts [][]byte) [][]byte {
	m := map[string]bool{}
	var out [][]byte
	for _, t := range ts {
		if !m[string(t)] {
			m[string(t)] = true
			out = append(out, t)
		}
	}
	sort.Slice(out, func(i, j int) bool { return string(out[i]) < string(out[j]) })
	return out
}
