package main

import (
	"fmt"
	"os"
	"path/filepath"
	"sort"
	"strconv"
	"strings"

	"github.com/ozontech/seq-db/cache"
	"github.com/ozontech/seq-db/disk"
	"github.com/ozontech/seq-db/frac"
	"github.com/ozontech/seq-db/seq"

	"verifharness/internal/vh"
)

func fmtIDs(ids []seq.ID) string {
	if len(ids) == 0 {
		return "-"
	}
	p := make([]string, len(ids))
	for i, id := range ids {
		p[i] = fmt.Sprintf("%d:%d", uint64(id.MID), uint64(id.RID))
	}
	return strings.Join(p, ",")
}

func parseID(s string) seq.ID {
	a, b, _ := strings.Cut(s, ":")
	m, _ := strconv.ParseUint(a, 10, 64)
	r, _ := strconv.ParseUint(b, 10, 64)
	return seq.ID{MID: seq.MID(m), RID: seq.RID(r)}
}

func parseIDs(s string) []seq.ID {
	if s == "-" {
		return nil
	}
	var r []seq.ID
	for _, x := range strings.Split(s, ",") {
		r = append(r, parseID(x))
	}
	return r
}

func parseU64s(s string) []uint64 {
	if s == "-" {
		return nil
	}
	var r []uint64
	for _, x := range strings.Split(s, ",") {
		v, _ := strconv.ParseUint(x, 10, 64)
		r = append(r, v)
	}
	return r
}

func newIndexCache() *frac.IndexCache { return newCacheSet(0).index }

// idsBlocksImpl: writeIDsBlocks(size) on a scratch index file; returns the registry extents and the raw blocks.
func idsBlocksImpl(dir string, size int, ids []seq.ID, pos []uint64) string {
	f, err := os.CreateTemp(dir, "ids-*.index")
	if err != nil {
		return "err " + err.Error()
	}
	defer func() { f.Close(); os.Remove(f.Name()) }()
	w, err := frac.VerifNewIndexWriter(f)
	if err != nil {
		return "err " + err.Error()
	}
	if err := w.WriteInfo(); err != nil {
		return "err " + err.Error()
	}
	tbl, err := w.WriteIDs(ids, pos, size, 1)
	if err != nil {
		return "err " + err.Error()
	}
	if err := w.Finish(); err != nil {
		return "err " + err.Error()
	}
	reader := disk.NewIndexReader(readLimiter, f, cache.NewCache[[]byte](nil, nil))
	var exts, blocks []string
	for i := range tbl.MinBlockIDs {
		var parts []string
		for k := 0; k < 3; k++ {
			bi := tbl.DiskStartBlockIndex + uint32(3*i+k)
			data, _, err := reader.ReadIndexBlock(bi, nil)
			if err != nil {
				return "err " + err.Error()
			}
			parts = append(parts, vh.Hex(data))
			if k == 0 {
				h, _ := reader.GetBlockHeader(bi)
				e := seq.ID{MID: seq.MID(h.GetExt1()), RID: seq.RID(h.GetExt2())}
				if e != tbl.MinBlockIDs[i] {
					return fmt.Sprintf("ext-mismatch block %d: header %v table %v", i, e, tbl.MinBlockIDs[i])
				}
				exts = append(exts, fmt.Sprintf("%d:%d", h.GetExt1(), h.GetExt2()))
			}
		}
		blocks = append(blocks, strings.Join(parts, "/"))
	}
	return "ok " + vh.JoinStrs(exts, ",") + " " + vh.JoinStrs(blocks, "|")
}

type idsFile struct {
	probeReq  string // loader.probe request (registry headers of the file)
	probeImpl string // what the real Loader returned
	key       string
	f         *os.File
	pre       *frac.VerifIDsIndex
	load      *frac.VerifIDsIndex
	note      string
}

var lastIDsFile *idsFile

func (x *idsFile) close() {
	if x != nil && x.f != nil {
		n := x.f.Name()
		x.f.Close()
		os.Remove(n)
	}
}

// openIDsFile writes a complete index file whose ID section holds ids/pos (block size = consts.IDsBlockSize through the
// real writer) and opens a sealedIDsIndex on the table kept from writing and on the table re-loaded by the Loader.
func openIDsFile(dir string, ids []seq.ID, pos []uint64) (*idsFile, error) {
	f, err := os.CreateTemp(dir, "idsq-*.index")
	if err != nil {
		return nil, err
	}
	x := &idsFile{f: f}
	w, err := frac.VerifNewIndexWriter(f)
	if err != nil {
		return x, err
	}
	if err := w.WriteInfo(); err != nil {
		return x, err
	}
	fields := []frac.VerifField{{Name: "f", Tokens: [][]byte{[]byte("t")}, Postings: [][]uint32{{1}}}}
	if _, p, err := w.WriteTokens(fields, 1); err != nil || p != "" {
		return x, fmt.Errorf("tokens: %v %s", err, p)
	}
	if err := w.WritePositions(uint32(len(ids)), []uint64{0}, 1); err != nil {
		return x, err
	}
	tbl, err := w.WriteIDs(ids, pos, 4096, 1)
	if err != nil {
		return x, err
	}
	if _, _, err := w.WriteLIDs(fields, []uint32{0, 1}, 65536, 1); err != nil {
		return x, err
	}
	if err := w.Finish(); err != nil {
		return x, err
	}
	reader := disk.NewIndexReader(readLimiter, f, cache.NewCache[[]byte](nil, nil))
	x.pre = frac.VerifNewIDsIndex(&reader, newIndexCache(), tbl, frac.VerifCurrentBinaryDataVersion)
	var hs []string
	for i := uint32(0); ; i++ {
		h, err := reader.GetBlockHeader(i)
		if err != nil {
			break
		}
		hs = append(hs, fmt.Sprintf("%d:%d:%d", h.Len(), h.GetExt1(), h.GetExt2()))
	}
	x.probeReq = "loader.probe " + strings.Join(hs, ",")
	x.probeImpl = "panic"
	func() {
		defer func() { recover() }()
		it, _, lt, err := frac.VerifLoadTables(&reader)
		if err != nil {
			return
		}
		var ls []string
		for k := range lt.MinTIDs {
			ls = append(ls, fmt.Sprintf("%d:%d:%s", lt.MinTIDs[k], lt.MaxTIDs[k], vh.B(lt.IsContinued[k])))
		}
		x.probeImpl = fmt.Sprintf("ok idsStart=%d ids=%s lidsStart=%d lids=%s", it.DiskStartBlockIndex, fmtIDs(it.MinBlockIDs), lt.StartIndex, vh.JoinStrs(ls, ","))
	}()
	var ltbl frac.IDsTable
	func() { // the loader panics (logger.Panic) on a registry it cannot follow: an observation, not a harness crash
		defer func() {
			if r := recover(); r != nil {
				err = fmt.Errorf("loader-panic")
			}
		}()
		ltbl, _, _, err = frac.VerifLoadTables(&reader)
	}()
	if err != nil {
		x.note = "loaded-table-unreadable:" + err.Error()
		return x, nil
	}
	if fmtIDs(ltbl.MinBlockIDs) != fmtIDs(tbl.MinBlockIDs) || ltbl.IDsTotal != tbl.IDsTotal || ltbl.DiskStartBlockIndex != tbl.DiskStartBlockIndex {
		x.note = "loaded-table-differs"
	}
	x.load = frac.VerifNewIDsIndex(&reader, newIndexCache(), ltbl, frac.VerifCurrentBinaryDataVersion)
	return x, nil
}

func guardU64(fn func() uint64) string {
	res := "x"
	func() {
		defer func() { recover() }()
		res = strconv.FormatUint(fn(), 10)
	}()
	return res
}

func idsQueryOne(ix *frac.VerifIDsIndex, lid uint32, id seq.ID) string {
	m := guardU64(func() uint64 { return ix.GetMID(lid) })
	r := guardU64(func() uint64 { return ix.GetRID(lid) })
	p := guardU64(func() uint64 { return ix.DocPos([]uint32{lid})[0] })
	if lid == 0 {
		// getDocPosByLIDs treats LID 0 as "not found"; the model's getPos reads the stored position of LID 0
		p = guardU64(func() uint64 { return ix.Params(0)[0] })
	}
	l := "x"
	func() {
		defer func() { recover() }()
		l = vh.B(ix.LessOrEqual(lid, id))
	}()
	return m + ":" + r + ":" + p + ":" + l
}

func idsAnswer(line, tmp string) (string, bool) {
	f := strings.Fields(line)
	if len(f) == 4 && f[0] == "ids.blocks" {
		size, _ := strconv.Atoi(f[1])
		return idsBlocksImpl(tmp, size, parseIDs(f[2]), parseU64s(f[3])), true
	}
	if len(f) == 5 && f[0] == "ids.query" {
		if f[1] != "4096" {
			return "err reader block size is fixed", true
		}
		key := f[2] + " " + f[3]
		if lastIDsFile == nil || lastIDsFile.key != key {
			lastIDsFile.close()
			x, err := openIDsFile(tmp, parseIDs(f[2]), parseU64s(f[3]))
			if err != nil {
				x.close()
				lastIDsFile = nil
				return "err " + err.Error(), true
			}
			x.key = key
			lastIDsFile = x
		}
		var out []string
		for _, q := range strings.Split(f[4], ";") {
			l, ids, _ := strings.Cut(q, "@")
			onlyLE := strings.HasPrefix(l, "L") // beyond IDsTotal only LessOrEqual is defined (its guard answers)
			lid, _ := strconv.ParseUint(strings.TrimPrefix(l, "L"), 10, 32)
			id := parseID(ids)
			a := idsQueryOne(lastIDsFile.pre, uint32(lid), id)
			if lastIDsFile.load == nil {
				// reported through the note below
			} else if b := idsQueryOne(lastIDsFile.load, uint32(lid), id); a != b && !onlyLE {
				a = "loaded-differs(" + a + "/" + b + ")"
			}
			if onlyLE {
				a = "-:-:-:" + a[strings.LastIndex(a, ":")+1:]
			}
			out = append(out, a)
		}
		res := "ok " + strings.Join(out, ";")
		if lastIDsFile.note != "" {
			res += " " + lastIDsFile.note
		}
		return res, true
	}
	if len(f) == 7 && f[0] == "frac.index" {
		mids, rids := parseU64s(f[1]), parseU64s(f[2])
		all, post := parseU32s(f[3]), parseU32s(f[4])
		mn, _ := strconv.ParseUint(f[5], 10, 32)
		mx, _ := strconv.ParseUint(f[6], 10, 32)
		res := "panic"
		func() {
			defer func() { recover() }()
			ids, index := frac.VerifSortSeqIDs(mids, rids, all)
			asc := frac.VerifInverseLIDs(post, all, len(mids), uint32(mn), uint32(mx))
			desc := make([]uint32, len(asc))
			for i, v := range asc {
				desc[len(asc)-1-i] = v
			}
			res = fmt.Sprintf("ok ids=%s index=%s asc=%s desc=%s", fmtIDs(ids), fmtU32s(index), fmtU32s(asc), fmtU32s(desc))
		}()
		return res, true
	}
	return "", false
}

// genSortedIDs: system ID first, then n-1 ids in descending order with runs of equal MIDs and occasional duplicates.
func genSortedIDs(rng *vh.RNG, n int) ([]seq.ID, []uint64) {
	ids := make([]seq.ID, 0, n)
	pos := make([]uint64, 0, n)
	ids = append(ids, seq.ID{MID: seq.MID(^uint64(0)), RID: seq.RID(^uint64(0))})
	pos = append(pos, 0)
	mid := uint64(1_900_000_000_000)
	rid := ^uint64(0) - uint64(rng.Intn(5))
	for len(ids) < n {
		switch rng.Intn(6) {
		case 0, 1:
			mid -= uint64(rng.Range(1, 50))
			if rng.Chance(1, 40) { // a gap of 25..199 days: MID deltas of 32..34 bits
				mid -= uint64(1)<<31 + rng.U64()%(uint64(1)<<34-uint64(1)<<31)
			}
			rid = rng.U64() | 1<<63
		case 2: // duplicate id (nested documents)
		default:
			if rid > 10 {
				rid -= uint64(rng.Range(1, 1<<uint(rng.Range(1, 40))))
			}
		}
		ids = append(ids, seq.ID{MID: seq.MID(mid), RID: seq.RID(rid)})
		if k := len(ids); k > 1 && ids[k-1] == ids[k-2] {
			pos = append(pos, pos[len(pos)-1]) // equal ids share the position
		} else {
			pos = append(pos, rng.U64()>>uint(rng.Range(20, 60)))
		}
	}
	return ids, pos
}

func runIDsChannels(o vh.Opts, rng *vh.RNG, rep *vh.Report, tmp string) {
	dir := filepath.Join(tmp, "ids")
	os.MkdirAll(dir, 0o755)
	defer func() { lastIDsFile.close(); lastIDsFile = nil }()

	bl := vh.NewChannel("ids.blocks", "getIDsBlocksGenerator(size) + writeIDsBlocks on a real index file vs writeIDs: registry extents (= MinBlockIDs) and the raw bytes of every MIDs / RIDs / positions block; EXHAUSTIVE over 0..9 ids x block sizes 1..4, plus random id lists (wrapping MID deltas, duplicates, huge positions) with sizes 1..7; non-trivial = at least two blocks")
	for n := 0; n <= 9; n++ {
		ids, pos := genSortedIDs(rng, n)
		if n == 0 {
			ids, pos = nil, nil
		}
		for size := 1; size <= 4; size++ {
			line := fmt.Sprintf("ids.blocks %d %s %s", size, fmtIDs(ids), vh.JoinInts(pos))
			impl, _ := idsAnswer(line, dir)
			bl.Add(line, impl, n > size, "exhaustive-small", fmt.Sprintf("size=%d", size))
		}
	}
	for i := 0; i < o.Pick(60, 600); i++ {
		n := rng.Range(1, 30)
		ids, pos := genSortedIDs(rng, n)
		if rng.Chance(1, 3) { // unsorted / arbitrary MIDs: the codec must not depend on the order
			for k := range ids {
				ids[k].MID = seq.MID(rng.U64())
			}
		}
		size := rng.Range(1, 7)
		line := fmt.Sprintf("ids.blocks %d %s %s", size, fmtIDs(ids), vh.JoinInts(pos))
		impl, _ := idsAnswer(line, dir)
		bl.Add(line, impl, n > size, "random", fmt.Sprintf("size=%d", size))
	}
	rep.AddChannel(bl, o.Driver)

	q := vh.NewChannel("ids.index", "sealedIDsIndex.GetMID / GetRID / positions / LessOrEqual over a real index file (writer block size consts.IDsBlockSize, reader consts.IDsPerBlock; both the table kept from sealing and the table re-loaded from the registry) vs getMID / getRID / getPos / lessOrEqual at per = 4096: id sequences of 1, 2, 4095, 4096, 4097, 8192, 8193 and ~9000 ids; queried LIDs around every block boundary, 0, total-1, total, total+k; queried ids = the LID's own id, its neighbours, (mid, MaxUint64), (mid-1, MaxUint64), (mid+1, 0), rid+-1, block minima, random; non-trivial = the id sequence has >= 2 blocks")
	sizes := []int{1, 2, 4095, 4096, 4097, 8192}
	if o.Thorough() {
		sizes = append(sizes, 4094, 8191, 8193, 9000, 12287, 12288, 12289, 5000, 3)
	}
	probe := vh.NewChannel("loader.probe", "frac.Loader (skipTokens, loadIDs, loadLIDsBlocksTable) on real index files vs loadTables on the file's registry headers (len, ext1, ext2 of every block): ID sequences of cap*k-2 .. cap*k+1 ids for the real capacity 4096 (k = 1..3), i.e. also a completely full last ID block; compared: start of the ID section, MinBlockIDs, start of the LID section, LID table; non-trivial = IDsTotal is an exact multiple of IDsPerBlock")
	seenProbe := map[string]bool{}
	for si, n := range append(sizes, sizes...) {
		ids, pos := genSortedIDs(rng, n)
		sameMS := si >= len(sizes)
		if sameMS { // a run of same-millisecond ids (descending RIDs) straddling every 4096-LID block boundary
			if n <= 4096 {
				continue
			}
			for b := 4096; b < n; b += 4096 {
				lo, hi := max(1, b-7), min(n-1, b+7)
				for k := lo; k <= hi; k++ {
					ids[k] = seq.ID{MID: ids[lo].MID, RID: ids[lo].RID - seq.RID(k-lo)*3}
				}
				for k := hi + 1; k < n && !seq.Less(ids[k], ids[hi]); k++ { // keep the order strictly descending after the run
					ids[k] = seq.ID{MID: ids[hi].MID - 1, RID: seq.RID(1<<40) - seq.RID(k)}
				}
			}
		}
		var lids []int
		for _, c := range []int{0, 1, 2, 4095, 4096, 4097, 8191, 8192, 8193, 12287, 12288, n - 2, n - 1, n, n + 1, n + 4096, n + 5000} {
			for d := -1; d <= 1; d++ {
				if c+d >= 0 {
					lids = append(lids, c+d)
				}
			}
		}
		for k := 0; k < o.Pick(6, 120); k++ {
			lids = append(lids, rng.Intn(n+2))
		}
		if sameMS {
			for b := 4096; b < n; b += 4096 {
				for d := -8; d <= 8; d++ {
					lids = append(lids, b+d)
				}
			}
		}
		var qs []string
		for _, lid := range lids {
			var cand []seq.ID
			at := func(i int) {
				if i >= 0 && i < n {
					cand = append(cand, ids[i])
				}
			}
			at(lid)
			at(lid - 1)
			at(lid + 1)
			at((lid/4096+1)*4096 - 1) // min of this block
			at(lid/4096*4096 - 1)     // min of the previous block
			if lid < n {
				id := ids[lid]
				cand = append(cand, seq.ID{MID: id.MID, RID: seq.RID(^uint64(0))}, seq.ID{MID: id.MID - 1, RID: seq.RID(^uint64(0))},
					seq.ID{MID: id.MID + 1, RID: 0}, seq.ID{MID: id.MID, RID: id.RID - 1}, seq.ID{MID: id.MID, RID: id.RID + 1}, seq.ID{MID: id.MID, RID: 0})
			}
			cand = append(cand, seq.ID{MID: seq.MID(rng.U64() >> uint(rng.Intn(30))), RID: seq.RID(rng.U64())}, seq.ID{}, seq.ID{MID: seq.MID(^uint64(0)), RID: seq.RID(^uint64(0))})
			pre := ""
			if lid >= n {
				pre = "L"
			}
			for _, c := range cand {
				qs = append(qs, fmt.Sprintf("%s%d@%d:%d", pre, lid, uint64(c.MID), uint64(c.RID)))
			}
		}
		idsS, posS := fmtIDs(ids), vh.JoinInts(pos)
		for start := 0; start < len(qs); start += 400 {
			line := fmt.Sprintf("ids.query 4096 %s %s %s", idsS, posS, strings.Join(qs[start:min(start+400, len(qs))], ";"))
			impl, _ := idsAnswer(line, dir)
			q.Add(line, impl, n > 4096, fmt.Sprintf("n=%d", n), fmt.Sprintf("same-ms-run=%v", sameMS))
			if lastIDsFile != nil && !seenProbe[lastIDsFile.key] {
				seenProbe[lastIDsFile.key] = true
				probe.Add(lastIDsFile.probeReq, lastIDsFile.probeImpl, n%4096 == 0, fmt.Sprintf("n mod 4096 = %d", n%4096))
			}
			q.Distribution["queries"] += min(400, len(qs)-start)
		}
	}
	rep.AddChannel(q, o.Driver)
	rep.AddChannel(probe, o.Driver)

	fi := vh.NewChannel("frac.index", "sortSeqIDs (sealed ID order + old->new LID index) and newInverser + inverseLIDs (the active fraction's posting node content) vs sealedIDs / buildIndex / activeNode: random fractions of 1..40 documents inserted out of ID order, a posting list that is a sub-list of the all-documents list (plus foreign LIDs that are not in the inverser), random LID windows; non-trivial = posting list with >= 2 documents")
	for i := 0; i < o.Pick(300, 4000); i++ {
		n := rng.Range(1, 40)
		mids := []uint64{^uint64(0)}
		rids := []uint64{^uint64(0)}
		for k := 1; k <= n; k++ {
			mids = append(mids, uint64(1000+rng.Intn(n/2+1)))
			rids = append(rids, rng.U64()>>uint(rng.Range(1, 60)))
		}
		extra := rng.Intn(3) // LIDs appended after the search started: not in the all-documents list
		for k := 0; k < extra; k++ {
			mids = append(mids, uint64(2000+k))
			rids = append(rids, uint64(k))
		}
		all := make([]uint32, n)
		for k := range all {
			all[k] = uint32(k + 1)
		}
		sort.Slice(all, func(x, y int) bool { // descending (mid, rid, lid) like queueIDs.Less
			a, b := all[x], all[y]
			if mids[a] != mids[b] {
				return mids[a] > mids[b]
			}
			if rids[a] != rids[b] {
				return rids[a] > rids[b]
			}
			return a > b
		})
		var post []uint32
		for _, l := range all {
			if rng.Chance(1, 2) {
				post = append(post, l)
			}
		}
		for k := 0; k < extra; k++ {
			if rng.Bool() {
				post = append(post, uint32(n+1+k))
			}
		}
		a := rng.Range(0, n+1)
		b := rng.Range(a, n+2)
		if rng.Chance(1, 10) {
			a, b = b, a
		}
		line := fmt.Sprintf("frac.index %s %s %s %s %d %d", vh.JoinInts(mids), vh.JoinInts(rids), fmtU32s(all), fmtU32s(post), a, b)
		impl, _ := idsAnswer(line, dir)
		fi.Add(line, impl, len(post) >= 2, fmt.Sprintf("extra=%d", extra))
	}
	rep.AddChannel(fi, o.Driver)
}
