package main

import (
	"encoding/binary"
	"encoding/hex"
	"fmt"
	"os"
	"path/filepath"
	"strconv"
	"strings"

	"github.com/ozontech/seq-db/cache"
	"github.com/ozontech/seq-db/disk"
	"github.com/ozontech/seq-db/frac"
	"github.com/ozontech/seq-db/frac/lids"
	"github.com/ozontech/seq-db/packer"
	"github.com/ozontech/seq-db/seq"

	"verifharness/internal/vh"
)

// ---------------------------------------------------------------- line syntax helpers

func fmtU32s(xs []uint32) string { return vh.JoinInts(xs) }

func fmtChunks(cs [][]uint32) string {
	if len(cs) == 0 {
		return "_"
	}
	p := make([]string, len(cs))
	for i, c := range cs {
		p[i] = fmtU32s(c)
	}
	return strings.Join(p, ";")
}

func parseU32s(s string) []uint32 {
	if s == "-" || s == "" {
		return nil
	}
	var r []uint32
	for _, x := range strings.Split(s, ",") {
		v, _ := strconv.ParseUint(x, 10, 64)
		r = append(r, uint32(v))
	}
	return r
}

func parseChunks(s string) [][]uint32 {
	if s == "_" {
		return nil
	}
	var r [][]uint32
	for _, c := range strings.Split(s, ";") {
		r = append(r, parseU32s(c))
	}
	return r
}

// fields: `|` between fields, `;` between tokens, `,` between lids
func fmtFields(fs [][][]uint32) string {
	if len(fs) == 0 {
		return "-"
	}
	p := make([]string, len(fs))
	for i, f := range fs {
		if len(f) == 0 {
			p[i] = "-"
			continue
		}
		q := make([]string, len(f))
		for j, t := range f {
			q[j] = fmtU32s(t)
		}
		p[i] = strings.Join(q, ";")
	}
	return strings.Join(p, "|")
}

func parseFields(s string) [][][]uint32 {
	if s == "-" {
		return nil
	}
	var r [][][]uint32
	for _, f := range strings.Split(s, "|") {
		var toks [][]uint32
		if f != "-" {
			for _, t := range strings.Split(f, ";") {
				toks = append(toks, parseU32s(t))
			}
		}
		r = append(r, toks)
	}
	return r
}

// toVerifFields gives the fields names f000.. and the tokens values t000.. so that the generator's sorting keeps the order.
func toVerifFields(fs [][][]uint32) []frac.VerifField {
	res := make([]frac.VerifField, len(fs))
	for i, f := range fs {
		res[i].Name = fmt.Sprintf("f%03d", i)
		for j, post := range f {
			res[i].Tokens = append(res[i].Tokens, []byte(fmt.Sprintf("t%05d", j)))
			res[i].Postings = append(res[i].Postings, post)
		}
	}
	return res
}

func fmtLIDBlocks(bs []frac.VerifLIDBlock) string {
	if len(bs) == 0 {
		return "-"
	}
	p := make([]string, len(bs))
	for i, b := range bs {
		p[i] = fmt.Sprintf("%d:%d:%s:%s:%s", b.MinTID, b.MaxTID, vh.B(b.IsContinued), vh.B(b.IsLastLID), fmtChunks(b.Chunks))
	}
	return strings.Join(p, "|")
}

func classifyPanic(r any) string {
	s := fmt.Sprint(r)
	switch {
	case strings.Contains(s, "unexpected LIDs count"):
		return "count"
	case strings.Contains(s, "can't find block"), strings.Contains(s, "no blocks found"):
		return "no-block"
	case strings.Contains(s, "error loading LIDs block"):
		return "load"
	case strings.Contains(s, "out of range"):
		return "chunk-index"
	}
	return "other:" + strings.ReplaceAll(s, " ", "_")
}

// ---------------------------------------------------------------- an index file with a LIDs section

type lidsFile struct {
	key     string
	f       *os.File
	reader  disk.IndexReader
	sealT   *lids.Table // table built while sealing
	loadT   *lids.Table // table re-loaded from the registry
	blocks  []frac.VerifLIDBlock
	exts    []string
	loadErr string
}

func (lf *lidsFile) close() {
	if lf != nil && lf.f != nil {
		name := lf.f.Name()
		lf.f.Close()
		os.Remove(name)
	}
}

var readLimiter = disk.NewReadLimiter(4, nil)

// writeLidsFile writes a complete (small) index file: info, tokens, token table, positions, ids, lids, registry.
func writeLidsFile(dir string, capacity int, o2n []uint32, fields [][][]uint32, level int) (*lidsFile, error) {
	f, err := os.CreateTemp(dir, "lids-*.index")
	if err != nil {
		return nil, err
	}
	lf := &lidsFile{f: f}
	w, err := frac.VerifNewIndexWriter(f)
	if err != nil {
		return lf, err
	}
	vf := toVerifFields(fields)
	if err := w.WriteInfo(); err != nil {
		return lf, err
	}
	if len(vf) > 0 {
		hasTok := false
		for _, x := range vf {
			hasTok = hasTok || len(x.Tokens) > 0
		}
		if hasTok {
			if _, p, err := w.WriteTokens(vf, level); err != nil || p != "" {
				return lf, fmt.Errorf("tokens: %v %s", err, p)
			}
		} else {
			return lf, fmt.Errorf("no tokens")
		}
	}
	ids := []seq.ID{{MID: 1 << 62, RID: 1}, {MID: 5, RID: 5}}
	if err := w.WritePositions(uint32(len(ids)), []uint64{0}, level); err != nil {
		return lf, err
	}
	if _, err := w.WriteIDs(ids, []uint64{1, 2}, 4096, level); err != nil {
		return lf, err
	}
	start := w.BlockIndex()
	lf.sealT, lf.blocks, err = w.WriteLIDs(vf, o2n, capacity, level)
	if err != nil {
		return lf, err
	}
	if err := w.Finish(); err != nil {
		return lf, err
	}
	lf.reader = disk.NewIndexReader(readLimiter, f, cache.NewCache[[]byte](nil, nil))
	for i := range lf.blocks {
		h, err := lf.reader.GetBlockHeader(start + uint32(i))
		if err != nil {
			return lf, err
		}
		lf.exts = append(lf.exts, fmt.Sprintf("%d:%d", h.GetExt1(), h.GetExt2()))
	}
	func() {
		defer func() {
			if r := recover(); r != nil {
				lf.loadErr = fmt.Sprint(r)
			}
		}()
		_, _, lt, err := frac.VerifLoadTables(&lf.reader)
		if err != nil {
			lf.loadErr = err.Error()
		}
		lf.loadT = lt
	}()
	return lf, nil
}

func tablesEqual(a, b *lids.Table) bool {
	if a == nil || b == nil {
		return false
	}
	return a.StartIndex == b.StartIndex && fmtU32s(a.MinTIDs) == fmtU32s(b.MinTIDs) && fmtU32s(a.MaxTIDs) == fmtU32s(b.MaxTIDs) &&
		fmt.Sprint(a.IsContinued) == fmt.Sprint(b.IsContinued)
}

type noCounter struct{}

func (noCounter) AddLIDsCount(int) {}

// iterate runs the real iterator to exhaustion on table t.
func (lf *lidsFile) iterate(t *lids.Table, dir string, tid, minLID, maxLID uint32) (res string) {
	var start uint32
	ok := func() (ok bool) {
		defer func() {
			if r := recover(); r != nil {
				ok = false
			}
		}()
		if dir == "asc" {
			start = t.GetLastBlockIndexForTID(tid)
		} else {
			start = t.GetFirstBlockIndexForTID(tid)
		}
		return true
	}()
	if !ok {
		return "panic no-block"
	}
	defer func() {
		if r := recover(); r != nil {
			res = "panic " + classifyPanic(r)
		}
	}()
	loader := lids.NewLoader(&lf.reader, cache.NewCache[*lids.Chunks](nil, nil))
	cur := lids.NewLIDsCursor(t, loader, start, tid, noCounter{}, minLID, maxLID)
	var out []uint32
	next := (*lids.IteratorDesc)(cur).Next
	if dir == "asc" {
		next = (*lids.IteratorAsc)(cur).Next
	}
	for i := 0; i < 1<<22; i++ {
		lid, has := next()
		if !has {
			return "ok " + fmtU32s(out)
		}
		out = append(out, lid)
	}
	return "panic endless"
}

// ---------------------------------------------------------------- implementation answers per request line

type compImpl struct {
	dir  string
	last *lidsFile
}

func (c *compImpl) file(capS, o2nS, fieldsS string) (*lidsFile, error) {
	key := capS + " " + o2nS + " " + fieldsS
	if c.last != nil && c.last.key == key {
		return c.last, nil
	}
	c.last.close()
	c.last = nil
	capacity, _ := strconv.Atoi(capS)
	lf, err := writeLidsFile(c.dir, capacity, parseU32s(o2nS), parseFields(fieldsS), 1)
	if err != nil {
		lf.close()
		return nil, err
	}
	lf.key = key
	c.last = lf
	return lf, nil
}

// answer runs the implementation for one driver request line; ok=false when the op is not a component op.
func (c *compImpl) answer(line string) (string, bool) {
	f := strings.Fields(line)
	if len(f) == 0 {
		return "", false
	}
	switch {
	case f[0] == "varint" && len(f) == 2:
		x, err := strconv.ParseInt(f[1], 10, 64)
		if err != nil {
			return "", false
		}
		p := packer.NewBytesPacker(nil)
		p.PutVarint(x)
		return "ok " + vh.Hex(p.Data), true
	case f[0] == "unvarint" && len(f) == 2:
		b := unhex(f[1])
		u := packer.NewBytesUnpacker(b)
		v, err := u.GetVarint()
		if err != nil {
			return "err", true
		}
		if v2, n := binary.Varint(b); n <= 0 || v2 != v || len(b)-n != u.Len() {
			return fmt.Sprintf("packer-differs-from-encoding/binary %d/%d", v, v2), true
		}
		return fmt.Sprintf("ok %d %d", v, u.Len()), true
	case (f[0] == "packer.u32" || f[0] == "packer.u64" || f[0] == "packer.str") && len(f) == 2:
		p := packer.NewBytesPacker(nil)
		switch f[0] {
		case "packer.u32":
			n, _ := strconv.ParseUint(f[1], 10, 32)
			p.PutUint32(uint32(n))
		case "packer.u64":
			n, _ := strconv.ParseUint(f[1], 10, 64)
			p.PutUint64(n)
		default:
			b, _ := hex.DecodeString(strings.TrimPrefix(f[1], "x"))
			p.PutStringWithSize(string(b))
		}
		return "ok " + vh.Hex(p.Data), true
	case (f[0] == "packer.getu32" || f[0] == "packer.getbinary") && len(f) == 2:
		res := "panic"
		func() {
			defer func() { recover() }()
			u := packer.NewBytesUnpacker(unhex(f[1]))
			if f[0] == "packer.getu32" {
				v := u.GetUint32()
				res = fmt.Sprintf("ok %d %d", v, u.Len())
			} else {
				v := u.GetBinary()
				res = fmt.Sprintf("ok x%s %d", hex.EncodeToString(v), u.Len())
			}
		}()
		return res, true
	case f[0] == "chunks.pack" && len(f) == 3:
		cs := parseChunks(f[1])
		ch := lids.Chunks{Offsets: []uint32{0}, IsLastLID: f[2] == "1"}
		for _, x := range cs {
			ch.LIDs = append(ch.LIDs, x...)
			ch.Offsets = append(ch.Offsets, uint32(len(ch.LIDs)))
		}
		p := packer.NewBytesPacker(nil)
		ch.Pack(p)
		return "ok " + vh.Hex(p.Data), true
	case f[0] == "chunks.unpack" && len(f) == 2:
		ch, err := lids.VerifUnpack(unhex(f[1]))
		if err != nil {
			return "err", true
		}
		return fmt.Sprintf("ok %s %s", fmtChunks(ch.VerifChunkList()), vh.B(ch.IsLastLID)), true
	case f[0] == "docpos.pack" && len(f) == 3:
		b, _ := strconv.ParseUint(f[1], 10, 32)
		off, _ := strconv.ParseUint(f[2], 10, 64)
		return docPosImpl(uint32(b), off), true
	case f[0] == "lidsgen" && len(f) == 4:
		capacity, _ := strconv.Atoi(f[1])
		return "ok " + fmtLIDBlocks(frac.VerifLIDsBlocks(toVerifFields(parseFields(f[3])), parseU32s(f[2]), capacity)), true
	case f[0] == "lidstable" && len(f) == 4:
		lf, err := c.file(f[1], f[2], f[3])
		if err != nil {
			return "err " + err.Error(), true
		}
		conts := make([]string, len(lf.sealT.IsContinued))
		for i, b := range lf.sealT.IsContinued {
			conts[i] = vh.B(b)
		}
		return fmt.Sprintf("ok %s %s %s ext=%s loaded=%s", fmtU32s(lf.sealT.MinTIDs), fmtU32s(lf.sealT.MaxTIDs), vh.JoinStrs(conts, ","),
			vh.JoinStrs(lf.exts, ","), vh.B(tablesEqual(lf.sealT, lf.loadT))), true
	case f[0] == "lidsiter" && len(f) == 8:
		lf, err := c.file(f[2], f[6], f[7])
		if err != nil {
			return "err " + err.Error(), true
		}
		tid, _ := strconv.ParseUint(f[3], 10, 32)
		mn, _ := strconv.ParseUint(f[4], 10, 32)
		mx, _ := strconv.ParseUint(f[5], 10, 32)
		a := lf.iterate(lf.sealT, f[1], uint32(tid), uint32(mn), uint32(mx))
		if lf.loadT != nil {
			if b := lf.iterate(lf.loadT, f[1], uint32(tid), uint32(mn), uint32(mx)); b != a {
				return "loaded-table-differs " + a + " / " + b, true
			}
		}
		return a, true
	}
	return "", false
}

func docPosImpl(b uint32, off uint64) (res string) {
	defer func() {
		if r := recover(); r != nil {
			res = "panic offset"
		}
	}()
	p := seq.PackDocPos(b, off)
	b2, o2 := p.Unpack()
	return fmt.Sprintf("ok %d %d %d", uint64(p), b2, o2)
}

func unhex(s string) []byte {
	if s == "-" {
		return nil
	}
	b, _ := hex.DecodeString(s)
	return b
}

func replayComponent(line, tmp string) (string, bool) {
	c := &compImpl{dir: tmp}
	defer c.last.close()
	if a, ok := c.answer(line); ok {
		return a, true
	}
	if a, ok := idsAnswer(line, tmp); ok {
		return a, true
	}
	if a, ok := docsAnswer(line, tmp); ok {
		return a, true
	}
	return tokensAnswer(line, tmp)
}

// ---------------------------------------------------------------- generators

func runCodecChannels(o vh.Opts, rng *vh.RNG, rep *vh.Report) {
	c := &compImpl{}
	add := func(ch *vh.Channel, line string, nt bool, tags ...string) {
		impl, ok := c.answer(line)
		if !ok {
			impl = "<harness: unknown op>"
		}
		ch.Add(line, impl, nt, tags...)
	}
	// varint: boundaries of every byte length, both signs, plus random
	ch := vh.NewChannel("codec.varint", "packer.BytesPacker.PutVarint / packer.BytesUnpacker.GetVarint (cross-checked against encoding/binary) vs putVarint/getVarint: every byte length 1..10 with continuation-bit patterns and trailing bytes, all 7-bit length boundaries of both signs, int64 extremes, random int64, random and truncated byte strings (malformed stream); non-trivial = more than one byte")
	var xs []int64
	for k := 0; k < 64; k++ {
		for _, d := range []int64{-1, 0, 1} {
			v := int64(1)<<uint(k) + d
			xs = append(xs, v, -v)
		}
	}
	xs = append(xs, 0, -1<<63, 1<<63-1)
	for i := 0; i < o.Pick(300, 5000); i++ {
		xs = append(xs, int64(rng.U64())>>uint(rng.Intn(64)))
	}
	for _, x := range xs {
		add(ch, fmt.Sprintf("varint %d", x), x > 63 || x < -64, "enc")
		p := packer.NewBytesPacker(nil)
		p.PutVarint(x)
		b := append(p.Data, byte(rng.Intn(256)))
		add(ch, "unvarint "+vh.Hex(b), len(p.Data) > 1, "dec-valid")
		if len(p.Data) > 1 {
			add(ch, "unvarint "+vh.Hex(p.Data[:len(p.Data)-1]), true, "dec-truncated")
		}
	}
	// every byte length 1..10 with continuation-bit patterns in every byte (canonical and padded encodings), followed by
	// 0..4 more bytes so that in-place fast paths for short varints see enough input
	for L := 1; L <= 10; L++ {
		for _, x := range []byte{0x00, 0x01, 0x7f, 0x55, 0x2a, 0x40} {
			for _, y := range []byte{0x00, 0x01, 0x7f, 0x40, 0x3f} {
				for tail := 0; tail <= 4; tail += 2 {
					b := make([]byte, 0, 16)
					for k := 0; k < L-1; k++ {
						b = append(b, 0x80|x)
					}
					b = append(b, y)
					for k := 0; k < tail; k++ {
						b = append(b, byte(0x80+k))
					}
					add(ch, "unvarint "+vh.Hex(b), L > 1, fmt.Sprintf("dec-pattern len=%d", L))
				}
			}
		}
	}
	for i := 0; i < o.Pick(300, 5000); i++ {
		b := make([]byte, rng.Range(1, 12))
		for j := range b {
			b[j] = byte(rng.Intn(256))
			if rng.Chance(2, 3) {
				b[j] |= 0x80
			}
		}
		add(ch, "unvarint "+vh.Hex(b), true, "dec-random")
	}
	rep.AddChannel(ch, o.Driver)

	pk := vh.NewChannel("codec.packer", "packer.BytesPacker PutUint32 / PutUint64 / PutStringWithSize and BytesUnpacker GetUint32 / GetBinary vs le32 / le64 / putStr / getU32 / getBinary: boundary values of every byte, random values, strings of 0..70 bytes, decoders also on buffers with trailing bytes; a short buffer panics in Go and is not generated; non-trivial = value above one byte")
	for _, v := range []uint64{0, 1, 255, 256, 65535, 65536, 1<<24 - 1, 1 << 24, 1<<32 - 1} {
		add(pk, fmt.Sprintf("packer.u32 %d", v), v > 255, "u32")
		add(pk, fmt.Sprintf("packer.u64 %d", v<<uint(v%33)), v > 255, "u64")
	}
	add(pk, fmt.Sprintf("packer.u64 %d", ^uint64(0)), true, "u64")
	for i := 0; i < o.Pick(100, 2000); i++ {
		v := rng.U64() >> uint(rng.Intn(64))
		add(pk, fmt.Sprintf("packer.u32 %d", uint32(v)), true, "u32")
		add(pk, fmt.Sprintf("packer.u64 %d", v), true, "u64")
		str := make([]byte, rng.Intn(71))
		for j := range str {
			str[j] = byte(rng.Intn(256))
		}
		add(pk, "packer.str x"+hex.EncodeToString(str), len(str) > 0, "str")
		p := packer.NewBytesPacker(nil)
		p.PutStringWithSize(string(str))
		p.PutUint32(uint32(v))
		p.PutBytes([]byte{1, 2, 3}[:rng.Intn(4)])
		add(pk, "packer.getbinary "+vh.Hex(p.Data), true, "getbinary")
		add(pk, "packer.getu32 "+vh.Hex(p.Data[4+len(str):]), true, "getu32")
	}
	rep.AddChannel(pk, o.Driver)

	// chunks
	ch = vh.NewChannel("codec.chunks", "lids.Chunks.Pack / Chunks.unpack vs packBytes/unpackBytes: exhaustive chunk shapes (up to 3 chunks of 0..2 LIDs over {0,1,2,MaxUint32-1,MaxUint32} x IsLastLID) plus random chunk lists and random byte strings; non-trivial = at least two chunks or a malformed stream")
	universe := []uint32{0, 1, 2, 1<<32 - 2, 1<<32 - 1}
	var shapes [][]uint32
	shapes = append(shapes, nil)
	for _, a := range universe {
		shapes = append(shapes, []uint32{a})
		for _, b := range universe {
			if b > a {
				shapes = append(shapes, []uint32{a, b})
			}
		}
	}
	n := 0
	var rec func(cs [][]uint32)
	rec = func(cs [][]uint32) {
		for _, last := range []string{"0", "1"} {
			n++
			if !o.Thorough() && len(cs) == 3 && n%7 != int(o.Seed%7) {
				continue
			}
			line := fmt.Sprintf("chunks.pack %s %s", fmtChunks(cs), last)
			add(ch, line, len(cs) >= 2, fmt.Sprintf("pack chunks=%d", len(cs)))
			impl, _ := c.answer(line)
			add(ch, "chunks.unpack "+strings.TrimPrefix(impl, "ok "), len(cs) >= 2, "unpack-of-pack")
		}
		if len(cs) == 3 {
			return
		}
		for _, s := range shapes {
			rec(append(append([][]uint32{}, cs...), s))
		}
	}
	rec(nil)
	ch.Exhaustive = o.Thorough()
	for i := 0; i < o.Pick(300, 4000); i++ {
		var cs [][]uint32
		cur := uint32(0)
		for k := rng.Range(1, 5); k > 0; k-- {
			var c1 []uint32
			for m := rng.Intn(6); m > 0; m-- {
				cur += uint32(rng.Range(1, 1<<uint(rng.Range(1, 26))))
				c1 = append(c1, cur)
			}
			if rng.Chance(1, 4) {
				cur = 0 // next token restarts lower
			}
			cs = append(cs, c1)
		}
		line := fmt.Sprintf("chunks.pack %s %s", fmtChunks(cs), vh.B(rng.Bool()))
		add(ch, line, len(cs) >= 2, "pack-random")
		impl, _ := c.answer(line)
		add(ch, "chunks.unpack "+strings.TrimPrefix(impl, "ok "), len(cs) >= 2, "unpack-of-pack-random")
		b := make([]byte, rng.Range(0, 10))
		for j := range b {
			b[j] = byte(rng.Intn(256))
		}
		add(ch, "chunks.unpack "+vh.Hex(b), true, "unpack-random-bytes")
	}
	rep.AddChannel(ch, o.Driver)

	ch = vh.NewChannel("codec.docpos", "seq.PackDocPos + DocPos.Unpack vs packDocPos/unpackDocPos: boundary block indexes and offsets (incl. offset > maxDocOffset -> panic) and random; non-trivial = block index > 0")
	for _, b := range []uint32{0, 1, 2, 1 << 16, 1<<32 - 1} {
		for _, off := range []uint64{0, 1, 1<<30 - 2, 1<<30 - 1, 1 << 30, 1<<30 + 1, 1 << 40} {
			add(ch, fmt.Sprintf("docpos.pack %d %d", b, off), b > 0, "boundary")
		}
	}
	for i := 0; i < o.Pick(200, 3000); i++ {
		add(ch, fmt.Sprintf("docpos.pack %d %d", uint32(rng.U64()>>uint(rng.Range(32, 63))), rng.U64()>>uint(rng.Range(34, 63))), true, "random")
	}
	rep.AddChannel(ch, o.Driver)
}

// compositions of total into parts 1..maxPart
func compositions(total, maxPart int) [][]int {
	if total == 0 {
		return [][]int{nil}
	}
	var res [][]int
	for p := 1; p <= maxPart && p <= total; p++ {
		for _, rest := range compositions(total-p, maxPart) {
			res = append(res, append([]int{p}, rest...))
		}
	}
	return res
}

func identity(n int) []uint32 {
	r := make([]uint32, n+1)
	for i := range r {
		r[i] = uint32(i)
	}
	return r
}

func runLidsChannels(o vh.Opts, rng *vh.RNG, rep *vh.Report, tmp string) {
	dir := filepath.Join(tmp, "lids")
	os.MkdirAll(dir, 0o755)
	c := &compImpl{dir: dir}
	defer func() { c.last.close() }()
	gen := vh.NewChannel("lids.gen", "getLIDsBlockGenerator(cap) vs genBlocks: EXHAUSTIVE over token-length sequences (lengths 1..5, total <= 7), every split into <= 2 fields, cap 1..4 (thorough; quick samples 1/3), plus random corpora with a random old->new LID permutation, caps 1..9; compared block by block (MinTID, MaxTID, IsContinued, IsLastLID, chunks); non-trivial = at least one posting list continues into the next block")
	tbl := vh.NewChannel("lids.table", "lids.Table built by writeLIDsBlocks and re-loaded by Loader.loadLIDsBlocksTable from the registry of a real index file vs tableOf / lidExt / lidExtLoad; same inputs as lids.gen; non-trivial = >= 2 blocks")
	it := vh.NewChannel("lids.iter", "IteratorDesc / IteratorAsc (real Loader, cache and index file; both the sealing-time and the re-loaded table) run to exhaustion vs iterDesc / iterAsc: for every generated layout every tid in 0..maxTID+1 and every LID window over the layout's LID range (exhaustive part), random windows (random part); non-trivial = the token's postings span >= 2 blocks")

	type layout struct {
		capacity int
		o2n      []uint32
		fields   [][][]uint32 // old LIDs
		nLids    int
		spans    bool
	}
	var layouts []layout
	idx := 0
	for total := 1; total <= 7; total++ {
		for _, comp := range compositions(total, 5) {
			for split := 0; split <= len(comp); split++ {
				if split == len(comp) && split != 0 {
					continue // same as split 0 (one field)
				}
				for capacity := 1; capacity <= 4; capacity++ {
					idx++
					if !o.Thorough() && idx%3 != int(o.Seed%3) {
						continue
					}
					// token j gets LIDs: every token draws from 1..total in a way that lists are strictly increasing:
					// token j = {j+1, j+2, ...} shifted so that windows cut inside lists
					var fs [][][]uint32
					var cur [][]uint32
					for j, ln := range comp {
						if j == split && j != 0 {
							fs = append(fs, cur)
							cur = nil
						}
						post := make([]uint32, ln)
						for k := range post {
							post[k] = uint32(1 + k*2 + j%2) // 1,3,5.. or 2,4,6..
						}
						cur = append(cur, post)
					}
					fs = append(fs, cur)
					spans := false
					for _, ln := range comp {
						if ln > capacity {
							spans = true
						}
					}
					layouts = append(layouts, layout{capacity, identity(2*5 + 2), fs, 2*5 + 1, spans || capacity < total})
				}
			}
		}
	}
	nExh := len(layouts)
	for i := 0; i < o.Pick(120, 1500); i++ {
		n := rng.Range(3, 40)
		perm := rng.Perm(n) // new lid (1-based) of old lid i+1
		o2n := make([]uint32, n+1)
		n2o := make([]uint32, n+1)
		for old, nw := range perm {
			o2n[old+1] = uint32(nw + 1)
			n2o[nw+1] = uint32(old + 1)
		}
		var fs [][][]uint32
		for f := rng.Range(1, 3); f > 0; f-- {
			var toks [][]uint32
			for t := rng.Range(1, 5); t > 0; t-- {
				var post []uint32
				p := rng.Range(1, 3)
				for nw := 1; nw <= n; nw++ {
					if rng.Chance(p, 3) {
						post = append(post, n2o[nw])
					}
				}
				if len(post) == 0 {
					post = []uint32{n2o[rng.Range(1, n)]}
				}
				toks = append(toks, post)
			}
			fs = append(fs, toks)
		}
		layouts = append(layouts, layout{rng.Range(1, 9), o2n, fs, n, true})
	}

	for li, l := range layouts {
		o2nS, fS := fmtU32s(l.o2n), fmtFields(l.fields)
		line := fmt.Sprintf("lidsgen %d %s %s", l.capacity, o2nS, fS)
		impl, _ := c.answer(line)
		cont := strings.Contains(impl, ":1:0:") || strings.Contains(impl, ":1:1:")
		kind := "exhaustive"
		if li >= nExh {
			kind = "random"
		}
		gen.Add(line, impl, cont, kind, fmt.Sprintf("cap=%d", l.capacity))
		line = fmt.Sprintf("lidstable %d %s %s", l.capacity, o2nS, fS)
		impl, _ = c.answer(line)
		nblocks := 0
		if c.last != nil {
			nblocks = len(c.last.blocks)
		}
		tbl.Add(line, impl, nblocks >= 2, kind, fmt.Sprintf("blocks=%d", min(nblocks, 6)))
		ntid := 0
		for _, f := range l.fields {
			ntid += len(f)
		}
		for tid := 0; tid <= ntid+1; tid++ {
			spans := false
			if c.last != nil {
				cnt := 0
				for bi := range c.last.blocks {
					adj := c.last.sealT.GetAdjustedMinTID(uint32(bi))
					if adj <= uint32(tid) && uint32(tid) <= c.last.sealT.MaxTIDs[bi] {
						cnt++
					}
				}
				spans = cnt >= 2
			}
			type win struct{ a, b int }
			var wins []win
			if li < nExh {
				for a := 0; a <= l.nLids+1; a++ {
					for b := a; b <= l.nLids+1; b++ {
						if o.Thorough() || (a*31+b*7+tid+li)%5 == 0 || (a == 0 && b == l.nLids+1) {
							wins = append(wins, win{a, b})
						}
					}
				}
				wins = append(wins, win{3, 2})
			} else {
				wins = append(wins, win{0, l.nLids + 1})
				for k := 0; k < 4; k++ {
					a := rng.Range(0, l.nLids+1)
					wins = append(wins, win{a, rng.Range(a, l.nLids+1)})
				}
			}
			for _, w := range wins {
				for _, d := range []string{"desc", "asc"} {
					line = fmt.Sprintf("lidsiter %s %d %d %d %d %s %s", d, l.capacity, tid, w.a, w.b, o2nS, fS)
					impl, _ = c.answer(line)
					tag := "valid-tid"
					if tid == 0 || tid > ntid {
						tag = "invalid-tid"
					}
					it.Add(line, impl, spans, kind, d, tag)
				}
			}
		}
	}
	gen.Exhaustive, tbl.Exhaustive, it.Exhaustive = o.Thorough(), o.Thorough(), o.Thorough()
	rep.AddChannel(gen, o.Driver)
	rep.AddChannel(tbl, o.Driver)
	rep.AddChannel(it, o.Driver)
}
