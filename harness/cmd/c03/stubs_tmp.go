package main

import "verifharness/internal/vh"

func runIDsChannels(o vh.Opts, rng *vh.RNG, rep *vh.Report, tmp string)        {}
func runTokenChannels(o vh.Opts, rng *vh.RNG, rep *vh.Report, tmp string)      {}
func idsAnswer(line, tmp string) (string, bool)                                 { return "", false }
func tokensAnswer(line, tmp string) (string, bool)                              { return "", false }
