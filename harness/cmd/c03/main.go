// C03 harness: answers do not depend on the fraction form (active = sealed = reloaded = any cache).
//
// Component channels (implementation vs Lean model through drv_c03): varint / delta / chunk codecs, DocPos,
// the LID block generator with small block capacities, lids.Table (built while sealing and re-loaded from the
// registry), IteratorDesc/IteratorAsc over real index files, ID blocks + LessOrEqual, token blocks + token table.
// System oracle (oracle.go): one corpus served as active, sealed-preloaded and sealed-loaded-from-files with
// different cache sizes must give identical answers to search / histogram / aggregation / fetch.
package main

import (
	"fmt"
	"os"
	"strings"

	"go.uber.org/zap"

	"github.com/ozontech/seq-db/logger"

	"verifharness/internal/vh"
)

func main() {
	if oracleChildMain() {
		return
	}
	o := vh.ParseFlags()
	logger.SetLevel(zap.FatalLevel)
	rep := vh.NewReport("C03", o)
	rng := vh.NewRNG(o.Seed)

	tmp, err := os.MkdirTemp("", "vh-c03-")
	if err != nil {
		fmt.Fprintln(os.Stderr, err)
		os.Exit(3)
	}
	defer os.RemoveAll(tmp)

	if o.Replay != "" {
		lines, err := vh.ReadReplay(o.Replay)
		if err != nil {
			fmt.Fprintln(os.Stderr, err)
			os.Exit(3)
		}
		var sys []string
		ch := vh.NewChannel("replay", "driver request lines of the replay file, re-run against the implementation")
		for _, l := range lines {
			if strings.HasPrefix(l, "sys ") {
				sys = append(sys, l)
			} else if impl, ok := replayComponent(l, tmp); ok {
				ch.Add(l, impl, true, "replayed")
			}
		}
		rep.AddChannel(ch, o.Driver)
		replaySystemOracle(sys, o, rep, tmp)
		rep.Write(o.Out)
		return
	}

	want := func(name string) bool { return o.Only == "" || o.Only == name }
	if want("codec") {
		runCodecChannels(o, rng.Fork(), rep)
	}
	if want("lids") {
		runLidsChannels(o, rng.Fork(), rep, tmp)
	}
	if want("ids") {
		runIDsChannels(o, rng.Fork(), rep, tmp)
	}
	if want("tokens") {
		runTokenChannels(o, rng.Fork(), rep, tmp)
	}
	if want("docs") {
		runDocsChannels(o, rng.Fork(), rep, tmp)
	}
	if want("sys") {
		runSystemOracle(o, rng.Fork(), rep, tmp)
	}
	rep.Write(o.Out)
}
