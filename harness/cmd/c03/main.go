// C03 harness: answers do not depend on the fraction form (active = sealed = reloaded = any cache).
//
// Component channels (implementation vs Lean model through drv_c03): varint / delta / chunk codecs, DocPos,
// the LID block generator with small block capacities, lids.Table (built while sealing and re-loaded from the
// registry), IteratorDesc/IteratorAsc over real index files, ID blocks + LessOrEqual, token blocks + token table.
// System oracle (oracle.go): one corpus served as active, sealed-preloaded and sealed-loaded-from-files with
// different cache sizes must give identical answers to search / histogram / aggregation / fetch.
package main

import (
	"fmt"
	"os"
	"strings"

	"go.uber.org/zap"

	"github.com/ozontech/seq-db/logger"

	"verifharness/internal/vh"
)

func main() {
	if oracleChildMain() {
		return
	}
	o := vh.ParseFlags()
	logger.SetLevel(zap.FatalLevel)
	rep := vh.NewReport("C03", o)
	rng := vh.NewRNG(o.Seed)

	tmp, err := os.MkdirTemp("", "vh-c03-")
	if err != nil {
		fmt.Fprintln(os.Stderr, err)
		os.Exit(3)
	}
	defer os.RemoveAll(tmp)

	if o.Replay != "" {
		lines, err := vh.ReadReplay(o.Replay)
		if err != nil {
			fmt.Fprintln(os.Stderr, err)
			os.Exit(3)
		}
		var sys []string
		ch := vh.NewChannel("replay", "driver request lines of the replay file, re-run against the implementation")
		for _, l := range lines {
			if strings.HasPrefix(l, "sys ") {
				sys = append(sys, l)
			} else if impl, ok := replayComponent(l, tmp); ok {
				ch.Add(l, impl, true, "replayed")
			}
		}
		rep.AddChannel(ch, o.Driver)
		replaySystemOracle(sys, o, rep, tmp)
		rep.Write(o.Out)
		return
	}

	want := func(name string) bool { return o.Only == "" || o.Only == name }
	// a panic inside a channel generator (the code under test crashing the harness) is an observation of that channel
	safely := func(name string, fn func()) {
		defer func() {
			if r := recover(); r != nil {
				ch := vh.NewChannel(name+".harness-crash", "the implementation panicked inside the harness while the "+name+" cases were generated")
				ch.Error = fmt.Sprint("panic: ", r)
				rep.Channels = append(rep.Channels, ch)
			}
		}()
		fn()
	}
	if want("codec") {
		r := rng.Fork()
		safely("codec", func() { runCodecChannels(o, r, rep) })
	}
	if want("lids") {
		r := rng.Fork()
		safely("lids", func() { runLidsChannels(o, r, rep, tmp) })
	}
	if want("ids") {
		r := rng.Fork()
		safely("ids", func() { runIDsChannels(o, r, rep, tmp) })
	}
	if want("tokens") {
		r := rng.Fork()
		safely("tokens", func() { runTokenChannels(o, r, rep, tmp) })
	}
	if want("docs") {
		r := rng.Fork()
		safely("docs", func() { runDocsChannels(o, r, rep, tmp) })
	}
	if want("sys") {
		r := rng.Fork()
		safely("sys", func() { runSystemOracle(o, r, rep, tmp) })
	}
	rep.Write(o.Out)
}
