package main

import (
	"fmt"
	"os"
	"path/filepath"
	"strconv"
	"strings"

	"github.com/ozontech/seq-db/cache"
	"github.com/ozontech/seq-db/disk"
	"github.com/ozontech/seq-db/frac"
	"github.com/ozontech/seq-db/frac/processor"
	"github.com/ozontech/seq-db/metric/stopwatch"
	"github.com/ozontech/seq-db/seq"

	"verifharness/internal/vh"
)

type docsFile struct {
	f       *os.File
	offsets []uint64
	size    int64
	pos     map[seq.ID]seq.DocPos
	reader  disk.DocsReader
}

func (d *docsFile) close() {
	if d != nil && d.f != nil {
		n := d.f.Name()
		d.f.Close()
		os.Remove(n)
	}
}

func writeDocsFile(dir string, ids []seq.ID, docs [][]byte, minBS int) (*docsFile, error) {
	f, err := os.CreateTemp(dir, "docs-*.sdocs")
	if err != nil {
		return nil, err
	}
	d := &docsFile{f: f}
	d.offsets, d.pos, err = frac.VerifDocBlocksWriter(f, ids, docs, minBS, 1)
	if err != nil {
		return d, err
	}
	st, _ := f.Stat()
	d.size = st.Size()
	d.reader = disk.NewDocsReader(readLimiter, f, cache.NewCache[[]byte](nil, nil))
	return d, nil
}

func (d *docsFile) lens() []uint64 {
	var l []uint64
	for i, o := range d.offsets {
		end := uint64(d.size)
		if i+1 < len(d.offsets) {
			end = d.offsets[i+1]
		}
		l = append(l, end-o)
	}
	return l
}

func uniqIDs(ids []seq.ID) []seq.ID {
	seen := map[seq.ID]bool{}
	var u []seq.ID
	for _, id := range ids {
		if !seen[id] {
			seen[id] = true
			u = append(u, id)
		}
	}
	return u
}

func docsWriteImpl(dir string, minBS int, ids []seq.ID, docs [][]byte) (impl string, lens []uint64) {
	defer func() {
		if r := recover(); r != nil {
			impl = "panic"
		}
	}()
	d, err := writeDocsFile(dir, ids, docs, minBS)
	defer d.close()
	if err != nil {
		return "err " + err.Error(), nil
	}
	var ps, rd []string
	for _, id := range uniqIDs(ids) {
		p := d.pos[id]
		ps = append(ps, fmt.Sprintf("%d:%d=%d", uint64(id.MID), uint64(id.RID), uint64(p)))
		bi, off := p.Unpack()
		got, err := d.reader.ReadDocs(d.offsets[bi], []uint64{off})
		if err != nil || len(got) != 1 {
			rd = append(rd, "nil")
		} else {
			rd = append(rd, xh(got[0]))
		}
	}
	return fmt.Sprintf("ok offsets=%s positions=%s read=%s", vh.JoinInts(d.offsets), vh.JoinStrs(ps, ","), vh.JoinStrs(rd, ",")), d.lens()
}

type fakeFetchIndex struct {
	offsets []uint64
	pos     []seq.DocPos
	reader  *disk.DocsReader
}

func (f *fakeFetchIndex) GetBlocksOffsets(n uint32) uint64 { return f.offsets[n] }
func (f *fakeFetchIndex) GetDocPos([]seq.ID) []seq.DocPos  { return f.pos }
func (f *fakeFetchIndex) ReadDocs(bo uint64, offs []uint64) ([][]byte, error) {
	return f.reader.ReadDocs(bo, offs)
}

func docsAnswer(line, tmp string) (string, bool) {
	f := strings.Fields(line)
	switch {
	case len(f) == 5 && f[0] == "docs.write":
		minBS, _ := strconv.Atoi(f[1])
		var docs [][]byte
		if f[4] != "-" {
			for _, t := range strings.Split(f[4], ",") {
				docs = append(docs, unx(t))
			}
		}
		impl, _ := docsWriteImpl(tmp, minBS, parseIDs(f[3]), docs)
		return impl, true
	case len(f) == 2 && f[0] == "docs.group":
		var ps []seq.DocPos
		for _, p := range parseU64s(f[1]) {
			ps = append(ps, seq.DocPos(p))
		}
		blocks, offsets, index := seq.GroupDocsOffsets(ps)
		var gs []string
		for b := range blocks {
			var xs []string
			for k := range offsets[b] {
				xs = append(xs, fmt.Sprintf("%d@%d", index[b][k], offsets[b][k]))
			}
			gs = append(gs, fmt.Sprintf("%d:%s", blocks[b], vh.JoinStrs(xs, ",")))
		}
		return "ok " + vh.JoinStrs(gs, "|"), true
	}
	return "", false
}

func runDocsChannels(o vh.Opts, rng *vh.RNG, rep *vh.Report, tmp string) {
	dir := filepath.Join(tmp, "docs")
	os.MkdirAll(dir, 0o755)
	wr := vh.NewChannel("docs.rewrite", "the sealer's docBlocksWriter (WriteDoc per document, Flush; real zstd doc blocks in a file, read back with disk.DocsReader) vs writeDoc / flushDW / readAt with the real block lengths as the clen oracle: BlockOffsets, the position of every id (PackDocPos) and the bytes read back at that position; EXHAUSTIVE over 0..4 documents of sizes {0,1,7,20} x minBlockSize {0,8,11,30} (incl. repeated ids), plus random batches; non-trivial = >= 2 doc blocks")
	sizes := []int{0, 1, 7, 20}
	mkDoc := func(seed, n int) []byte {
		b := make([]byte, n)
		for i := range b {
			b[i] = byte('a' + (seed*7+i)%26)
		}
		return b
	}
	add := func(minBS int, ids []seq.ID, docs [][]byte, tag string) {
		impl, lens := docsWriteImpl(dir, minBS, ids, docs)
		hx := make([]string, len(docs))
		for i, d := range docs {
			hx[i] = xh(d)
		}
		line := fmt.Sprintf("docs.write %d %s %s %s", minBS, vh.JoinInts(lens), fmtIDs(ids), vh.JoinStrs(hx, ","))
		wr.Add(line, impl, len(lens) >= 2, tag, fmt.Sprintf("blocks=%d", min(len(lens), 5)))
	}
	var rec func(ids []seq.ID, docs [][]byte)
	cnt := 0
	rec = func(ids []seq.ID, docs [][]byte) {
		for _, bs := range []int{0, 8, 11, 30} {
			cnt++
			if o.Thorough() || cnt%3 == int(o.Seed%3) {
				add(bs, ids, docs, "exhaustive")
			}
		}
		if len(ids) == 4 {
			return
		}
		for si, s := range sizes {
			id := seq.ID{MID: seq.MID(100 - len(ids)), RID: seq.RID(si + 1)}
			if si == 3 && len(ids) > 0 {
				id = ids[len(ids)-1] // repeated id: the later write wins
			}
			rec(append(append([]seq.ID{}, ids...), id), append(append([][]byte{}, docs...), mkDoc(len(ids)*5+si, s)))
		}
	}
	rec(nil, nil)
	wr.Exhaustive = o.Thorough()
	for i := 0; i < o.Pick(40, 400); i++ {
		n := rng.Range(1, 40)
		var ids []seq.ID
		var docs [][]byte
		for k := 0; k < n; k++ {
			ids = append(ids, seq.ID{MID: seq.MID(5000 - k/2), RID: seq.RID(rng.Intn(4))})
			docs = append(docs, mkDoc(int(rng.U64()%100), rng.Range(0, 300)))
		}
		add([]int{0, 64, 500, 5000}[rng.Intn(4)], ids, docs, "random")
	}
	rep.AddChannel(wr, o.Driver)

	gr := vh.NewChannel("docs.group", "seq.GroupDocsOffsets vs groupDocsOffsets: position lists over few blocks with DocPosNotFound entries, repeated positions, blocks first seen in any order; EXHAUSTIVE over lists of length <= 4 over 5 positions (2 blocks) + not-found, plus random; non-trivial = >= 2 groups")
	univ := []uint64{uint64(seq.PackDocPos(0, 0)), uint64(seq.PackDocPos(0, 9)), uint64(seq.PackDocPos(1, 0)), uint64(seq.PackDocPos(1, 4)), uint64(seq.PackDocPos(7, 1)), ^uint64(0)}
	var recg func(ps []uint64)
	recg = func(ps []uint64) {
		line := "docs.group " + vh.JoinInts(ps)
		impl, _ := docsAnswer(line, dir)
		gr.Add(line, impl, strings.Contains(impl, "|"), "exhaustive")
		if len(ps) == 4 {
			return
		}
		for _, u := range univ {
			recg(append(append([]uint64{}, ps...), u))
		}
	}
	recg(nil)
	gr.Exhaustive = true
	for i := 0; i < o.Pick(100, 1500); i++ {
		var ps []uint64
		for k := rng.Range(0, 30); k > 0; k-- {
			if rng.Chance(1, 6) {
				ps = append(ps, ^uint64(0))
			} else {
				ps = append(ps, uint64(seq.PackDocPos(uint32(rng.Intn(6)), uint64(rng.Intn(50)))))
			}
		}
		line := "docs.group " + vh.JoinInts(ps)
		impl, _ := docsAnswer(line, dir)
		gr.Add(line, impl, strings.Contains(impl, "|"), "random")
	}
	rep.AddChannel(gr, o.Driver)

	ft := vh.NewChannel("docs.fetch", "processor.IndexFetch over a real docs file (GetBlocksOffsets from the writer's BlockOffsets, ReadDocs = disk.DocsReader) vs indexFetch: request lists mixing stored positions of several blocks (incl. one tiny document per block: blocks shorter than 64 bytes), repetitions and DocPosNotFound, each request issued twice on one reader (cold, then warm doc-block cache); non-trivial = documents of >= 2 blocks requested")
	for i := 0; i < o.Pick(40, 400); i++ {
		n := rng.Range(2, 25)
		var ids []seq.ID
		var docs [][]byte
		for k := 0; k < n; k++ {
			ids = append(ids, seq.ID{MID: seq.MID(9000 - k), RID: 1})
			if i%2 == 1 {
				docs = append(docs, mkDoc(k+i, rng.Range(0, 12))) // tiny blocks (one per document): several per 64 bytes of file
			} else {
				docs = append(docs, mkDoc(k+i, rng.Range(0, 40)))
			}
		}
		d, err := writeDocsFile(dir, ids, docs, []int{0, 1, 100, 1}[i%4])
		if err != nil {
			d.close()
			continue
		}
		var ps []seq.DocPos
		blocksSeen := map[uint32]bool{}
		for k := rng.Range(1, 20); k > 0; k-- {
			if rng.Chance(1, 5) {
				ps = append(ps, seq.DocPosNotFound)
				continue
			}
			p := d.pos[ids[rng.Intn(n)]]
			b, _ := p.Unpack()
			blocksSeen[b] = true
			ps = append(ps, p)
		}
		res := make([][]byte, len(ps))
		impl := "err"
		func() {
			defer func() {
				if r := recover(); r != nil {
					impl = "panic"
				}
			}()
			if err := processor.IndexFetch(make([]seq.ID, len(ps)), stopwatch.New(), &fakeFetchIndex{d.offsets, ps, &d.reader}, res); err == nil {
				out := make([]string, len(res))
				for k, r := range res {
					if r == nil {
						out[k] = "nil"
					} else {
						out[k] = xh(r)
					}
				}
				impl = "ok " + vh.JoinStrs(out, ",")
				// the same request again on the same reader (warm doc-block cache) must give the same documents
				res2 := make([][]byte, len(ps))
				if err := processor.IndexFetch(make([]seq.ID, len(ps)), stopwatch.New(), &fakeFetchIndex{d.offsets, ps, &d.reader}, res2); err != nil {
					impl = "warm-read-error"
				}
				for k := range res {
					if string(res[k]) != string(res2[k]) || (res[k] == nil) != (res2[k] == nil) {
						impl = "warm-read-differs"
					}
				}
			}
		}()
		// the file as the model sees it: offset = payload of the block
		br := disk.NewDocBlocksReader(readLimiter, d.f)
		var fl []string
		for _, off := range d.offsets {
			payload, _, err := br.ReadDocBlockPayload(int64(off))
			if err != nil {
				impl = "err " + err.Error()
			}
			fl = append(fl, fmt.Sprintf("%d=%s", off, xh(payload)))
		}
		pss := make([]uint64, len(ps))
		for k, p := range ps {
			pss[k] = uint64(p)
		}
		line := fmt.Sprintf("docs.fetch %s %s %s", vh.JoinInts(d.offsets), vh.JoinStrs(fl, ";"), vh.JoinInts(pss))
		ft.Add(line, impl, len(blocksSeen) >= 2, fmt.Sprintf("blocks=%d", min(len(d.offsets), 5)))
		d.close()
	}
	rep.AddChannel(ft, o.Driver)
}
