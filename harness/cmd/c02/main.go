// C02 harness: search returns exactly the matching documents, ordered, limited and counted.
//
// Correspondence channels (implementation vs Lean model through the driver drv_c02):
//
//	node.merge    node.NewAnd/NewOr/NewNAnd/NewNot/NewRange over NewStatic, both directions, exhaustive over all
//	              sorted sublists of {1..6} plus seeded random lists                         vs andMerge/orMerge/...
//	node.ortree   node.BuildORTree                                                           vs EvalTree.treeFold
//	borders       processor.getLIDsBorders over a fake idsIndex                              vs Borders.getLIDsBorders
//	evaltree      processor.buildEvalTree with static leaves, random ASTs                    vs EvalTree.evalTree
//	indexsearch   processor.IndexSearch over a fake searchIndex (real pattern.Search)        vs EvalTree.search
//	active.merge  frac.mergeSorted                                                           vs ActiveIndex.mergeSorted
//	active.inverse frac.inverseLIDs over a real inverser                                     vs ActiveIndex.inverseLIDs
//	active.search real frac.Active (arrival tables read back) -> DataProvider.Search         vs ActiveIndex.search
//
// System oracle: real active fraction, the sealed fraction made from it by frac.Seal (preloaded) and the same
// fraction re-opened from disk, each asked through DataProvider.Search; the answer must equal Spec.search
// (computed by the driver) over the generated documents.
package main

import (
	"context"
	"encoding/binary"
	"fmt"
	"os"
	"path/filepath"
	"runtime/debug"
	"sort"
	"strconv"
	"strings"
	"sync"
	"sync/atomic"
	"time"

	"go.uber.org/zap"

	"github.com/ozontech/seq-db/cache"
	"github.com/ozontech/seq-db/consts"
	"github.com/ozontech/seq-db/disk"
	"github.com/ozontech/seq-db/frac"
	"github.com/ozontech/seq-db/frac/lids"
	"github.com/ozontech/seq-db/frac/processor"
	"github.com/ozontech/seq-db/fracmanager"
	"github.com/ozontech/seq-db/logger"
	"github.com/ozontech/seq-db/metric/stopwatch"
	"github.com/ozontech/seq-db/node"
	"github.com/ozontech/seq-db/pkg/storeapi"
	"github.com/ozontech/seq-db/parser"
	"github.com/ozontech/seq-db/pattern"
	proxysearch "github.com/ozontech/seq-db/proxy/search"
	"github.com/ozontech/seq-db/seq"
	"github.com/ozontech/seq-db/util"

	"verifharness/internal/vh"
)

// ---------------------------------------------------------------- small helpers

func hx(s string) string { return vh.Hex([]byte(s)) }

func dir(rev bool) string {
	if rev {
		return "desc"
	}
	return "asc"
}

// ord is the keyword of the search commands: seq.DocsOrderAsc is "asc".
func ord(o seq.DocsOrder) string {
	if o == seq.DocsOrderAsc {
		return "asc"
	}
	return "desc"
}

func drain(n node.Node, cap int) ([]uint32, bool) {
	var res []uint32
	for i := 0; i <= cap; i++ {
		v, ok := n.Next()
		if !ok {
			return res, true
		}
		res = append(res, v)
	}
	return res, false // did not terminate within cap
}

func okLids(l []uint32, done bool) string {
	if !done {
		return "err no-termination"
	}
	return "ok " + vh.JoinInts(l)
}

func reversed(l []uint32) []uint32 {
	r := make([]uint32, len(l))
	for i, v := range l {
		r[len(l)-1-i] = v
	}
	return r
}

// iter gives the list in iteration order for the driver (static nodes take ascending data in both directions).
func iter(l []uint32, rev bool) string {
	if rev {
		return vh.JoinInts(reversed(l))
	}
	return vh.JoinInts(l)
}

func fmtIDs(ids []seq.ID) string {
	if len(ids) == 0 {
		return "-"
	}
	var sb strings.Builder
	for i, id := range ids {
		if i > 0 {
			sb.WriteByte(',')
		}
		fmt.Fprintf(&sb, "%d:%d", uint64(id.MID), uint64(id.RID))
	}
	return sb.String()
}

func qprAnswer(q *seq.QPR, err error) string {
	if err != nil {
		return "err search"
	}
	ids := make([]seq.ID, len(q.IDs))
	for i, s := range q.IDs {
		ids[i] = s.ID
	}
	return fmt.Sprintf("ok %s %d", fmtIDs(ids), q.Total)
}

// safely runs an implementation call; a panic becomes the observation "panic".
func safely(f func() string) (res string) {
	defer func() {
		if r := recover(); r != nil {
			res = "panic"
		}
	}()
	return f()
}

// hangs counts implementation calls that did not return in time.  Such a call keeps running in its goroutine (it may
// hold the fraction's read lock), so after a few of them the generators stop producing further cases.
var hangs int32

func tooManyHangs() bool { return atomic.LoadInt32(&hangs) >= 3 }

// newStage gives the next channel / oracle its own budget of hanging calls
func newStage() { atomic.StoreInt32(&hangs, 0) }

// within runs an implementation call with a time limit; "hang" is the observation when it does not come back.
func within(d time.Duration, f func() string) string {
	ch := make(chan string, 1)
	go func() { ch <- safely(f) }()
	select {
	case r := <-ch:
		return r
	case <-time.After(d):
		atomic.AddInt32(&hangs, 1)
		return "hang"
	}
}

// ---------------------------------------------------------------- queries

func lit(field string, terms ...string) *parser.ASTNode { // term "*" = wildcard
	l := &parser.Literal{Field: field}
	for _, t := range terms {
		if t == "*" {
			l.Terms = append(l.Terms, parser.Term{Kind: parser.TermSymbol, Data: "*"})
		} else {
			l.Terms = append(l.Terms, parser.Term{Kind: parser.TermText, Data: t})
		}
	}
	return &parser.ASTNode{Value: l}
}

func rng(field string, from, to *string, incFrom, incTo bool) *parser.ASTNode {
	b := func(s *string) parser.Term {
		if s == nil {
			return parser.Term{Kind: parser.TermSymbol, Data: "*"}
		}
		return parser.Term{Kind: parser.TermText, Data: *s}
	}
	return &parser.ASTNode{Value: &parser.Range{Field: field, From: b(from), To: b(to), IncludeFrom: incFrom, IncludeTo: incTo}}
}

func logical(op int, kids ...*parser.ASTNode) *parser.ASTNode {
	l := &parser.Logical{}
	switch op {
	case 0:
		l.Operator = parser.LogicalAnd
	case 1:
		l.Operator = parser.LogicalOr
	case 2:
		l.Operator = parser.LogicalNAnd
	default:
		l.Operator = parser.LogicalNot
	}
	return &parser.ASTNode{Value: l, Children: kids}
}

func encBound(t parser.Term) string {
	if t.Kind == parser.TermSymbol {
		return "*"
	}
	return hx(t.Data)
}

// encAST renders the AST in the driver's prefix form.
func encAST(n *parser.ASTNode) string {
	switch t := n.Value.(type) {
	case *parser.Literal:
		var ts []string
		for _, term := range t.Terms {
			if term.Kind == parser.TermSymbol {
				ts = append(ts, "S")
			} else {
				ts = append(ts, "T"+hx(term.Data))
			}
		}
		return "L:" + hx(t.Field) + ":" + vh.JoinStrs(ts, ".")
	case *parser.Range:
		return fmt.Sprintf("R:%s:%s:%s:%s:%s", hx(t.Field), encBound(t.From), vh.B(t.IncludeFrom), encBound(t.To), vh.B(t.IncludeTo))
	case *parser.Logical:
		switch t.Operator {
		case parser.LogicalAnd:
			return "A/" + encAST(n.Children[0]) + "/" + encAST(n.Children[1])
		case parser.LogicalOr:
			return "O/" + encAST(n.Children[0]) + "/" + encAST(n.Children[1])
		case parser.LogicalNAnd:
			return "D/" + encAST(n.Children[0]) + "/" + encAST(n.Children[1])
		case parser.LogicalNot:
			return "N/" + encAST(n.Children[0])
		}
	}
	panic("encAST: unknown node")
}

func unhx(s string) (string, error) {
	if s == "-" {
		return "", nil
	}
	b := make([]byte, len(s)/2)
	for i := range b {
		v, err := strconv.ParseUint(s[2*i:2*i+2], 16, 8)
		if err != nil {
			return "", err
		}
		b[i] = byte(v)
	}
	return string(b), nil
}

// decAST parses the prefix form back (replay).
func decAST(toks []string) (*parser.ASTNode, []string, error) {
	if len(toks) == 0 {
		return nil, nil, fmt.Errorf("short query")
	}
	t, rest := toks[0], toks[1:]
	switch t {
	case "A", "O", "D":
		a, r1, err := decAST(rest)
		if err != nil {
			return nil, nil, err
		}
		b, r2, err := decAST(r1)
		if err != nil {
			return nil, nil, err
		}
		return logical(map[string]int{"A": 0, "O": 1, "D": 2}[t], a, b), r2, nil
	case "N":
		a, r1, err := decAST(rest)
		if err != nil {
			return nil, nil, err
		}
		return logical(3, a), r1, nil
	}
	p := strings.Split(t, ":")
	switch {
	case p[0] == "L" && len(p) == 3:
		f, err := unhx(p[1])
		if err != nil {
			return nil, nil, err
		}
		var terms []string
		if p[2] != "-" {
			for _, x := range strings.Split(p[2], ".") {
				if x == "S" {
					terms = append(terms, "*")
				} else {
					s, err := unhx(x[1:])
					if err != nil {
						return nil, nil, err
					}
					terms = append(terms, s)
				}
			}
		}
		return lit(f, terms...), rest, nil
	case p[0] == "R" && len(p) == 6:
		f, err := unhx(p[1])
		if err != nil {
			return nil, nil, err
		}
		bound := func(s string) *string {
			if s == "*" {
				return nil
			}
			v, _ := unhx(s)
			return &v
		}
		return rng(f, bound(p[2]), bound(p[4]), p[3] == "1", p[5] == "1"), rest, nil
	}
	return nil, nil, fmt.Errorf("bad query token %q", t)
}

// ---------------------------------------------------------------- generators

type gen struct{ r *vh.RNG }

var textVocab = []string{"", "a", "b", "c", "ab", "ba", "abc", "aba", "cab", "bb", "abab", "c-a"}
var numVocab = []string{"0", "1", "2", "7", "10", "12", "-3", "-10", "007", "x1", "1x", "-", "100"}

// long keyword values with long common prefixes (request ids "<dc>-<service>-<date>-<counter>"): 40..81 bytes, so that
// the token-table block borders (min / max token of a block) are longer than any fixed-size cut of them
const long40 = "dc01-checkout-service-2025-09-25-req-000"

var longVocab = []string{long40, long40 + "a", long40 + "b", long40 + "ab", long40 + long40 + "a", long40 + long40 + "b",
	(long40 + long40)[:72] + "x", (long40 + long40)[:72] + "y"}

func (g gen) pick(v []string) string { return v[g.r.Intn(len(v))] }

// leaf over the fields a, b (text), n (numbers and near-numbers), _all_
func (g gen) leaf() *parser.ASTNode {
	r := g.r
	switch r.Intn(11) {
	case 10: // long tokens: exact, prefix inside / at / beyond the common prefix
		switch r.Intn(4) {
		case 0:
			return lit("t", g.pick(longVocab))
		case 1:
			return lit("t", long40, "*")
		case 2:
			return lit("t", long40+"a", "*")
		default:
			return lit("t", (long40 + long40)[:72], "*")
		}
	case 0:
		return lit("_all_", "*")
	case 1, 2: // exact
		f := []string{"a", "b", "n"}[r.Intn(3)]
		if f == "n" {
			return lit(f, g.pick(numVocab))
		}
		return lit(f, g.pick(textVocab))
	case 3: // prefix
		return lit([]string{"a", "b"}[r.Intn(2)], g.pick(textVocab[1:]), "*")
	case 4: // suffix
		return lit([]string{"a", "b"}[r.Intn(2)], "*", g.pick(textVocab[1:]))
	case 5: // infix / prefix+suffix / several fragments
		switch r.Intn(3) {
		case 0:
			return lit("a", "*", g.pick(textVocab[1:5]), "*")
		case 1:
			return lit("a", g.pick(textVocab[1:4]), "*", g.pick(textVocab[1:4]))
		default:
			return lit("a", "*", g.pick(textVocab[1:4]), "*", g.pick(textVocab[1:4]), "*")
		}
	case 6: // any value of a field
		return lit([]string{"a", "b", "n"}[r.Intn(3)], "*")
	case 7: // text range
		var from, to *string
		if r.Chance(3, 4) {
			s := g.pick(textVocab)
			from = &s
		}
		if r.Chance(3, 4) {
			s := g.pick(textVocab)
			to = &s
		}
		if from == nil && to == nil { // both open would be a numeric range
			s := g.pick(textVocab)
			from = &s
		}
		return rng([]string{"a", "b"}[r.Intn(2)], from, to, r.Bool(), r.Bool())
	default: // numeric range (a non-numeric bound turns it into a text range)
		var from, to *string
		if r.Chance(3, 4) {
			s := g.pick(numVocab)
			from = &s
		}
		if r.Chance(3, 4) {
			s := g.pick(numVocab)
			to = &s
		}
		return rng("n", from, to, r.Bool(), r.Bool())
	}
}

func (g gen) ast(depth int, leaf func() *parser.ASTNode) *parser.ASTNode {
	if depth == 0 || g.r.Chance(1, 4) {
		return leaf()
	}
	switch op := g.r.Intn(5); op {
	case 0, 1, 2:
		return logical(op, g.ast(depth-1, leaf), g.ast(depth-1, leaf))
	default:
		return logical(3, g.ast(depth-1, leaf))
	}
}

// sorted sublist of [lo..hi] with the given density (percent)
func (g gen) sublist(lo, hi uint32, pct int) []uint32 {
	var l []uint32
	for v := lo; v <= hi && v >= lo; v++ {
		if g.r.Chance(pct, 100) {
			l = append(l, v)
		}
	}
	return l
}

// ---------------------------------------------------------------- channel: node package

func nodeCase(ch *vh.Channel, op string, rev bool, xs, ys []uint32, lo, hi uint32, tags ...string) {
	cap := len(xs) + len(ys) + 8 // more values than any correct node can yield
	if hi >= lo {
		cap += int(hi-lo) + 1
	}
	var n node.Node
	var req string
	switch op {
	case "and":
		n = node.NewAnd(node.NewStatic(xs, rev), node.NewStatic(ys, rev), rev)
		req = fmt.Sprintf("nodes and %s %s %s", dir(rev), iter(xs, rev), iter(ys, rev))
	case "or":
		n = node.NewOr(node.NewStatic(xs, rev), node.NewStatic(ys, rev), rev)
		req = fmt.Sprintf("nodes or %s %s %s", dir(rev), iter(xs, rev), iter(ys, rev))
	case "nand":
		n = node.NewNAnd(node.NewStatic(xs, rev), node.NewStatic(ys, rev), rev)
		req = fmt.Sprintf("nodes nand %s %s %s", dir(rev), iter(xs, rev), iter(ys, rev))
	case "not":
		n = node.NewNot(node.NewStatic(xs, rev), lo, hi, rev)
		req = fmt.Sprintf("nodes not %s %s %d %d", dir(rev), iter(xs, rev), lo, hi)
	case "range":
		n = node.NewRange(lo, hi, rev)
		req = fmt.Sprintf("nodes range %s %d %d", dir(rev), lo, hi)
	}
	impl := safely(func() string { return okLids(drain(n, cap)) })
	ch.Add(req, impl, len(xs) > 0 && (len(ys) > 0 || op == "not"), append(tags, "op="+op, "dir="+dir(rev))...)
}

func chanNodes(o vh.Opts, g gen) *vh.Channel {
	ch := vh.NewChannel("node.merge", "node.NewAnd/NewOr/NewNAnd/NewNot/NewRange over NewStatic, drained, vs andMerge/orMerge/nandMerge/notNode/rangeNode; exhaustive over all pairs of sorted sublists of {1..6} x {asc,desc} (NOT/range: all borders 1<=lo, hi<=7 incl. lo>hi), then seeded random lists up to length 300 incl. values near MaxUint32; non-trivial = both inputs non-empty")
	ch.Exhaustive = true
	var subs [][]uint32
	for m := 0; m < 64; m++ {
		var l []uint32
		for b := 0; b < 6; b++ {
			if m>>b&1 == 1 {
				l = append(l, uint32(b+1))
			}
		}
		subs = append(subs, l)
	}
	for _, rev := range []bool{false, true} {
		for _, xs := range subs {
			for _, ys := range subs {
				for _, op := range []string{"and", "or", "nand"} {
					nodeCase(ch, op, rev, xs, ys, 0, 0, "scope=exhaustive")
				}
			}
			for lo := uint32(1); lo <= 7; lo++ {
				for hi := uint32(0); hi <= 7; hi++ {
					nodeCase(ch, "not", rev, xs, nil, lo, hi, "scope=exhaustive")
				}
			}
		}
		for lo := uint32(1); lo <= 7; lo++ {
			for hi := uint32(0); hi <= 7; hi++ {
				nodeCase(ch, "range", rev, nil, nil, lo, hi, "scope=exhaustive")
			}
		}
	}
	n := o.Pick(4000, 40000)
	for i := 0; i < n; i++ {
		rev := g.r.Bool()
		base := uint32(1)
		if g.r.Chance(1, 5) {
			base = 4294967295 - 400 // values near MaxUint32 (never MaxUint32 itself as a border: nodeRange would wrap)
		}
		span := uint32(g.r.Range(1, 300))
		xs := g.sublist(base, base+span, g.r.Range(5, 95))
		ys := g.sublist(base, base+span, g.r.Range(5, 95))
		op := []string{"and", "or", "nand", "not"}[g.r.Intn(4)]
		lo := base + uint32(g.r.Intn(int(span)))
		hi := base + uint32(g.r.Intn(int(span)))
		if op == "not" {
			ys = nil
		}
		nodeCase(ch, op, rev, xs, ys, lo, hi, "scope=random")
	}
	return ch
}

// chanRangeGo: node.NewRange called at most `fuel` times vs RangeGo.drain (nodeRange with Go's int / uint32), at the
// uint32 borders included: ascending up to MaxUint32 and descending down to 0 the real node wraps and never ends.
func chanRangeGo(o vh.Opts, g gen) *vh.Channel {
	ch := vh.NewChannel("node.rangego", "node.NewRange(lo, hi, reverse).Next called <= fuel times vs RangeGo.drain (cur int, uint32(cur)): all lo,hi in {0..3} and in {MaxUint32-3..MaxUint32} x both directions x fuel 0..6, plus random; output = values and whether the end was reported; non-trivial = the node wrapped (no end within fuel although hi-lo+2 <= fuel)")
	ch.Exhaustive = true
	one := func(rev bool, lo, hi uint32, fuel int) {
		impl := safely(func() string {
			n := node.NewRange(lo, hi, rev)
			var vals []uint32
			ended := false
			for i := 0; i < fuel; i++ {
				v, ok := n.Next()
				if !ok {
					ended = true
					break
				}
				vals = append(vals, v)
			}
			return fmt.Sprintf("ok %s %s", vh.JoinInts(vals), vh.B(ended))
		})
		wrapped := strings.HasSuffix(impl, " 0") && lo <= hi && int64(hi)-int64(lo)+2 <= int64(fuel)
		tag := "ended"
		if wrapped {
			tag = "wrapped"
		}
		ch.Add(fmt.Sprintf("rangego %s %d %d %d", dir(rev), lo, hi, fuel), impl, wrapped, tag, "dir="+dir(rev))
	}
	const m = 4294967295
	for _, rev := range []bool{false, true} {
		for _, base := range []uint32{0, m - 3} {
			for lo := base; lo-base <= 3; lo++ {
				for hi := base; hi-base <= 3; hi++ {
					for fuel := 0; fuel <= 6; fuel++ {
						one(rev, lo, hi, fuel)
					}
				}
			}
		}
	}
	for i := 0; i < o.Pick(500, 5000); i++ {
		lo := uint32(g.r.Intn(40))
		if g.r.Bool() {
			lo = m - uint32(g.r.Intn(40))
		}
		hi := lo + uint32(g.r.Intn(30)) - 5
		one(g.r.Bool(), lo, hi, g.r.Intn(45))
	}
	return ch
}

func chanOrTree(o vh.Opts, g gen) *vh.Channel {
	ch := vh.NewChannel("node.ortree", "node.BuildORTree over k static lists (k = 0..9, overlapping) vs EvalTree.treeFold; non-trivial = k >= 2")
	n := o.Pick(3000, 20000)
	for i := 0; i < n; i++ {
		rev := g.r.Bool()
		k := g.r.Intn(10)
		var nodes []node.Node
		var parts []string
		total := 0
		for j := 0; j < k; j++ {
			l := g.sublist(1, uint32(g.r.Range(1, 20)), g.r.Range(10, 90))
			total += len(l)
			nodes = append(nodes, node.NewStatic(l, rev))
			parts = append(parts, iter(l, rev))
		}
		impl := safely(func() string { return okLids(drain(node.BuildORTree(nodes, rev), total+4)) })
		ch.Add(fmt.Sprintf("ortree %s %s", dir(rev), vh.JoinStrs(parts, ";")), impl, k >= 2, fmt.Sprintf("k=%d", k))
	}
	return ch
}

// ---------------------------------------------------------------- fake index (ids table + posting lists)

type ftok struct {
	field, val string
	lids       []uint32 // ascending search LIDs
}

type fakeIndex struct {
	ids  []seq.ID // ids[0] is the system entry
	toks []ftok
}

func (f *fakeIndex) GetMID(l seq.LID) seq.MID { return f.ids[l].MID }
func (f *fakeIndex) GetRID(l seq.LID) seq.RID { return f.ids[l].RID }
func (f *fakeIndex) Len() int                 { return len(f.ids) }
func (f *fakeIndex) LessOrEqual(l seq.LID, id seq.ID) bool { // as activeIDsIndex.LessOrEqual
	if f.GetMID(l) == id.MID {
		return f.GetRID(l) <= id.RID
	}
	return f.GetMID(l) < id.MID
}
func (f *fakeIndex) GetValByTID(tid uint32) []byte { return []byte(f.toks[tid].val) }

type fakeTP struct {
	f    *fakeIndex
	tids []uint32
}

func (p *fakeTP) GetToken(i uint32) []byte { return []byte(p.f.toks[p.tids[i-1]].val) }
func (p *fakeTP) FirstTID() uint32         { return 1 }
func (p *fakeTP) LastTID() uint32          { return uint32(len(p.tids)) }
func (p *fakeTP) Ordered() bool            { return false }

func (f *fakeIndex) GetTIDsByTokenExpr(t parser.Token) ([]uint32, error) {
	tp := &fakeTP{f: f}
	for i, tk := range f.toks {
		if tk.field == parser.GetField(t) {
			tp.tids = append(tp.tids, uint32(i))
		}
	}
	if len(tp.tids) == 0 {
		return nil, nil
	}
	res, err := pattern.Search(context.Background(), t, tp)
	for i := range res {
		res[i] = tp.tids[res[i]-1]
	}
	return res, err
}

func (f *fakeIndex) GetLIDsFromTIDs(tids []uint32, _ lids.Counter, minLID, maxLID uint32, order seq.DocsOrder) []node.Node {
	var nodes []node.Node
	for _, tid := range tids {
		var l []uint32
		for _, v := range f.toks[tid].lids {
			if minLID <= v && v <= maxLID {
				l = append(l, v)
			}
		}
		nodes = append(nodes, node.NewStatic(l, order.IsReverse()))
	}
	return nodes
}

func (f *fakeIndex) toksString() string {
	var parts []string
	for _, t := range f.toks {
		parts = append(parts, fmt.Sprintf("%s:%s:%s", hx(t.field), hx(t.val), vh.JoinInts(t.lids)))
	}
	return vh.JoinStrs(parts, ";")
}

var systemID = seq.ID{MID: seq.MID(^uint64(0)), RID: seq.RID(^uint64(0))}

// idTable: n ids sorted descending, with equal mids, equal ids and rid extremes
func (g gen) idTable(n int, maxMid int) []seq.ID {
	ids := make([]seq.ID, n)
	for i := range ids {
		rid := uint64(g.r.Intn(4))
		switch g.r.Intn(6) {
		case 0:
			rid = ^uint64(0)
		case 1:
			rid = 0
		}
		ids[i] = seq.ID{MID: seq.MID(g.r.Range(1, maxMid)), RID: seq.RID(rid)}
	}
	sort.Slice(ids, func(i, j int) bool { return seq.Less(ids[j], ids[i]) })
	return ids
}

func bordersCase(ch *vh.Channel, ids []seq.ID, from, to uint64, tags ...string) {
	f := &fakeIndex{ids: append([]seq.ID{systemID}, ids...)}
	var lo, hi uint32
	impl := safely(func() string {
		lo, hi = processor.VerifC02GetLIDsBorders(seq.MID(from), seq.MID(to), f)
		return fmt.Sprintf("ok %d %d", lo, hi)
	})
	ch.Add(fmt.Sprintf("borders %d %d %s", from, to, fmtIDs(ids)), impl, len(ids) > 0 && lo <= hi, tags...)
}

func chanBorders(o vh.Opts, g gen) *vh.Channel {
	ch := vh.NewChannel("borders", "processor.getLIDsBorders over a fake idsIndex (LessOrEqual as in activeIDsIndex) vs Borders.getLIDsBorders; exhaustive: every non-increasing table of length <= 4 over mids {1,2,3} x rids {0,MaxUint64} and every window from,to in 0..4; random: tables up to 40 ids with ties, windows on/off the stored mids incl. from > to, from = 0, to = MaxUint64; non-trivial = non-empty window")
	ch.Exhaustive = true
	var alphabet []seq.ID
	for m := 3; m >= 1; m-- {
		alphabet = append(alphabet, seq.ID{MID: seq.MID(m), RID: seq.RID(^uint64(0))}, seq.ID{MID: seq.MID(m), RID: 0})
	}
	var rec func(start int, cur []seq.ID)
	rec = func(start int, cur []seq.ID) {
		for from := uint64(0); from <= 4; from++ {
			for to := uint64(0); to <= 4; to++ {
				bordersCase(ch, cur, from, to, "scope=exhaustive")
			}
		}
		if len(cur) == 4 {
			return
		}
		for i := start; i < len(alphabet); i++ {
			rec(i, append(append([]seq.ID{}, cur...), alphabet[i]))
		}
	}
	rec(0, nil)
	n := o.Pick(8000, 60000)
	for i := 0; i < n; i++ {
		maxMid := g.r.Range(1, 12)
		ids := g.idTable(g.r.Intn(41), maxMid)
		if g.r.Chance(1, 6) { // mids of 0 at the old end of the table, incl. the ID {0,0} (model and code agree that it falls outside from = 0)
			ids = append(ids, seq.ID{MID: 0, RID: 5})
			if g.r.Bool() {
				ids = append(ids, seq.ID{MID: 0, RID: 0})
			}
		}
		from, to := uint64(g.r.Intn(maxMid+3)), uint64(g.r.Intn(maxMid+3))
		switch g.r.Intn(8) {
		case 0:
			to = ^uint64(0)
		case 1:
			from = 0
		}
		bordersCase(ch, ids, from, to, "scope=random")
	}
	return ch
}

// ---------------------------------------------------------------- channel: buildEvalTree

func chanEvalTree(o vh.Opts, g gen) *vh.Channel {
	ch := vh.NewChannel("evaltree", "processor.buildEvalTree (AND/OR/NAND/NOT at any depth <= 5) over static leaf nodes cut to the borders, drained, vs EvalTree.evalTree; non-trivial = tree with a NOT or NAND and a non-empty result")
	n := o.Pick(8000, 60000)
	for i := 0; i < n; i++ {
		rev := g.r.Bool()
		maxLid := uint32(g.r.Range(1, 24))
		lo := uint32(g.r.Range(1, int(maxLid)))
		hi := uint32(g.r.Range(0, int(maxLid)))
		nleaves := g.r.Range(1, 5)
		f := &fakeIndex{}
		for j := 0; j < nleaves; j++ {
			f.toks = append(f.toks, ftok{field: strconv.Itoa(j), lids: g.sublist(1, maxLid, g.r.Range(10, 90))})
		}
		ast := g.ast(g.r.Range(0, 5), func() *parser.ASTNode { return &parser.ASTNode{Value: &parser.Literal{Field: strconv.Itoa(g.r.Intn(nleaves))}} })
		if tooManyHangs() {
			break
		}
		var res []uint32
		impl := within(5*time.Second, func() string {
			tree, err := processor.VerifC02BuildEvalTree(ast, lo, hi, rev, func(t parser.Token) (node.Node, error) {
				j, _ := strconv.Atoi(parser.GetField(t))
				order := seq.DocsOrderDesc
				if rev {
					order = seq.DocsOrderAsc
				}
				return node.BuildORTree(f.GetLIDsFromTIDs([]uint32{uint32(j)}, nil, lo, hi, order), rev), nil
			})
			if err != nil {
				return "err build"
			}
			var done bool
			res, done = drain(tree, int(maxLid)+4)
			return okLids(res, done)
		})
		q := encAST(ast)
		hasNeg := strings.Contains(q, "N/") || strings.Contains(q, "D/")
		ch.Add(fmt.Sprintf("eval %s %d %d %s %s", dir(rev), lo, hi, f.toksString(), q), impl, hasNeg && len(res) > 0,
			"dir="+dir(rev), fmt.Sprintf("neg=%v", hasNeg))
	}
	return ch
}

// ---------------------------------------------------------------- channel: IndexSearch over the fake index

type doc struct {
	id   seq.ID
	toks [][2]string
	// nested metas of the document (nested mapping type): each shares the ID, has Size 0, carries `_all_`, its own
	// tokens and a copy of the parent's tokens - exactly what proxy/bulk indexer.Index produces
	nested [][][2]string
}

func (g gen) docTokens() [][2]string {
	t := [][2]string{{"_all_", ""}}
	for _, f := range []string{"a", "b"} {
		for k := g.r.Intn(3); k > 0; k-- {
			t = append(t, [2]string{f, g.pick(textVocab)})
		}
	}
	if g.r.Chance(2, 3) {
		t = append(t, [2]string{"n", g.pick(numVocab)})
	}
	if g.r.Chance(1, 3) {
		t = append(t, [2]string{"t", g.pick(longVocab)})
	}
	return t
}

// indexOf builds the fake index of documents given in LID order (ids descending).
func indexOf(docs []doc) *fakeIndex {
	f := &fakeIndex{ids: []seq.ID{systemID}}
	pos := map[[2]string]int{}
	for i, d := range docs {
		f.ids = append(f.ids, d.id)
		seen := map[[2]string]bool{}
		for _, t := range d.toks {
			if seen[t] {
				continue
			}
			seen[t] = true
			j, ok := pos[t]
			if !ok {
				j = len(f.toks)
				pos[t] = j
				f.toks = append(f.toks, ftok{field: t[0], val: t[1]})
			}
			f.toks[j].lids = append(f.toks[j].lids, uint32(i+1))
		}
	}
	return f
}

type window struct {
	from, to  uint64
	limit     int
	withTotal bool
	order     seq.DocsOrder
}

func (g gen) window(maxMid, ndocs int) window {
	w := window{from: uint64(g.r.Intn(maxMid + 2)), to: uint64(g.r.Intn(maxMid + 3)), withTotal: g.r.Bool()}
	if g.r.Chance(1, 2) && w.from > w.to {
		w.from, w.to = w.to, w.from
	}
	switch g.r.Intn(6) {
	case 0:
		w.from, w.to = 0, ^uint64(0)
	case 1:
		w.to = ^uint64(0)
	}
	switch g.r.Intn(4) {
	case 0:
		w.limit = 0
	case 1:
		w.limit = ndocs + 5
	default:
		w.limit = g.r.Range(1, max(1, ndocs))
	}
	if g.r.Bool() {
		w.order = seq.DocsOrderAsc
	}
	return w
}

// gapWindow: documents of a gappy corpus have mids that are multiples of 3; the window lies strictly inside a gap
// between two possible mids (no document can be inside), or touches exactly one end of the gap.
func (g gen) gapWindow(maxMid, ndocs int) window {
	w := g.window(maxMid, ndocs)
	a := uint64(3 * g.r.Intn(maxMid+1))
	switch g.r.Intn(4) {
	case 0:
		w.from, w.to = a+1, a+2
	case 1:
		w.from, w.to = a+1, a+1
	case 2:
		w.from, w.to = a+1, a+3 // touches the upper end
	default:
		w.from, w.to = a, a+2 // touches the lower end
	}
	return w
}

func (w window) String() string {
	return fmt.Sprintf("%s %d %d %d %s", ord(w.order), w.from, w.to, w.limit, vh.B(w.withTotal))
}

func (w window) tags() []string {
	lim := "limit=mid"
	if w.limit == 0 {
		lim = "limit=0"
	}
	return []string{"order=" + ord(w.order), "total=" + vh.B(w.withTotal), lim}
}

func chanIndexSearch(o vh.Opts, g gen) *vh.Channel {
	ch := vh.NewChannel("indexsearch", "processor.IndexSearch over a fake searchIndex (ids table with equal mids / repeated IDs, posting lists, real pattern.Search for the leaves) vs EvalTree.search; random tables <= 14 ids, ASTs depth <= 4, windows, limits 0..n+5, both orders, with/without total; non-trivial = at least one id returned")
	n := o.Pick(12000, 100000)
	for i := 0; i < n; i++ {
		maxMid := g.r.Range(1, 6)
		ids := g.idTable(g.r.Intn(15), maxMid)
		docs := make([]doc, len(ids))
		for j := range docs {
			docs[j] = doc{id: ids[j], toks: g.docTokens()}
		}
		f := indexOf(docs)
		ast := g.ast(g.r.Range(0, 4), g.leaf)
		w := g.window(maxMid, len(ids))
		if tooManyHangs() {
			break
		}
		impl := within(10*time.Second, func() string {
			return qprAnswer(processor.IndexSearch(context.Background(), processor.SearchParams{AST: ast, From: seq.MID(w.from), To: seq.MID(w.to), Limit: w.limit, WithTotal: w.withTotal, Order: w.order}, f, processor.AggLimits{}, stopwatch.New()))
		})
		ch.Add(fmt.Sprintf("search %s %s %s %s", w, fmtIDs(ids), f.toksString(), encAST(ast)), impl, nonEmpty(impl), w.tags()...)
	}
	return ch
}

// ---------------------------------------------------------------- channels: active fraction internals

func chanActiveMerge(o vh.Opts, g gen) *vh.Channel {
	ch := vh.NewChannel("active.merge", "frac.mergeSorted(right, left, mids, rids) on two lists sorted descending by (mid, rid, lid), overlapping, vs ActiveIndex.mergeSorted; non-trivial = both non-empty")
	n := o.Pick(8000, 60000)
	for i := 0; i < n; i++ {
		cnt := g.r.Range(1, 16)
		mids, rids := []uint64{^uint64(0)}, []uint64{^uint64(0)}
		ids := []seq.ID{systemID}
		for j := 0; j < cnt; j++ {
			m, r := uint64(g.r.Range(1, 4)), uint64(g.r.Intn(3))
			mids, rids = append(mids, m), append(rids, r)
			ids = append(ids, seq.ID{MID: seq.MID(m), RID: seq.RID(r)})
		}
		mk := func() []uint32 {
			l := g.sublist(1, uint32(cnt), g.r.Range(0, 100))
			sort.Slice(l, func(a, b int) bool {
				x, y := l[a], l[b]
				if mids[x] != mids[y] {
					return mids[x] > mids[y]
				}
				if rids[x] != rids[y] {
					return rids[x] > rids[y]
				}
				return x > y
			})
			return l
		}
		right, left := mk(), mk()
		impl := safely(func() string {
			return "ok " + vh.JoinInts(frac.VerifC02MergeSorted(append([]uint32{}, right...), append([]uint32{}, left...), mids, rids))
		})
		ch.Add(fmt.Sprintf("mergesorted %s %s %s", vh.JoinInts(right), vh.JoinInts(left), fmtIDs(ids)), impl, len(right) > 0 && len(left) > 0)
	}
	return ch
}

func chanActiveInverse(o vh.Opts, g gen) *vh.Channel {
	ch := vh.NewChannel("active.inverse", "frac.inverseLIDs over a real inverser built from a permutation of a subset of 1..size-1 (LIDs missing from the mapping and LIDs >= size included) vs ActiveIndex.inverseLIDs; non-trivial = non-empty result")
	n := o.Pick(8000, 60000)
	for i := 0; i < n; i++ {
		size := g.r.Range(2, 20)
		var mapping []uint32
		for _, p := range g.r.Perm(size - 1) {
			if g.r.Chance(9, 10) {
				mapping = append(mapping, uint32(p+1))
			}
		}
		var unmapped []uint32
		for k := g.r.Intn(size + 2); k > 0; k-- {
			unmapped = append(unmapped, uint32(g.r.Range(1, size+2)))
		}
		lo, hi := uint32(g.r.Range(0, size)), uint32(g.r.Range(0, size+1))
		impl := safely(func() string { return "ok " + vh.JoinInts(frac.VerifC02InverseLIDs(mapping, size, lo, hi, unmapped)) })
		ch.Add(fmt.Sprintf("inverse %s %d %d %d %s", vh.JoinInts(mapping), size, lo, hi, vh.JoinInts(unmapped)), impl, impl != "ok -" && impl != "panic")
	}
	return ch
}

// chanActiveInversePooled: the inverser takes its LID -> position table from bytespool.  Every case first builds and
// releases an inverser that fills the whole size class of the buffer (every slot non-zero), then builds the inverser
// under test from the pool again with LIDs missing from the mapping: their slots must read "absent".
func chanActiveInversePooled(o vh.Opts, g gen) *vh.Channel {
	ch := vh.NewChannel("active.inverse.pooled", "frac.inverseLIDs over a real inverser whose table comes from a pool buffer dirtied by a previous, larger inverser (all slots of the size class non-zero), mapping = permutation of a subset of 1..size-1, unmapped LIDs include ones absent from the mapping, vs ActiveIndex.inverseLIDs; non-trivial = some unmapped LID is absent from the mapping")
	defer debug.SetGCPercent(debug.SetGCPercent(-1)) // keep sync.Pool content
	n := o.Pick(3000, 30000)
	for i := 0; i < n; i++ {
		size := g.r.Range(2, 120)
		capInts := 32
		for capInts < size {
			capInts *= 2
		}
		full := make([]uint32, capInts-1)
		for k, p := range g.r.Perm(capInts - 1) {
			full[k] = uint32(p + 1)
		}
		for k := 0; k < 3; k++ {
			frac.VerifC02InverseLIDs(full, capInts, 0, 0, nil)
		}
		var mapping []uint32
		present := map[uint32]bool{}
		for _, p := range g.r.Perm(size - 1) {
			if g.r.Chance(4, 5) {
				mapping = append(mapping, uint32(p+1))
				present[uint32(p+1)] = true
			}
		}
		var unmapped []uint32
		absent := false
		for k := g.r.Intn(size + 2); k > 0; k-- {
			v := uint32(g.r.Range(1, size-1))
			unmapped = append(unmapped, v)
			absent = absent || !present[v]
		}
		lo, hi := uint32(g.r.Range(0, 2)), uint32(g.r.Range(size/2, size+1))
		impl := safely(func() string { return "ok " + vh.JoinInts(frac.VerifC02InverseLIDs(mapping, size, lo, hi, unmapped)) })
		ch.Add(fmt.Sprintf("inverse %s %d %d %d %s", vh.JoinInts(mapping), size, lo, hi, vh.JoinInts(unmapped)), impl, absent)
	}
	return ch
}

// ---------------------------------------------------------------- oracle: the store request of the proxy

// apiRequestCase checks the contract of proxy/search.SearchRequest.GetAPISearchRequest for one (size, offset): the
// request sent to every store carries Size AND Offset unchanged (the store searches with limit = Size + Offset, the
// proxy cuts the page after merging), and the window, order and total flag as given.
func apiRequestCase(size, offset int) string {
	return safely(func() string {
		for _, order := range []seq.DocsOrder{seq.DocsOrderDesc, seq.DocsOrderAsc} {
			sr := &proxysearch.SearchRequest{Q: []byte("a:b"), Size: size, Offset: offset, From: 3, To: 9, WithTotal: true, Order: order}
			r := sr.GetAPISearchRequest()
			if r.Size != int64(size) || r.Offset != int64(offset) {
				return fmt.Sprintf("size=%d offset=%d", r.Size, r.Offset)
			}
			if r.From != 3 || r.To != 9 || !r.WithTotal || r.Query != "a:b" || r.Order != storeapiOrder(order) {
				return "other-fields-changed"
			}
		}
		return "same"
	})
}

func storeapiOrder(o seq.DocsOrder) storeapi.Order { return storeapi.MustProtoOrder(o) }

func runAPIRequests(o vh.Opts, g gen, rep *vh.Report, lines []string) *vh.Oracle {
	orc := vh.NewOracle("proxy.apirequest", "proxy/search.SearchRequest.GetAPISearchRequest: the store request must carry Size and Offset unchanged (and window, order, total flag) for every size, offset in {0,1,2,3,5,10,100,1000,99999,100000,100001} and random pairs; non-trivial = offset > 0")
	check := func(size, offset int) {
		res := apiRequestCase(size, offset)
		orc.Case(fmt.Sprintf("apireq %d %d", size, offset), offset > 0, fmt.Sprintf("offset>0=%v", offset > 0))
		if res != "same" {
			rep.Violate(vh.Violation{Site: "proxy/search/search_request.go:GetAPISearchRequest", Class: "store-request-loses-paging",
				What:   fmt.Sprintf("size=%d offset=%d: the store request has %s; each store then returns only its first `size` ids and the page [offset, offset+size) is cut from an incomplete merge (c02_page_needs_offset)", size, offset, res),
				Replay: []string{fmt.Sprintf("apireq %d %d", size, offset)}})
		}
	}
	if lines != nil {
		for _, l := range lines {
			var a, b int
			if n, _ := fmt.Sscanf(l, "apireq %d %d", &a, &b); n == 2 {
				check(a, b)
			}
		}
		return orc
	}
	vals := []int{0, 1, 2, 3, 5, 10, 100, 1000, 99999, 100000, 100001}
	for _, sz := range vals {
		for _, off := range vals {
			check(sz, off)
		}
	}
	for i := 0; i < o.Pick(200, 2000); i++ {
		check(g.r.Intn(1<<20), g.r.Intn(1<<20))
	}
	return orc
}

// ---------------------------------------------------------------- channel: util.Bitmask.HasBitsIn

// chanBitmask: the bitmap under seq.MIDsDistribution (one bit per minute of a sealed fraction's time span).
func chanBitmask(o vh.Opts, g gen) *vh.Channel {
	ch := vh.NewChannel("bitmask.has", "util.Bitmask.HasBitsIn(left, right) vs SV.Bitmask.hasBitsIn (byte-level model, proved = `a bit of [left,right] is set`): masks of 200 bits with one set bit at every position x ALL pairs left <= right (exhaustive in the thorough tier, every 3rd pair quick), masks with 2..5 random bits x all pairs; non-trivial = left and right lie in different bytes at least two apart")
	ch.Exhaustive = o.Thorough()
	const size = 200
	one := func(bits []int, stride, phase int) {
		bm := util.NewBitmask(size)
		for _, b := range bits {
			bm.Set(b, true)
		}
		bin := vh.Hex(bm.GetBitmaskBinary())
		k := 0
		for l := 0; l < size; l++ {
			for r := l; r < size; r++ {
				k++
				if k%stride != phase {
					continue
				}
				impl := safely(func() string { return "ok " + vh.B(bm.HasBitsIn(l, r)) })
				ch.Add(fmt.Sprintf("hasbits %s %d %d", bin, l, r), impl, r/8-l/8 >= 2, fmt.Sprintf("bits=%d", len(bits)))
			}
		}
	}
	stride := o.Pick(3, 1)
	for b := 0; b < size; b += o.Pick(7, 1) {
		one([]int{b}, stride, (b+int(o.Seed))%stride)
	}
	for i := 0; i < o.Pick(6, 40); i++ {
		var bits []int
		for k := g.r.Range(2, 5); k > 0; k-- {
			bits = append(bits, g.r.Intn(size))
		}
		one(bits, stride*3, i%(stride*3))
	}
	one(nil, 50, 0)
	return ch
}

// ---------------------------------------------------------------- multi-fraction search (fracmanager.Searcher)

// distFrac is a fraction as the searcher sees it: data from the real fraction; Info / IsIntersecting from an Info
// whose creation time is chosen by the generator (instead of the wall clock of the run) and whose minute distribution
// is built by the real Info.BuildDistribution over the fraction's ids - what frac.Seal does for a sealed fraction
// whose oldest document is >= 10 minutes older than the fraction.
type distFrac struct {
	frac.Fraction
	info *frac.Info
}

func (d *distFrac) Info() *frac.Info { cp := *d.info; return &cp }
func (d *distFrac) IsIntersecting(from, to seq.MID) bool { return d.info.IsIntersecting(from, to) }
func (d *distFrac) Contains(mid seq.MID) bool           { return d.info.IsIntersecting(mid, mid) }

func newDistFrac(f frac.Fraction, docs []doc, creation uint64, sealed bool) *distFrac {
	real := f.Info()
	info := &frac.Info{Path: real.Path, DocsTotal: real.DocsTotal, From: real.From, To: real.To, CreationTime: creation}
	if sealed {
		ids := make([]seq.ID, len(docs))
		for i, d := range docs {
			ids[i] = d.id
		}
		info.BuildDistribution(ids)
	}
	return &distFrac{Fraction: f, info: info}
}

const (
	multiBase   = uint64(1_700_000_000_000) // ms; minute k of the corpus is multiBase + k*60000
	multiMinute = uint64(60_000)
)

type multiGroup struct {
	fpi      int
	creation uint64
	kinds    string  // per fraction: a(ctive) | s(ealed preloaded) | r(eopened)
	parts    [][]doc // documents per fraction, arrival order
}

func (m *multiGroup) line() string {
	var ps []string
	for _, p := range m.parts {
		ps = append(ps, docsString(p))
	}
	return fmt.Sprintf("multi %d %d %s %s", m.fpi, m.creation, m.kinds, strings.Join(ps, "|"))
}

func (m *multiGroup) all() []doc {
	var all []doc
	for _, p := range m.parts {
		all = append(all, p...)
	}
	return all
}

// build ingests every part into its own fraction and wraps it
func (m *multiGroup) build(e *env) ([]frac.Fraction, error) {
	var fs []frac.Fraction
	for i, p := range m.parts {
		a, base, err := e.newActive(p, 16, nil)
		if err != nil {
			return nil, err
		}
		switch m.kinds[i] {
		case 'a':
			fs = append(fs, newDistFrac(a, p, m.creation, false))
		default:
			pre, re, err := e.seal(a, base)
			if err != nil {
				return nil, err
			}
			if m.kinds[i] == 's' {
				fs = append(fs, newDistFrac(pre, p, m.creation, true))
			} else {
				fs = append(fs, newDistFrac(re, p, m.creation, true))
			}
		}
	}
	return fs, nil
}

func (m *multiGroup) ask(fs []frac.Fraction, s step) sysCase {
	impl := within(10*time.Second, func() string {
		sr := fracmanager.NewSearcher(4, fracmanager.SearcherCfg{FractionsPerIteration: m.fpi})
		return qprAnswer(sr.SearchDocs(context.Background(), append([]frac.Fraction{}, fs...), processor.SearchParams{AST: s.ast, From: seq.MID(s.w.from), To: seq.MID(s.w.to), Limit: s.w.limit, WithTotal: s.w.withTotal, Order: s.w.order}))
	})
	c := sysCase{kind: "multi", n: len(m.parts), w: s.w, query: s.enc, docs: docsString(m.all()), impl: impl}
	c.raw = []string{m.line(), "expectm " + c.key()}
	return c
}

// genMulti: 2..4 fractions holding LATE documents (10 min .. 3 h before the fractions' creation, few sparse minutes),
// many documents with exactly the same millisecond spread over the fractions (distinct rids)
func (g gen) multi() *multiGroup {
	k := g.r.Range(2, 4)
	m := &multiGroup{fpi: g.r.Intn(3), creation: multiBase + 195*multiMinute}
	var hot []uint64 // shared timestamps
	for i := g.r.Range(1, 3); i > 0; i-- {
		hot = append(hot, multiBase+uint64(g.r.Intn(181))*multiMinute+uint64(g.r.Intn(3)))
	}
	rid := uint64(0)
	for f := 0; f < k; f++ {
		m.kinds += string("sra"[g.r.Intn(3)])
		var part []doc
		for mins := g.r.Range(1, 4); mins > 0; mins-- {
			stamp := multiBase + uint64(g.r.Intn(181))*multiMinute + uint64(g.r.Intn(3))
			if g.r.Chance(1, 2) {
				stamp = hot[g.r.Intn(len(hot))]
			}
			for c := g.r.Range(1, 5); c > 0; c-- {
				rid += uint64(g.r.Range(1, 3))
				r := rid
				if g.r.Chance(1, 10) {
					r = ^uint64(0) - rid
				}
				part = append(part, doc{id: seq.ID{MID: seq.MID(stamp), RID: seq.RID(r)}, toks: g.docTokens()})
			}
		}
		for i := len(part) - 1; i > 0; i-- { // arrival order shuffled
			j := g.r.Intn(i + 1)
			part[i], part[j] = part[j], part[i]
		}
		m.parts = append(m.parts, part)
	}
	return m
}

// multiWindow: 20 min .. 3 h starting at any minute of the corpus span (every offset mod 8 bitmask bytes), or the
// whole range; every limit from 1 to beyond the corpus
func (g gen) multiWindow(ndocs int) window {
	w := window{withTotal: g.r.Bool(), limit: g.r.Range(1, ndocs+2)}
	start := uint64(g.r.Intn(200))
	w.from = multiBase + start*multiMinute
	w.to = w.from + uint64(g.r.Range(20, 180))*multiMinute
	switch g.r.Intn(6) {
	case 0:
		w.from, w.to = 0, ^uint64(0)
	case 1:
		w.from -= uint64(g.r.Intn(3)) // not minute aligned
		w.to += uint64(g.r.Intn(3))
	}
	if g.r.Bool() {
		w.order = seq.DocsOrderAsc
	}
	return w
}

func runMulti(e *env, g gen, n int) ([]sysCase, error) {
	var cases []sysCase
	for i := 0; i < n && !tooManyHangs(); i++ {
		m := g.multi()
		fs, err := m.build(e)
		if err != nil {
			return cases, err
		}
		nd := len(m.all())
		for q := 0; q < 12; q++ {
			ast := g.ast(g.r.Range(0, 2), g.leaf)
			if q%3 == 0 {
				ast = lit("_all_", "*")
			}
			cases = append(cases, m.ask(fs, step{w: g.multiWindow(nd), ast: ast, enc: encAST(ast)}))
		}
	}
	return cases, nil
}

// replayMulti re-runs `multi` / `expectm` lines
func replayMulti(e *env, lines []string) ([]sysCase, error) {
	var cases []sysCase
	var m *multiGroup
	var fs []frac.Fraction
	for _, l := range lines {
		f := strings.Fields(l)
		switch {
		case len(f) == 5 && f[0] == "multi":
			m = &multiGroup{kinds: f[3]}
			m.fpi, _ = strconv.Atoi(f[1])
			m.creation, _ = strconv.ParseUint(f[2], 10, 64)
			for _, p := range strings.Split(f[4], "|") {
				docs, err := parseDocs(p)
				if err != nil {
					return nil, err
				}
				m.parts = append(m.parts, docs)
			}
			if len(m.kinds) != len(m.parts) {
				return nil, fmt.Errorf("bad multi line")
			}
			var err error
			if fs, err = m.build(e); err != nil {
				return nil, err
			}
		case len(f) == 9 && f[0] == "expectm" && m != nil: // expectm multi <n> <window: 5 fields> <query>
			ast, _, err := decAST(strings.Split(f[8], "/"))
			if err != nil {
				return nil, err
			}
			cases = append(cases, m.ask(fs, step{w: parseWindow(f[3:8]), ast: ast, enc: f[8]}))
		}
	}
	return cases, nil
}

// ---------------------------------------------------------------- channel: sealed LID blocks with tiny capacities

type noCounter struct{}

func (noCounter) AddLIDsCount(int) {}

// lidsFile writes a small but complete index file whose LID section is produced by the real block generator with
// the given block capacity (C03's writer export), and returns the table built while sealing plus a reader.
func lidsFile(dir string, capacity int, tokens [][]byte, postings [][]uint32, nLids int) (*lids.Table, *disk.IndexReader, func(), error) {
	f, err := os.CreateTemp(dir, "c02-lids-*.index")
	if err != nil {
		return nil, nil, nil, err
	}
	closeFn := func() { name := f.Name(); f.Close(); os.Remove(name) }
	w, err := frac.VerifNewIndexWriter(f)
	if err != nil {
		return nil, nil, closeFn, err
	}
	fields := []frac.VerifField{{Name: "f", Tokens: tokens, Postings: postings}}
	if err := w.WriteInfo(); err != nil {
		return nil, nil, closeFn, err
	}
	if _, p, err := w.WriteTokens(fields, 1); err != nil || p != "" {
		return nil, nil, closeFn, fmt.Errorf("tokens: %v %s", err, p)
	}
	ids := []seq.ID{{MID: 1 << 62, RID: 1}, {MID: 5, RID: 5}}
	if err := w.WritePositions(uint32(len(ids)), []uint64{0}, 1); err != nil {
		return nil, nil, closeFn, err
	}
	if _, err := w.WriteIDs(ids, []uint64{1, 2}, 4096, 1); err != nil {
		return nil, nil, closeFn, err
	}
	o2n := make([]uint32, nLids+1)
	for i := range o2n {
		o2n[i] = uint32(i)
	}
	t, _, err := w.WriteLIDs(fields, o2n, capacity, 1)
	if err != nil {
		return nil, nil, closeFn, err
	}
	if err := w.Finish(); err != nil {
		return nil, nil, closeFn, err
	}
	r := disk.NewIndexReader(disk.NewReadLimiter(1, nil), f, cache.NewCache[[]byte](nil, nil))
	return t, &r, closeFn, nil
}

// chanSealedLids: the posting list of a token as the sealed fraction's block iterators deliver it - LID blocks of
// 2..16 LIDs, so that tokens span many blocks (also blocks lying wholly inside one token) - vs EvalTree.narrow, the
// form C02's index view uses (posting list cut to the borders, in iteration order).
func chanSealedLids(o vh.Opts, g gen, dir string) *vh.Channel {
	ch := vh.NewChannel("sealed.lids", "sealedTokenIndex.GetLIDsFromTIDs (start block per order, lids.IteratorDesc / IteratorAsc) over LID blocks written by the real generator with capacities 2..16 (tokens spanning 1..20 blocks, every tid, windows inside / across / outside the list) vs EvalTree.narrow; non-trivial = the token spans >= 3 LID blocks")
	n := o.Pick(120, 1200)
	for i := 0; i < n; i++ {
		nLids := g.r.Range(10, 80)
		capacity := g.r.Range(2, 16)
		ntok := g.r.Range(1, 4)
		var tokens [][]byte
		var postings [][]uint32
		for t := 0; t < ntok; t++ {
			tokens = append(tokens, []byte(fmt.Sprintf("v%02d", t)))
			pct := []int{95, 60, 20, 100}[g.r.Intn(4)]
			p := g.sublist(1, uint32(nLids), pct)
			if len(p) == 0 {
				p = []uint32{uint32(g.r.Range(1, nLids))}
			}
			postings = append(postings, p)
		}
		tbl, reader, closeFn, err := lidsFile(dir, capacity, tokens, postings, nLids)
		if err != nil {
			if closeFn != nil {
				closeFn()
			}
			ch.Error = err.Error()
			break
		}
		loader := lids.NewLoader(reader, cache.NewCache[*lids.Chunks](nil, nil))
		for t := 0; t < ntok; t++ {
			tid := uint32(t + 1)
			blocks := 0
			for bi := range tbl.MaxTIDs {
				if tbl.GetAdjustedMinTID(uint32(bi)) <= tid && tid <= tbl.MaxTIDs[bi] {
					blocks++
				}
			}
			for k := 0; k < 6; k++ {
				lo, hi := uint32(0), uint32(nLids+1)
				if k > 0 {
					lo = uint32(g.r.Range(0, nLids))
					hi = uint32(g.r.Range(int(lo), nLids+1))
				}
				for _, rev := range []bool{false, true} {
					impl := safely(func() string {
						order := seq.DocsOrderDesc
						if rev {
							order = seq.DocsOrderAsc
						}
						// through sealedTokenIndex.GetLIDsFromTIDs: the start block and the iterator are chosen there
						nodes := frac.VerifC02SealedLIDs(tbl, loader, []uint32{tid}, noCounter{}, lo, hi, order)
						var out []uint32
						for c := 0; c <= nLids+2; c++ {
							v, ok := nodes[0].Next()
							if !ok {
								return "ok " + vh.JoinInts(out)
							}
							out = append(out, v)
						}
						return "err no-termination"
					})
					ch.Add(fmt.Sprintf("narrow %s %d %d %s", dir2(rev), lo, hi, vh.JoinInts(postings[t])), impl, blocks >= 3,
						fmt.Sprintf("blocks=%d", min(blocks, 8)), "dir="+dir2(rev))
				}
			}
		}
		closeFn()
	}
	return ch
}

// dir2: LID iteration direction of the posting iterators (rev = seq.DocsOrderAsc = LIDs descending)
func dir2(rev bool) string { return dir(rev) }

// ---------------------------------------------------------------- real fractions

type sealedRef struct {
	f *frac.Sealed
	h *history
}

type env struct {
	prev    *sealedRef           // the re-opened sealed fraction of the previous small corpus (pair probe)
	dirtier map[int]*frac.Active // by number of documents
	dir     string
	cm      *fracmanager.CacheMaintainer
	indexer *frac.ActiveIndexer
	rl      *disk.ReadLimiter
	n       int
}

func newEnv() (*env, error) {
	d, err := os.MkdirTemp("", "verif-c02-")
	if err != nil {
		return nil, err
	}
	e := &env{dir: d, cm: fracmanager.NewCacheMaintainer(256*consts.MB, 64*consts.MB, nil), indexer: frac.NewActiveIndexer(2, 2), rl: disk.NewReadLimiter(2, nil)}
	e.indexer.Start()
	return e, nil
}

// dirtyPool leaves released inverser tables in the bytes pool whose every slot of the size class that a table of
// `slots` entries uses is non-zero: an active fraction filling that class is searched by several providers at once.
func (e *env) dirtyPool(slots int) error {
	capInts := 32
	for capInts < slots {
		capInts *= 2
	}
	d := capInts - 1
	if e.dirtier == nil {
		e.dirtier = map[int]*frac.Active{}
	}
	f := e.dirtier[d]
	if f == nil {
		docs := make([]doc, d)
		for i := range docs {
			docs[i] = doc{id: seq.ID{MID: seq.MID(1000 + i), RID: seq.RID(i)}, toks: [][2]string{{"_all_", ""}}}
		}
		var err error
		if f, _, err = e.newActive(docs, 64, nil); err != nil {
			return err
		}
		e.dirtier[d] = f
	}
	var rel []func()
	for i := 0; i < 4; i++ {
		dp, r := f.DataProvider(context.Background())
		rel = append(rel, r)
		if _, err := dp.Search(processor.SearchParams{AST: lit("_all_", "*"), To: seq.MID(^uint64(0)), Limit: 1}); err != nil {
			return err
		}
	}
	for _, r := range rel {
		r()
	}
	return nil
}

// halfIndex performs the first part of appendWorker for one more document: its id is appended and its field tokens
// get the new LID, `_all_` does not (yet).  A search over this state sees token lists that are ahead of its `_all_`
// snapshot - what a search running next to an index worker sees when it reads a token list after the snapshot.
func halfIndex(a *frac.Active, d doc) {
	lids := a.AppendIDs([]seq.ID{d.id})
	var toks [][]byte
	var fl []int
	seen := map[[2]string]bool{}
	for _, t := range d.toks {
		if t[0] == "_all_" || seen[t] {
			continue
		}
		seen[t] = true
		toks = append(toks, []byte(t[0]+":"+t[1]))
		fl = append(fl, len(t[0]))
	}
	if len(toks) == 0 {
		return
	}
	for _, p := range a.TokenList.Append(toks, fl, make([]*frac.TokenLIDs, len(toks))) {
		p.PutLIDsInQueue(lids)
	}
}

func (e *env) close() {
	e.indexer.Stop()
	os.RemoveAll(e.dir)
}

var sealParams = frac.SealParams{IDsZstdLevel: -5, LIDsZstdLevel: -5, TokenListZstdLevel: -5, DocsPositionsZstdLevel: -5, TokenTableZstdLevel: -5, DocBlocksZstdLevel: -5, DocBlockSize: 1 << 20}

// newActive ingests the documents in the given (arrival) order, in bulks of bulkSize, waiting for the indexer
// after every bulk so that arrival LIDs are deterministic.
func (e *env) newActive(docs []doc, bulkSize int, afterBulk func(a *frac.Active, ingested int)) (*frac.Active, string, error) {
	e.n++
	base := filepath.Join(e.dir, fmt.Sprintf("seq-db-%04d", e.n))
	a := frac.NewActive(base, e.indexer, e.rl, e.cm.CreateDocBlockCache(), e.cm.CreateSortDocsCache(), &frac.Config{})
	dp := frac.NewDocProvider()
	flush := func() error {
		if dp.DocCount == 0 {
			return nil
		}
		d, m := dp.Provide()
		var wg sync.WaitGroup
		wg.Add(1)
		if err := a.Append(d, m, &wg); err != nil {
			return err
		}
		wg.Wait()
		dp.TryReset()
		return nil
	}
	for i, d := range docs {
		var toks []seq.Token
		for _, t := range d.toks {
			toks = append(toks, seq.Token{Field: []byte(t[0]), Val: []byte(t[1])})
		}
		dp.Append([]byte(fmt.Sprintf(`{"i":%d}`, i)), nil, d.id, toks)
		for _, n := range d.nested { // as indexer.appendNestedMeta: same ID, Size 0, right after the parent
			md := frac.MetaData{ID: d.id, Size: 0}
			for _, t := range n {
				md.Tokens = append(md.Tokens, frac.MetaToken{Key: []byte(t[0]), Value: []byte(t[1])})
			}
			buf := md.MarshalBinaryTo(make([]byte, 4))
			binary.LittleEndian.PutUint32(buf, uint32(len(buf)-4))
			dp.Metas = append(dp.Metas, buf...)
		}
		if dp.DocCount >= bulkSize {
			if err := flush(); err != nil {
				return nil, "", err
			}
			if afterBulk != nil && i+1 < len(docs) {
				afterBulk(a, i+1)
			}
		}
	}
	if err := flush(); err != nil {
		return nil, "", err
	}
	return a, base, nil
}

func (e *env) seal(a *frac.Active, base string) (preloaded, reopened *frac.Sealed, err error) {
	pre, err := frac.Seal(a, sealParams)
	if err != nil {
		return nil, nil, err
	}
	preloaded = frac.NewSealedPreloaded(base, pre, e.rl, e.cm.CreateIndexCache(), e.cm.CreateDocBlockCache(), &frac.Config{})
	a.Release()
	reopened = frac.NewSealed(base, e.rl, e.cm.CreateIndexCache(), e.cm.CreateDocBlockCache(), nil, &frac.Config{})
	return preloaded, reopened, nil
}

func searchFrac(f frac.Fraction, ast *parser.ASTNode, w window) string {
	return within(10*time.Second, func() string {
		dp, release := f.DataProvider(context.Background())
		defer release()
		return qprAnswer(dp.Search(processor.SearchParams{AST: ast, From: seq.MID(w.from), To: seq.MID(w.to), Limit: w.limit, WithTotal: w.withTotal, Order: w.order}))
	})
}

// nonEmpty: the answer carries at least one id
func nonEmpty(impl string) bool { return strings.HasPrefix(impl, "ok ") && !strings.HasPrefix(impl, "ok - ") }

// docsString renders one entry per meta (a nested meta is an entry of its own with the parent's ID).
func docsString(docs []doc) string { return docsStringM(docs, "") }

// docsStringM: nested entries carry the given marker (replay files use "+", the driver gets none).
func docsStringM(docs []doc, marker string) string {
	var parts []string
	entry := func(pre string, id seq.ID, toks [][2]string) {
		var ts []string
		for _, t := range toks {
			ts = append(ts, hx(t[0])+"="+hx(t[1]))
		}
		parts = append(parts, fmt.Sprintf("%s%d:%d:%s", pre, uint64(id.MID), uint64(id.RID), vh.JoinStrs(ts, "&")))
	}
	for _, d := range docs {
		entry("", d.id, d.toks)
		for _, n := range d.nested {
			entry(marker, d.id, n)
		}
	}
	return vh.JoinStrs(parts, ";")
}

func hasNested(docs []doc) bool {
	for _, d := range docs {
		if len(d.nested) > 0 {
			return true
		}
	}
	return false
}

func parseDocs(s string) ([]doc, error) {
	var docs []doc
	if s == "-" {
		return nil, nil
	}
	for _, p := range strings.Split(s, ";") {
		isNested := strings.HasPrefix(p, "+")
		p = strings.TrimPrefix(p, "+")
		f := strings.SplitN(p, ":", 3)
		if len(f) != 3 {
			return nil, fmt.Errorf("bad doc %q", p)
		}
		m, err1 := strconv.ParseUint(f[0], 10, 64)
		r, err2 := strconv.ParseUint(f[1], 10, 64)
		if err1 != nil || err2 != nil {
			return nil, fmt.Errorf("bad doc id %q", p)
		}
		d := doc{id: seq.ID{MID: seq.MID(m), RID: seq.RID(r)}}
		if f[2] != "-" {
			for _, t := range strings.Split(f[2], "&") {
				kv := strings.SplitN(t, "=", 2)
				if len(kv) != 2 {
					return nil, fmt.Errorf("bad token %q", t)
				}
				k, _ := unhx(kv[0])
				v, _ := unhx(kv[1])
				d.toks = append(d.toks, [2]string{k, v})
			}
		}
		if isNested && len(docs) > 0 {
			docs[len(docs)-1].nested = append(docs[len(docs)-1].nested, d.toks)
			continue
		}
		docs = append(docs, d)
	}
	return docs, nil
}

// corpus: distinct IDs (the active fraction drops re-delivered IDs, property C17), many equal mids,
// arrival order shuffled (out-of-order arrival).
func (g gen) corpus(n, maxMid int) []doc {
	seen := map[seq.ID]bool{}
	var docs []doc
	for len(docs) < n {
		rid := uint64(g.r.Intn(2 * n))
		switch g.r.Intn(8) {
		case 0:
			rid = ^uint64(0)
		case 1:
			rid = 0
		}
		id := seq.ID{MID: seq.MID(g.r.Range(1, maxMid)), RID: seq.RID(rid)}
		if seen[id] {
			continue
		}
		seen[id] = true
		docs = append(docs, doc{id: id, toks: g.docTokens()})
	}
	return docs
}

// nestedCorpus: like corpus, about half of the documents carry 1..3 nested metas (field "s")
func (g gen) nestedCorpus(n, maxMid int) []doc {
	docs := g.corpus(n, maxMid)
	for i := range docs {
		if g.r.Bool() {
			continue
		}
		for k := g.r.Range(1, 3); k > 0; k-- {
			t := [][2]string{{"_all_", ""}}
			for j := g.r.Range(1, 2); j > 0; j-- {
				t = append(t, [2]string{"s", g.pick(textVocab)})
			}
			docs[i].nested = append(docs[i].nested, append(t, docs[i].toks[1:]...))
		}
	}
	return docs
}

// nestedLeaf: leaves over the nested field "s" next to the usual ones
func (g gen) nestedLeaf() *parser.ASTNode {
	if g.r.Chance(1, 3) {
		if g.r.Bool() {
			return lit("s", g.pick(textVocab))
		}
		return lit("s", "*")
	}
	return g.leaf()
}

// step: one question asked when `n` documents of the corpus had been ingested (n = len(docs): final state).
type step struct {
	n   int
	w   window
	ast *parser.ASTNode
	enc string
}

// history of one corpus: bulk size, documents in arrival order, every question in the order it was asked.
// A token's posting list goes through one sort-and-merge round (TokenLIDs.GetLIDs / mergeSorted) each time a
// question touches it after new documents arrived, so the history is part of the input.
type history struct {
	bulk  int
	docs  []doc
	steps []step
	// half: one more document whose bulk is half indexed (ids and field tokens, not yet `_all_`) when the steps
	// with n = len(docs)+1 are asked, on a second fraction built from the same documents
	half *doc
	// sealedOnly: ask only the sealed forms (large corpora)
	sealedOnly bool
}

func (h *history) lines() []string {
	ls := []string{fmt.Sprintf("corpus %d %s", h.bulk, docsStringM(h.docs, "+"))}
	if h.half != nil {
		ls = append(ls, "half "+docsString([]doc{*h.half}))
	}
	if h.sealedOnly {
		ls = append(ls, "sealedonly")
	}
	for _, s := range h.steps {
		ls = append(ls, fmt.Sprintf("ask %d %s %s", s.n, s.w, s.enc))
	}
	return ls
}

type sysCase struct {
	kind  string // active-mid (asked while documents were still arriving) | active | sealed | reopened
	n     int
	w     window
	query string
	docs  string // the documents ingested when the question was asked
	impl  string
	h     *history
	large bool
	raw   []string // multi-fraction cases carry their own replay lines
	pre   *history // pair probe: the corpus of the other fraction, ingested before this one
}

func (c sysCase) key() string {
	return fmt.Sprintf("%s %d %s %s", c.kind, c.n, c.w, c.query)
}

func (c sysCase) replay() []string {
	if c.raw != nil {
		return c.raw
	}
	var ls []string
	if c.pre != nil {
		ls = c.pre.lines()
	}
	return append(append(ls, c.h.lines()...), "expect "+c.key())
}

// activeRequest renders the arrival tables of the real fraction for ActiveIndex.search.
func activeRequest(a *frac.Active, docs []doc, w window, q string) string {
	mids, rids := frac.VerifC02Arrival(a)
	ids := make([]seq.ID, len(mids))
	lidOf := map[seq.ID]uint32{}
	for i := range mids {
		ids[i] = seq.ID{MID: seq.MID(mids[i]), RID: seq.RID(rids[i])}
		if i > 0 {
			lidOf[ids[i]] = uint32(i)
		}
	}
	pos := map[[2]string]int{}
	var toks []ftok
	for _, d := range docs {
		seen := map[[2]string]bool{}
		for _, t := range d.toks {
			if seen[t] {
				continue
			}
			seen[t] = true
			j, ok := pos[t]
			if !ok {
				j = len(toks)
				pos[t] = j
				toks = append(toks, ftok{field: t[0], val: t[1]})
			}
			toks[j].lids = append(toks[j].lids, lidOf[d.id])
		}
	}
	f := &fakeIndex{toks: toks}
	return fmt.Sprintf("active.search %s %s %s %s", w, fmtIDs(ids), f.toksString(), q)
}

// runCorpus ingests the corpus bulk by bulk, asks the mid-ingestion questions of the history at their bulk
// boundary, then asks the final questions on the active fraction, on the sealed fraction made from it and on the
// same sealed fraction re-opened from disk.
func runCorpus(e *env, h *history, act *vh.Channel) ([]sysCase, error) {
	var cases []sysCase
	docs := h.docs
	ask := func(a *frac.Active, s step, kind string) {
		if h.sealedOnly {
			return
		}
		impl := searchFrac(a, s.ast, s.w)
		cases = append(cases, sysCase{kind: kind, n: s.n, w: s.w, query: s.enc, docs: docsString(docs[:s.n]), impl: impl, h: h})
		if act != nil && !hasNested(docs) {
			act.Add(activeRequest(a, docs[:s.n], s.w, s.enc), impl, nonEmpty(impl), append(s.w.tags(), "when="+kind)...)
		}
	}
	a, base, err := e.newActive(docs, h.bulk, func(a *frac.Active, n int) {
		for _, s := range h.steps {
			if s.n == n && n < len(docs) {
				ask(a, s, "active-mid")
			}
		}
	})
	if err != nil {
		return nil, err
	}
	ds := docsString(docs)
	for _, s := range h.steps {
		if s.n == len(docs) {
			ask(a, s, "active")
		}
	}
	if h.half != nil && len(docs) > 0 {
		old := debug.SetGCPercent(-1) // keep the pool's content between dirtying it and the probe
		a2, _, err := e.newActive(docs, h.bulk, nil)
		if err == nil {
			err = e.dirtyPool(len(docs) + 2)
		}
		if err != nil {
			debug.SetGCPercent(old)
			return nil, err
		}
		halfIndex(a2, *h.half)
		for _, s := range h.steps {
			if s.n == len(docs)+1 { // the half-indexed document is not part of any answer
				if err := e.dirtyPool(len(docs) + 2); err != nil {
					break
				}
				cases = append(cases, sysCase{kind: "active-half", n: s.n, w: s.w, query: s.enc, docs: ds, impl: searchFrac(a2, s.ast, s.w), h: h})
			}
		}
		debug.SetGCPercent(old)
		a2.Release()
	}
	if len(docs) == 0 {
		a.Release()
		return cases, nil
	}
	for _, c := range cases {
		if c.impl == "hang" { // a search is still running inside the active fraction and holds its read lock: do not seal
			return cases, nil
		}
	}
	pre, re, err := e.seal(a, base)
	if err != nil {
		return nil, err
	}
	for _, s := range h.steps {
		if s.n == len(docs) {
			cases = append(cases, sysCase{kind: "sealed", n: s.n, w: s.w, query: s.enc, docs: ds, impl: searchFrac(pre, s.ast, s.w), h: h})
			cases = append(cases, sysCase{kind: "reopened", n: s.n, w: s.w, query: s.enc, docs: ds, impl: searchFrac(re, s.ast, s.w), h: h})
		}
	}
	if len(docs) <= 100 && !h.sealedOnly {
		if e.prev != nil {
			cases = append(cases, pairProbe(e.prev, &sealedRef{re, h})...)
		}
		e.prev = &sealedRef{re, h}
	}
	return cases, nil
}

func firstFinal(h *history) (step, bool) {
	for _, s := range h.steps {
		if s.n == len(h.docs) {
			return s, true
		}
	}
	return step{}, false
}

// pairProbe: a search that fails inside sealed fraction A (cancelled context), then two sealed data providers (A and
// B) alive at the same time, asked alternately A, B, A - no garbage collection in between, so that whatever the
// failed search gave back to the pools is what the two providers are built from.  Every answer is compared with
// Spec.search over the fraction's own documents.
func pairProbe(a, b *sealedRef) []sysCase {
	sa, oka := firstFinal(a.h)
	sb, okb := firstFinal(b.h)
	if !oka || !okb {
		return nil
	}
	defer debug.SetGCPercent(debug.SetGCPercent(-1))
	params := func(s step) processor.SearchParams {
		return processor.SearchParams{AST: s.ast, From: seq.MID(s.w.from), To: seq.MID(s.w.to), Limit: s.w.limit, WithTotal: s.w.withTotal, Order: s.w.order}
	}
	failed := within(20*time.Second, func() string {
		ctx, cancel := context.WithCancel(context.Background())
		cancel()
		dp, rel := a.f.DataProvider(ctx)
		defer rel()
		_, err := dp.Search(params(sa))
		if err == nil {
			return "no-error"
		}
		return "err"
	})
	var r1, r2, r3 string
	all := within(40*time.Second, func() string {
		dpA, relA := a.f.DataProvider(context.Background())
		defer relA()
		dpB, relB := b.f.DataProvider(context.Background())
		defer relB()
		r1 = safely(func() string { return qprAnswer(dpA.Search(params(sa))) })
		r2 = safely(func() string { return qprAnswer(dpB.Search(params(sb))) })
		r3 = safely(func() string { return qprAnswer(dpA.Search(params(sa))) })
		return "ok"
	})
	if all == "hang" || failed == "hang" {
		r1, r2, r3 = "hang", "hang", "hang"
	} else if all != "ok" || failed == "panic" {
		r1, r2, r3 = "panic", "panic", "panic"
	}
	da, db := docsString(a.h.docs), docsString(b.h.docs)
	return []sysCase{
		{kind: "pair-first", n: sa.n, w: sa.w, query: sa.enc, docs: da, impl: r1, h: b.h, pre: a.h},
		{kind: "pair-second", n: sb.n, w: sb.w, query: sb.enc, docs: db, impl: r2, h: b.h, pre: a.h},
		{kind: "pair-first-again", n: sa.n, w: sa.w, query: sa.enc, docs: da, impl: r3, h: b.h, pre: a.h},
	}
}

// plan draws the questions of one corpus: every query at the end, and each query with probability 1/3 at every
// bulk boundary (mid = false: only at the end).
func plan(g gen, docs []doc, bulk int, qs []*parser.ASTNode, ws []window, mid bool) *history {
	h := &history{bulk: bulk, docs: docs}
	if mid {
		for n := bulk; n < len(docs); n += bulk {
			for i := range qs {
				if g.r.Chance(1, 3) {
					h.steps = append(h.steps, step{n, ws[i], qs[i], encAST(qs[i])})
				}
			}
		}
	}
	for i := range qs {
		h.steps = append(h.steps, step{len(docs), ws[i], qs[i], encAST(qs[i])})
	}
	if mid && len(docs) > 0 && !hasNested(docs) && g.r.Chance(1, 3) {
		d := doc{id: seq.ID{MID: docs[g.r.Intn(len(docs))].id.MID, RID: seq.RID(1<<40 + uint64(len(docs)))}, toks: g.docTokens()}
		h.half = &d
		for i := range qs {
			h.steps = append(h.steps, step{len(docs) + 1, ws[i], qs[i], encAST(qs[i])})
		}
	}
	return h
}

func parseWindow(f []string) window { // order from to limit withTotal
	w := window{withTotal: f[4] == "1"}
	if f[0] == "asc" {
		w.order = seq.DocsOrderAsc
	}
	w.from, _ = strconv.ParseUint(f[1], 10, 64)
	w.to, _ = strconv.ParseUint(f[2], 10, 64)
	w.limit, _ = strconv.Atoi(f[3])
	return w
}

// replayHistories parses `corpus` / `ask` / `expect` lines; returns the histories and the expected case keys.
func replayHistories(lines []string) ([]*history, []map[string]bool, error) {
	var hs []*history
	var expects []map[string]bool
	for _, l := range lines {
		f := strings.Fields(l)
		switch {
		case len(f) == 3 && f[0] == "corpus":
			b, err := strconv.Atoi(f[1])
			if err != nil || b <= 0 {
				return nil, nil, fmt.Errorf("bad bulk size in %q", l[:min(len(l), 80)])
			}
			docs, err := parseDocs(f[2])
			if err != nil {
				return nil, nil, err
			}
			hs = append(hs, &history{bulk: b, docs: docs})
			expects = append(expects, map[string]bool{})
		case len(f) == 1 && f[0] == "sealedonly" && len(hs) > 0:
			hs[len(hs)-1].sealedOnly = true
		case len(f) == 2 && f[0] == "half" && len(hs) > 0:
			d, err := parseDocs(f[1])
			if err != nil || len(d) != 1 {
				return nil, nil, fmt.Errorf("bad half line")
			}
			hs[len(hs)-1].half = &d[0]
		case len(f) == 8 && f[0] == "ask" && len(hs) > 0:
			n, _ := strconv.Atoi(f[1])
			ast, _, err := decAST(strings.Split(f[7], "/"))
			if err != nil {
				return nil, nil, err
			}
			h := hs[len(hs)-1]
			h.steps = append(h.steps, step{n, parseWindow(f[2:7]), ast, f[7]})
		case len(f) == 9 && f[0] == "expect" && len(hs) > 0:
			expects[len(expects)-1][strings.Join(f[1:], " ")] = true
		}
	}
	return hs, expects, nil
}

func main() {
	o := vh.ParseFlags()
	logger.SetLevel(zap.FatalLevel)
	rep := vh.NewReport("C02", o)
	rng0 := vh.NewRNG(o.Seed)
	want := func(name string) bool { return o.Only == "" || o.Only == name }

	orc := vh.NewOracle("search.system", "real frac.Active, frac.Seal + NewSealedPreloaded, and NewSealed re-opened from disk, asked through DataProvider.Search, vs Spec.search over the generated documents (distinct IDs, many equal mids, shuffled arrival, several bulks; questions also asked at bulk boundaries while documents are still arriving, so posting lists go through several sort-and-merge rounds); corpora 0..60 docs (thorough: also 5000 docs spanning several ID blocks and 70000 docs whose `_all_` list exceeds one LID block), ASTs depth <= 4 over exact/prefix/suffix/infix/range leaves, windows on/off stored mids, limits 0..n+5, both orders, with/without total; non-trivial = at least one id returned")

	var sys []sysCase
	var actCh *vh.Channel
	e, err := newEnv()
	if err != nil {
		orc.Error = err.Error()
	}
	if o.Replay != "" {
		lines, err := vh.ReadReplay(o.Replay)
		if err != nil {
			fmt.Fprintln(os.Stderr, err)
			os.Exit(3)
		}
		hs, expects, err := replayHistories(lines)
		if err != nil {
			orc.Error = err.Error()
		}
		if mc, err := replayMulti(e, lines); err != nil {
			orc.Error = err.Error()
		} else {
			sys = append(sys, mc...)
		}
		for k, h := range hs {
			cs, err := runCorpus(e, h, nil)
			if err != nil {
				orc.Error = err.Error()
				continue
			}
			for _, c := range cs {
				if expects[k][c.key()] {
					sys = append(sys, c)
				}
			}
		}
	} else {
		if want("node.merge") {
			rep.AddChannel(chanNodes(o, gen{rng0.Fork()}), o.Driver)
		}
		if want("bitmask.has") {
			rep.AddChannel(chanBitmask(o, gen{vh.NewRNG(o.Seed + 80)}), o.Driver)
		}
		if want("node.rangego") {
			rep.AddChannel(chanRangeGo(o, gen{vh.NewRNG(o.Seed + 77)}), o.Driver)
		}
		if want("node.ortree") {
			rep.AddChannel(chanOrTree(o, gen{rng0.Fork()}), o.Driver)
		}
		if want("borders") {
			rep.AddChannel(chanBorders(o, gen{rng0.Fork()}), o.Driver)
		}
		if want("evaltree") {
			newStage()
			rep.AddChannel(chanEvalTree(o, gen{rng0.Fork()}), o.Driver)
		}
		if want("indexsearch") {
			newStage()
			rep.AddChannel(chanIndexSearch(o, gen{rng0.Fork()}), o.Driver)
		}
		if want("active.merge") {
			rep.AddChannel(chanActiveMerge(o, gen{rng0.Fork()}), o.Driver)
		}
		if want("sealed.lids") && e != nil {
			rep.AddChannel(chanSealedLids(o, gen{vh.NewRNG(o.Seed + 79)}, e.dir), o.Driver)
		}
		if want("active.inverse.pooled") {
			rep.AddChannel(chanActiveInversePooled(o, gen{vh.NewRNG(o.Seed + 78)}), o.Driver)
		}
		if want("active.inverse") {
			rep.AddChannel(chanActiveInverse(o, gen{rng0.Fork()}), o.Driver)
		}
		if want("search.system") && e != nil {
			newStage()
			g := gen{rng0.Fork()}
			actCh = vh.NewChannel("active.search", "real frac.Active: arrival-order mids/rids read back from the fraction, token -> arrival LIDs, DataProvider.Search vs ActiveIndex.search (sort by (mid,rid,lid), inverser, inverseLIDs, window clamp, IndexSearch model); same corpora and queries as search.system; non-trivial = at least one id returned")
			ncorp := o.Pick(250, 2500)
			for c := 0; c < ncorp; c++ {
				n := g.r.Intn(61)
				if c < 3 {
					n = c // 0, 1, 2 documents
				}
				if tooManyHangs() {
					break
				}
				maxMid := g.r.Range(1, 8)
				docs := g.corpus(n, maxMid)
				gappy := c%3 == 2 // mids 3, 6, 9, ...: holes in time inside the fraction
				if gappy {
					for i := range docs {
						docs[i].id.MID *= 3
					}
				}
				nq := o.Pick(8, 12)
				var qs []*parser.ASTNode
				var ws []window
				for k := 0; k < nq; k++ {
					q := g.ast(g.r.Range(0, 4), g.leaf)
					w := g.window(maxMid, n)
					if gappy {
						w.from, w.to = 3*w.from, 3*w.to
						if w.to/3 > uint64(maxMid)+3 { // keep MaxUint64 as it is
							w.to = ^uint64(0)
						}
						if g.r.Bool() {
							w = g.gapWindow(maxMid, n)
							switch g.r.Intn(3) { // a real NOT node: at the root, or under OR (A AND NOT B would become a NAND)
							case 0:
								q = logical(3, q)
							case 1:
								q = logical(1, g.ast(1, g.leaf), logical(3, q))
							}
						}
					}
					qs = append(qs, q)
					ws = append(ws, w)
				}
				cs, err := runCorpus(e, plan(g, docs, g.r.Range(1, 25), qs, ws, true), actCh)
				if err != nil {
					orc.Error = err.Error()
					break
				}
				sys = append(sys, cs...)
			}
			// corpora with nested metas (several LIDs per ID): compared with Spec.search over the *metas*
			// (c02_nested_result); how often `total` differs from the number of matching documents is recorded
			gn := gen{g.r.Fork()}
			for c := 0; c < o.Pick(60, 600) && orc.Error == "" && !tooManyHangs(); c++ {
				n := gn.r.Range(1, 30)
				maxMid := gn.r.Range(1, 6)
				docs := gn.nestedCorpus(n, maxMid)
				var qs []*parser.ASTNode
				var ws []window
				for k := 0; k < 6; k++ {
					qs = append(qs, gn.ast(gn.r.Range(0, 3), gn.nestedLeaf))
					ws = append(ws, gn.window(maxMid, n))
				}
				cs, err := runCorpus(e, plan(gn, docs, gn.r.Range(1, 12), qs, ws, true), nil)
				if err != nil {
					orc.Error = err.Error()
					break
				}
				sys = append(sys, cs...)
			}
			// several fractions behind fracmanager.Searcher: time pre-filter (minute distribution of sealed fractions with
			// late documents), merge of the partial results (ties on the millisecond across fractions), limit
			if orc.Error == "" && !tooManyHangs() {
				mc, err := runMulti(e, gen{vh.NewRNG(o.Seed + 81)}, o.Pick(60, 500))
				if err != nil {
					orc.Error = err.Error()
				}
				sys = append(sys, mc...)
			}
			// one token spanning three LID blocks (LIDBlockCap = 64Ki): 135000 documents all carrying `_all_`, asked on the
			// sealed forms only, windows at the old end of the fraction (beyond the token's first two LID blocks)
			if orc.Error == "" && !tooManyHangs() {
				const nBig = 135000
				docs := make([]doc, nBig)
				for k := range docs {
					i := (k * 7919) % nBig // arrival order scattered over the id range
					docs[k] = doc{id: seq.ID{MID: seq.MID(1 + i/100), RID: seq.RID(i)}, toks: [][2]string{{"_all_", ""}}}
					if i%1000 == 0 {
						docs[k].toks = append(docs[k].toks, [2]string{"a", "x"})
					}
				}
				qs := []*parser.ASTNode{lit("_all_", "*"), lit("_all_", "*"), lit("a", "x"), logical(3, lit("a", "x")), lit("_all_", "*")}
				ws := []window{
					{from: 1, to: 2, limit: 50, withTotal: true},
					{from: 1, to: 2, limit: 50, withTotal: true, order: seq.DocsOrderAsc},
					{from: 0, to: ^uint64(0), limit: 200, withTotal: true},
					{from: 1, to: 1, limit: 10, withTotal: true},
					{from: 600, to: 601, limit: 300, withTotal: true},
				}
				h := plan(g, docs, 15000, qs, ws, false)
				h.sealedOnly = true
				cs, err := runCorpus(e, h, nil)
				if err != nil {
					orc.Error = err.Error()
				}
				for i := range cs {
					cs[i].large = true
				}
				sys = append(sys, cs...)
			}
			if o.Thorough() && orc.Error == "" && !tooManyHangs() {
				// large corpora: 5000 docs (several ID blocks of 4096), 70000 docs (the `_all_` posting list exceeds one
				// LID block of 64Ki, windows narrow so that the borders cut inside blocks)
				for _, big := range []struct{ n, maxMid, nq, width, bulk int }{{5000, 40, 10, 40, 700}, {70000, 3000, 6, 30, 7000}} {
					docs := g.corpus(big.n, big.maxMid)
					var qs []*parser.ASTNode
					var ws []window
					for k := 0; k < big.nq; k++ {
						qs = append(qs, g.ast(g.r.Range(0, 3), g.leaf))
						w := g.window(big.maxMid, big.n)
						if big.width < big.maxMid {
							w.from = uint64(g.r.Range(1, big.maxMid))
							w.to = w.from + uint64(g.r.Intn(big.width))
						}
						if w.limit > 200 {
							w.limit = g.r.Range(1, 200)
						}
						ws = append(ws, w)
					}
					cs, err := runCorpus(e, plan(g, docs, big.bulk, qs, ws, false), nil)
					if err != nil {
						orc.Error = err.Error()
						break
					}
					for i := range cs {
						cs[i].large = true
					}
					sys = append(sys, cs...)
				}
			}
		}
	}
	if e != nil {
		e.close()
	}
	if actCh != nil {
		rep.AddChannel(actCh, o.Driver)
	}

	// system oracle: ask the driver for Spec.search and compare
	if len(sys) > 0 {
		reqs := make([]string, len(sys))
		for i, c := range sys {
			reqs[i] = fmt.Sprintf("spec.search %s %s %s", c.w, c.docs, c.query)
		}
		// for corpora with nested metas and a requested total: the number of matching *documents* = number of
		// distinct matching IDs = length of the Spec's id list with an unreachable limit
		var nestedIdx []int
		for i, c := range sys {
			if c.h != nil && hasNested(c.h.docs) && c.w.withTotal {
				nestedIdx = append(nestedIdx, i)
				w := c.w
				w.limit = 1 << 40
				reqs = append(reqs, fmt.Sprintf("spec.search %s %s %s", w, c.docs, c.query))
			}
		}
		spec, err := vh.AskDriver(o.Driver, reqs)
		if err != nil {
			orc.Error = err.Error()
		} else {
			nestedDiff, nestedSame, example, exIdx := 0, 0, "", -1
			for k, i := range nestedIdx {
				f := strings.Fields(spec[len(sys)+k])
				fi := strings.Fields(sys[i].impl)
				if len(f) != 3 || len(fi) != 3 {
					continue
				}
				docTotal := 0
				if f[1] != "-" {
					docTotal = len(strings.Split(f[1], ","))
				}
				if fi[2] != strconv.Itoa(docTotal) {
					nestedDiff++
					if example == "" || len(sys[i].docs) < len(example) {
						example = fmt.Sprintf("docs=%s query=%s window=%s: total=%s, matching documents=%d", sys[i].docs, sys[i].query, sys[i].w, fi[2], docTotal)
						exIdx = i
					}
				} else {
					nestedSame++
				}
			}
			if nestedDiff+nestedSame > 0 {
				orc.Distribution["nested/total=documents"] += nestedSame
				orc.Distribution["nested/total>documents"] += nestedDiff
				if nestedDiff > 0 {
					rep.Note("nested metas: `total` counts matching metas, not matching documents, in %d of %d searches with total over corpora with nested metas (agrees with the model, c02_nested_result / c02_nested_total_witness); smallest example: %s", nestedDiff, nestedDiff+nestedSame, trunc(example))
					if nestedTotalIsViolation {
						rep.Violate(vh.Violation{Site: "frac/processor/search.go:iterateEvalTree", Class: "nested-total-counts-metas", What: "total counts the metas of nested documents: " + trunc(example), Replay: sys[exIdx].replay()})
					}
				}
			}
			for i, c := range sys {
				kind := c.kind
				label := c.kind
				if c.large {
					label += "-large"
				}
				if c.h != nil && hasNested(c.h.docs) {
					label += "-nested"
				}
				tags := append(c.w.tags(), "frac="+label)
				if nonEmpty(c.impl) {
					tags = append(tags, "nonempty/"+label)
				}
				orc.Case(vh.Hash(c.key(), c.docs), nonEmpty(c.impl), tags...)
				if spec[i] == "bad-op" {
					orc.Error = "driver answered bad-op for " + reqs[i][:min(200, len(reqs[i]))]
					continue
				}
				if c.impl != spec[i] {
					site := "frac/active_index.go:activeDataProvider.Search"
					if kind == "multi" {
						site = "fracmanager/searcher.go:Searcher.SearchDocs"
					} else if !strings.HasPrefix(kind, "active") {
						site = "frac/sealed_index.go:sealedDataProvider.Search"
					}
					what := fmt.Sprintf("%s fraction answered %q, Spec.search says %q", label, trunc(c.impl), trunc(spec[i]))
					rep.Violate(vh.Violation{Site: site, Class: "search-differs-from-spec/" + ord(c.w.order), What: what, Replay: c.replay()})
				}
			}
		}
	}
	rep.AddOracle(orc)
	if o.Replay != "" {
		lines, _ := vh.ReadReplay(o.Replay)
		rep.AddOracle(runAPIRequests(o, gen{vh.NewRNG(o.Seed + 82)}, rep, append([]string{}, lines...)))
	} else if want("proxy.apirequest") {
		rep.AddOracle(runAPIRequests(o, gen{vh.NewRNG(o.Seed + 82)}, rep, nil))
	}
	rep.Write(o.Out)
}

// nestedTotalIsViolation: DESIGN section 7 lists "nested documents making total count metas" as not counted as a
// defect; the oracle records it as a note.  Set to true (and add the known_findings entry) to report it.
const nestedTotalIsViolation = true

func trunc(s string) string {
	if len(s) > 300 {
		return s[:300] + "..."
	}
	return s
}
