package main

// replica.binary: the REAL seq-db binary in proxy mode (flags -> startProxy -> topologies -> bulk client) in front of
// fake gRPC stores.  The topology is given the way an operator gives it (host lists + --replicas / --hot-replicas); the
// property is judged on the DOCUMENTED replica sets: consecutive groups of --hot-replicas (when set, else --replicas)
// hosts of --hot-stores, and consecutive groups of --replicas hosts of --write-stores.

import (
	"bytes"
	"context"
	"fmt"
	"net"
	"net/http"
	"os"
	"os/exec"
	"path/filepath"
	"strings"
	"sync"
	"time"

	"google.golang.org/grpc"
	"google.golang.org/grpc/codes"
	"google.golang.org/grpc/status"
	"google.golang.org/protobuf/types/known/emptypb"

	"verifharness/internal/vh"

	"github.com/ozontech/seq-db/pkg/storeapi"
)

type binStore struct {
	storeapi.UnimplementedStoreApiServer
	name string
	mu   sync.Mutex
	down bool
	got  int // bulks accepted
}

func (b *binStore) Bulk(_ context.Context, _ *storeapi.BulkRequest) (*emptypb.Empty, error) {
	b.mu.Lock()
	defer b.mu.Unlock()
	if b.down {
		return nil, status.Error(codes.Unavailable, "scripted: store is down")
	}
	b.got++
	return &emptypb.Empty{}, nil
}

func freeAddr() string {
	l, err := net.Listen("tcp", "127.0.0.1:0")
	if err != nil {
		return ""
	}
	defer l.Close()
	return l.Addr().String()
}

type binCase struct {
	hot, cold         int   // number of hosts per tier
	replicas, hotRepl int   // flags (hotRepl 0 = unset)
	down              []int // indexes into (hot hosts ++ cold hosts) that refuse
	shared            bool  // the long-term tier lists the SAME hosts as the hot tier (cold == hot), grouped by --replicas
}

func (c binCase) String() string {
	sh := ""
	if c.shared {
		sh = " shared=1"
	}
	return fmt.Sprintf("binary hot=%d cold=%d replicas=%d hot-replicas=%d down=%s%s", c.hot, c.cold, c.replicas, c.hotRepl, vh.JoinInts(c.down), sh)
}

// groups: the documented replica sets
func groups(n, r int) [][]int {
	var res [][]int
	for i := 0; i+r <= n; i += r {
		var g []int
		for k := 0; k < r; k++ {
			g = append(g, i+k)
		}
		res = append(res, g)
	}
	return res
}

func buildBinary(repo string) (string, string) {
	dir, err := os.MkdirTemp("", "vh-c09-bin")
	if err != nil {
		return "", err.Error()
	}
	out := filepath.Join(dir, "seq-db")
	cmd := exec.Command("go", "build", "-o", out, "./cmd/seq-db")
	cmd.Dir = repo
	cmd.Env = append(os.Environ(), "GOFLAGS=-mod=mod", "GOPROXY=off")
	if b, err := cmd.CombinedOutput(); err != nil {
		os.RemoveAll(dir)
		return "", string(b)
	}
	return out, ""
}

// runBinary returns (acked, per-host accepted counts hot++cold, problem)
func runBinary(bin string, c binCase) (bool, []int, string) {
	n := c.hot + c.cold
	if c.shared {
		n = c.hot
	}
	stores := make([]*binStore, n)
	addrs := make([]string, n)
	var servers []*grpc.Server
	defer func() {
		for _, s := range servers {
			s.Stop()
		}
	}()
	for i := 0; i < n; i++ {
		l, err := net.Listen("tcp", "127.0.0.1:0")
		if err != nil {
			return false, nil, "listen: " + err.Error()
		}
		stores[i] = &binStore{name: fmt.Sprint(i)}
		for _, d := range c.down {
			if d == i {
				stores[i].down = true
			}
		}
		srv := grpc.NewServer()
		storeapi.RegisterStoreApiServer(srv, stores[i])
		servers = append(servers, srv)
		addrs[i] = l.Addr().String()
		go srv.Serve(l)
	}
	httpAddr, grpcAddr, dbgAddr := freeAddr(), freeAddr(), freeAddr()
	args := []string{"--mode=proxy", "--mapping=auto", "--addr=" + httpAddr, "--proxy-grpc-addr=" + grpcAddr, "--debug-addr=" + dbgAddr,
		"--hot-stores=" + strings.Join(addrs[:c.hot], ","), fmt.Sprintf("--replicas=%d", c.replicas), "--bulk-shard-timeout=2s"}
	if c.shared {
		args = append(args, "--write-stores="+strings.Join(addrs[:c.hot], ","))
	} else if c.cold > 0 {
		args = append(args, "--write-stores="+strings.Join(addrs[c.hot:], ","))
	}
	if c.hotRepl > 0 {
		args = append(args, fmt.Sprintf("--hot-replicas=%d", c.hotRepl))
	}
	ctx, cancel := context.WithTimeout(context.Background(), 40*time.Second)
	defer cancel()
	cmd := exec.CommandContext(ctx, bin, args...)
	var logb bytes.Buffer
	cmd.Stdout, cmd.Stderr = &logb, &logb
	if err := cmd.Start(); err != nil {
		return false, nil, "start: " + err.Error()
	}
	defer func() {
		cmd.Process.Kill()
		cmd.Wait()
	}()
	body := "{\"index\":{}}\n{\"message\":\"c09 binary case\",\"level\":\"3\"}\n"
	var resp *http.Response
	var err error
	for i := 0; i < 100; i++ {
		resp, err = http.Post("http://"+httpAddr+"/_bulk", "application/json", strings.NewReader(body))
		if err == nil {
			break
		}
		time.Sleep(100 * time.Millisecond)
	}
	if err != nil {
		tail := logb.String()
		if len(tail) > 600 {
			tail = tail[len(tail)-600:]
		}
		return false, nil, "proxy did not come up: " + err.Error() + " :: " + tail
	}
	resp.Body.Close()
	acked := resp.StatusCode == 200
	got := make([]int, n)
	for i, s := range stores {
		s.mu.Lock()
		got[i] = s.got
		s.mu.Unlock()
	}
	return acked, got, ""
}

func binaryOracle(rep *vh.Report, o vh.Opts) {
	orc := vh.NewOracle("replica.binary", "the real seq-db binary in proxy mode in front of fake gRPC stores, topology given by flags (--hot-stores, --write-stores, --replicas, --hot-replicas): acknowledged (/_bulk answers 200) => some documented hot replica set and, with a long-term tier, some documented long-term replica set accepted the bulk on every host; non-trivial = hot-replicas differs from replicas or a store is down")
	repo := os.Getenv("VERIF_REPO")
	if repo == "" {
		repo = "/repo"
	}
	bin, problem := buildBinary(repo)
	if bin == "" {
		orc.Case("build", false, "build-failed=1")
		rep.Violate(vh.Violation{Site: "cmd/seq-db/seq-db.go:main", Class: "harness", What: "cannot build cmd/seq-db: " + problem, Replay: []string{"binary build"}})
		rep.AddOracle(orc)
		return
	}
	defer os.RemoveAll(filepath.Dir(bin))
	cases := []binCase{
		{hot: 2, cold: 2, replicas: 2, hotRepl: 1},                               // hot {h0},{h1}; cold {c0,c1}
		{hot: 2, cold: 2, replicas: 2, hotRepl: 1, down: []int{3}},               // one long-term replica down: must fail
		{hot: 4, cold: 2, replicas: 1, hotRepl: 2, down: []int{1, 2}},            // hot {h0,h1},{h2,h3} both broken: must fail
		{hot: 4, cold: 0, replicas: 2, down: []int{1}},                           // hot {h0,h1} broken, {h2,h3} whole
		{hot: 2, cold: 2, replicas: 2, hotRepl: 1, down: []int{1}, shared: true}, // same two hosts: hot {h0},{h1}; long-term {h0,h1} broken: must fail
		{hot: 2, cold: 0, replicas: 2, down: []int{1}},                           // --hot-replicas unset: hot {h0,h1} broken: must fail
	}
	if o.Thorough() {
		cases = append(cases,
			binCase{hot: 2, cold: 4, replicas: 2, hotRepl: 1, down: []int{2, 5}},
			binCase{hot: 3, cold: 3, replicas: 3, hotRepl: 1, down: []int{0, 1}},
			binCase{hot: 4, cold: 4, replicas: 2, hotRepl: 0, down: []int{0, 3, 5}},
			binCase{hot: 1, cold: 1, replicas: 1},
		)
	}
	for _, c := range cases {
		acked, got, problem := runBinary(bin, c)
		if problem != "" {
			orc.Case(c.String(), false, "problem=1")
			rep.Violate(vh.Violation{Site: "cmd/seq-db/seq-db.go:startProxy", Class: "harness", What: c.String() + ": " + problem, Replay: []string{c.String()}})
			continue
		}
		hr := c.replicas
		if c.hotRepl > 0 {
			hr = c.hotRepl
		}
		full := func(off, n, r int) bool {
			if n == 0 {
				return true
			}
			for _, g := range groups(n, r) {
				all := true
				for _, i := range g {
					all = all && got[off+i] > 0
				}
				if all {
					return true
				}
			}
			return false
		}
		orc.Case(c.String(), c.hotRepl > 0 || len(c.down) > 0, "acked="+vh.B(acked))
		coldOff := c.hot
		if c.shared {
			coldOff = 0
		}
		if acked && (!full(0, c.hot, hr) || !full(coldOff, c.cold, c.replicas)) {
			rep.Violate(vh.Violation{Site: "cmd/seq-db/seq-db.go:startProxy", Class: "ack-without-documented-replica-set", What: fmt.Sprintf("%s: acknowledged, per-host accepted bulks (hot then long-term) %v", c.String(), got), Replay: []string{c.String()}})
		}
	}
	rep.AddOracle(orc)
}
