// C09 harness: the real proxy/bulk.SeqDBClient (with the real circuit breaker) against scripted
// StoreApiClient fakes.  The visiting order is chosen by the harness through the verif shuffle hook,
// the per-visit result is observed through the "bulk.visit" point, and the whole observed trace is
// given to the Lean model (SV.Replica.storeDocuments) as its oracle: trace validation.
// Independently of the model, the system oracle checks the property itself on the fakes' logs.
package main

import (
	"bytes"
	"context"
	"errors"
	"fmt"
	"os"
	"strings"
	"sync"
	"time"

	"go.uber.org/zap"
	"google.golang.org/grpc"
	"google.golang.org/grpc/codes"
	"google.golang.org/grpc/status"
	"google.golang.org/protobuf/types/known/emptypb"

	"github.com/ozontech/seq-db/logger"
	"github.com/ozontech/seq-db/network/circuitbreaker"
	"github.com/ozontech/seq-db/pkg/storeapi"
	"github.com/ozontech/seq-db/proxy/bulk"
	"github.com/ozontech/seq-db/proxy/stores"
	"github.com/ozontech/seq-db/verifhook"

	"verifharness/internal/vh"
)

type call struct {
	host string
	ok   bool
	same bool // payload identical to what the client was asked to store
}

type world struct {
	mu       sync.Mutex
	script   map[string][]bool // host -> outcome of its n-th call (default: ok)
	hang     map[string]int    // host -> 1-based index of the call that blocks until the request context is done
	slowMs   int               // > 0: a hanging call answers after slowMs (with its scripted outcome) unless its context ends first
	ncalls   map[string]int
	events   []string // "S n" shuffle, "V shard ok", "C host ok"
	calls    []call
	payload  *storeapi.BulkRequest
	panicked string
}

type fake struct {
	storeapi.StoreApiClient
	host string
	w    *world
}

func (f *fake) Bulk(ctx context.Context, in *storeapi.BulkRequest, _ ...grpc.CallOption) (*emptypb.Empty, error) {
	w := f.w
	w.mu.Lock()
	n := w.ncalls[f.host]
	w.ncalls[f.host] = n + 1
	ok := true
	if s := w.script[f.host]; n < len(s) {
		ok = s[n]
	}
	hang := w.hang[f.host] == n+1
	w.mu.Unlock()
	if hang {
		if w.slowMs > 0 {
			select {
			case <-ctx.Done():
			case <-time.After(time.Duration(w.slowMs) * time.Millisecond): // a slow replica: answers late, but answers
			}
		} else {
			<-ctx.Done() // a replica that does not answer before the request deadline
		}
	}
	ctxErr := ctx.Err()
	if ctxErr != nil {
		ok = false // a real gRPC call on a finished context fails
	}
	w.mu.Lock()
	defer w.mu.Unlock()
	same := in.Count == w.payload.Count && bytes.Equal(in.Docs, w.payload.Docs) && bytes.Equal(in.Metas, w.payload.Metas)
	w.calls = append(w.calls, call{f.host, ok, same})
	w.events = append(w.events, fmt.Sprintf("C %s %s", f.host, vh.B(ok)))
	if ctxErr != nil {
		return nil, status.FromContextError(ctxErr).Err() // what a gRPC client returns: code Canceled / DeadlineExceeded
	}
	if !ok {
		return nil, failErr(f.host, n)
	}
	return &emptypb.Empty{}, nil
}

// failErr: the failures a store can answer with, chosen by host and call index (deterministic per case).  Every one of
// them is a failed call: none may count as written, whatever its gRPC code.
func failErr(host string, n int) error {
	k := n
	for _, ch := range host {
		k += int(ch)
	}
	switch k % 6 {
	case 0:
		return errors.New("scripted failure")
	case 1:
		return status.Error(codes.Canceled, "store is shutting down")
	case 2:
		return status.Error(codes.DeadlineExceeded, "scripted timeout")
	case 3:
		return status.Error(codes.Unavailable, "scripted unavailable")
	case 4:
		return context.Canceled
	default:
		return status.Error(codes.ResourceExhausted, "scripted overload")
	}
}

type tcase struct {
	coldS, coldR, hotS, hotR int
	perms                    [][]int           // consumed by successive shuffles
	script                   map[string][]bool // host -> outcomes
	deadlineMs               int               // > 0: the request context carries this deadline
	hang                     map[string]int    // host -> 1-based call index that blocks until the deadline
	slowMs                   int               // > 0: hanging calls answer after slowMs instead (no deadline needed)
}

func (c tcase) String() string {
	var sb strings.Builder
	fmt.Fprintf(&sb, "case %d %d %d %d perms=", c.coldS, c.coldR, c.hotS, c.hotR)
	for i, p := range c.perms {
		if i > 0 {
			sb.WriteByte(';')
		}
		sb.WriteString(vh.JoinInts(p))
	}
	sb.WriteString(" script=")
	for i, h := range vh.SortedKeys(c.script) {
		if i > 0 {
			sb.WriteByte(';')
		}
		sb.WriteString(h + ":")
		for _, b := range c.script[h] {
			sb.WriteString(vh.B(b))
		}
	}
	if c.deadlineMs > 0 || c.slowMs > 0 {
		fmt.Fprintf(&sb, " deadline=%d hang=", c.deadlineMs)
		for i, h := range vh.SortedKeys(c.hang) {
			if i > 0 {
				sb.WriteByte(';')
			}
			fmt.Fprintf(&sb, "%s:%d", h, c.hang[h])
		}
		if len(c.hang) == 0 {
			sb.WriteByte('-')
		}
		if c.slowMs > 0 {
			fmt.Fprintf(&sb, " slow=%d", c.slowMs)
		}
	}
	return sb.String()
}

func parseCase(line string) (tcase, error) {
	var c tcase
	var perms, script string
	if _, err := fmt.Sscanf(line, "case %d %d %d %d perms=%s script=%s", &c.coldS, &c.coldR, &c.hotS, &c.hotR, &perms, &script); err != nil {
		return c, err
	}
	for _, p := range strings.Split(perms, ";") {
		var perm []int
		if p != "-" && p != "" {
			for _, x := range strings.Split(p, ",") {
				var v int
				fmt.Sscanf(x, "%d", &v)
				perm = append(perm, v)
			}
		}
		c.perms = append(c.perms, perm)
	}
	if i := strings.Index(line, " deadline="); i >= 0 {
		var hang string
		fmt.Sscanf(line[i:], " deadline=%d hang=%s", &c.deadlineMs, &hang)
		c.hang = map[string]int{}
		if j := strings.Index(line, " slow="); j >= 0 {
			fmt.Sscanf(line[j:], " slow=%d", &c.slowMs)
		}
		for _, h := range strings.Split(hang, ";") {
			if kv := strings.SplitN(h, ":", 2); len(kv) == 2 {
				var n int
				fmt.Sscanf(kv[1], "%d", &n)
				c.hang[kv[0]] = n
			}
		}
	}
	c.script = map[string][]bool{}
	for _, h := range strings.Split(script, ";") {
		kv := strings.SplitN(h, ":", 2)
		if len(kv) != 2 {
			continue
		}
		var outs []bool
		for _, ch := range kv[1] {
			outs = append(outs, ch == '1')
		}
		c.script[kv[0]] = outs
	}
	return c, nil
}

func hostName(tier string, s, r int) string { return fmt.Sprintf("%s%d_%d", tier, s, r) }

func hosts(tier string, S, R int) [][]string {
	res := make([][]string, S)
	for s := range res {
		for r := 0; r < R; r++ {
			res[s] = append(res[s], hostName(tier, s, r))
		}
	}
	return res
}

// mkStores builds the topology the way the proxy does from its flags: the comma separated host list, in the documented
// order (replica sets are consecutive groups of R hosts), goes through the real stores.NewStoresFromString.  The property
// is judged on the documented replica sets (hostName(tier, s, r)), so a parser that groups differently is visible.
func mkStores(tier string, S, R int) *stores.Stores {
	var flat []string
	for _, sh := range hosts(tier, S, R) {
		flat = append(flat, sh...)
	}
	return stores.NewStoresFromString(strings.Join(flat, ","), max(R, 1))
}

var breakerCfg = circuitbreaker.Config{
	Timeout:                  2 * time.Second,
	MaxConcurrent:            100,
	NumBuckets:               10,
	BucketWidth:              50 * time.Millisecond,
	RequestVolumeThreshold:   4,
	ErrorThresholdPercentage: 70,
	SleepWindow:              30 * time.Millisecond,
}

// run executes one case on the real client and returns (acked, events).
func run(c tcase) (bool, *world) {
	w := &world{script: c.script, hang: c.hang, slowMs: c.slowMs, ncalls: map[string]int{}}
	clients := map[string]storeapi.StoreApiClient{}
	for _, t := range []struct {
		tier string
		S, R int
	}{{"c", c.coldS, c.coldR}, {"h", c.hotS, c.hotR}} {
		for s := 0; s < t.S; s++ {
			for r := 0; r < t.R; r++ {
				h := hostName(t.tier, s, r)
				clients[h] = &fake{host: h, w: w}
			}
		}
	}
	nperm := 0
	verifhook.SetShuffle(func(n int) []int {
		w.mu.Lock()
		defer w.mu.Unlock()
		var p []int
		if nperm < len(c.perms) && len(c.perms[nperm]) == n {
			p = append(p, c.perms[nperm]...)
		} else {
			for i := 0; i < n; i++ {
				p = append(p, i)
			}
		}
		nperm++
		w.events = append(w.events, "S "+vh.JoinInts(p))
		return p
	})
	verifhook.Set(func(name, _ string, args []int64) {
		if name == "bulk.visit" {
			w.mu.Lock()
			w.events = append(w.events, fmt.Sprintf("V %d %d", args[0], args[1]))
			w.mu.Unlock()
		}
	})
	defer verifhook.Set(nil)
	defer verifhook.SetShuffle(nil)

	cl := bulk.NewSeqDBClient(mkStores("h", c.hotS, c.hotR), mkStores("c", c.coldS, c.coldR), breakerCfg, clients)
	docs := []byte(fmt.Sprintf("docs-%d-%d", c.hotS, len(c.perms)))
	metas := []byte("metas-" + vh.Hash(c.String()))
	w.payload = &storeapi.BulkRequest{Count: 3, Docs: docs, Metas: metas}
	ctx := context.Background()
	if c.deadlineMs > 0 {
		var cancel context.CancelFunc
		ctx, cancel = context.WithTimeout(ctx, time.Duration(c.deadlineMs)*time.Millisecond)
		defer cancel()
	}
	var err error
	func() {
		defer func() {
			if r := recover(); r != nil {
				w.panicked = fmt.Sprint(r)
				err = errors.New("panic")
			}
		}()
		err = cl.StoreDocuments(ctx, 3, docs, metas)
	}()
	return err == nil, w
}

// toModel turns the observed event list into the model's oracle (attempts of cold/hot visit lists) and
// the observed canonical answer.  Event grammar: each sendBulkToStores on a non-empty tier starts with
// one shuffle event "S", followed per visited shard by its replica calls "C" and one visit point "V".
// The tier of a segment follows the code's structure: long-term first until it succeeded once.
func toModel(c tcase, acked bool, w *world) (req string, impl string, tags []string) {
	type visit struct {
		shard int
		ok    bool
		calls map[string]bool
	}
	var segs [][]visit
	calls := map[string]bool{}
	for _, e := range w.events {
		f := strings.Fields(e)
		switch f[0] {
		case "S":
			segs = append(segs, nil)
			calls = map[string]bool{}
		case "C":
			calls[f[1]] = f[2] == "1"
		case "V":
			var s, ok int
			fmt.Sscanf(f[1], "%d", &s)
			fmt.Sscanf(f[2], "%d", &ok)
			if len(segs) == 0 {
				segs = append(segs, nil)
			}
			segs[len(segs)-1] = append(segs[len(segs)-1], visit{s, ok == 1, calls})
			calls = map[string]bool{}
		}
	}
	var coldLog, hotLog []string
	fmtVisits := func(tier string, R int, seg []visit, log *[]string) string {
		var vs []string
		for _, v := range seg {
			called, allOk := 0, true
			var bits strings.Builder
			for r := 0; r < R; r++ {
				ok, was := v.calls[hostName(tier, v.shard, r)]
				switch {
				case !was:
					bits.WriteByte('0')
				case ok:
					bits.WriteByte('1')
					called++
					*log = append(*log, fmt.Sprintf("%d:%d", v.shard, r))
				default:
					bits.WriteByte('0')
					called++
					allOk = false
				}
			}
			var callS string
			switch {
			case called == 0 && !v.ok:
				callS = "o"
				tags = append(tags, "call=open-or-rejected")
			case allOk && !v.ok:
				callS = "e" + bits.String() + "t"
				tags = append(tags, "call=late")
			default:
				callS = "e" + bits.String() + "n"
				if called == 0 {
					tags = append(tags, "call=all-skipped")
				} else if allOk {
					tags = append(tags, "call=all-ok")
				} else {
					tags = append(tags, "call=some-failed")
				}
			}
			vs = append(vs, fmt.Sprintf("%d:%s", v.shard, callS))
		}
		return vs2s(vs)
	}
	coldWritten := c.coldS == 0
	var attempts []string
	for i := 0; i < len(segs); {
		coldV, hotV := "-", "-"
		if !coldWritten {
			seg := segs[i]
			i++
			coldV = fmtVisits("c", c.coldR, seg, &coldLog)
			if len(seg) > 0 && seg[len(seg)-1].ok {
				coldWritten = true
			} else {
				attempts = append(attempts, coldV+"|"+hotV)
				continue
			}
		}
		if c.hotS > 0 && i < len(segs) {
			hotV = fmtVisits("h", c.hotR, segs[i], &hotLog)
			i++
		}
		attempts = append(attempts, coldV+"|"+hotV)
	}
	if len(attempts) == 0 {
		attempts = append(attempts, "-|-") // both tiers empty: one attempt with nothing to do
	}
	req = fmt.Sprintf("replica %d %d %d %d %s", c.coldS, c.coldR, c.hotS, c.hotR, strings.Join(attempts, ";"))
	impl = fmt.Sprintf("ok %s coldlog=%s hotlog=%s", vh.B(acked), vs2s(coldLog), vs2s(hotLog))
	tags = append(tags, fmt.Sprintf("attempts=%d", len(attempts)), "acked="+vh.B(acked))
	return req, impl, tags
}

func vs2s(v []string) string {
	if len(v) == 0 {
		return "-"
	}
	return strings.Join(v, ",")
}

// propertyHolds checks C09 itself on the fakes' logs: acked => a full replica set per configured tier
// accepted exactly the payload.
func propertyHolds(c tcase, acked bool, w *world) (bool, string) {
	if !acked {
		return true, ""
	}
	full := func(tier string, S, R int) bool {
		if S == 0 {
			return true
		}
		for s := 0; s < S; s++ {
			all := true
			for r := 0; r < R; r++ {
				got := false
				for _, cl := range w.calls {
					if cl.host == hostName(tier, s, r) && cl.ok && cl.same {
						got = true
					}
				}
				all = all && got
			}
			if all {
				return true
			}
		}
		return false
	}
	if !full("h", c.hotS, c.hotR) {
		return false, "acknowledged without a hot shard whose replicas all accepted the payload"
	}
	if !full("c", c.coldS, c.coldR) {
		return false, "acknowledged without a long-term shard whose replicas all accepted the payload"
	}
	return true, ""
}

// ---------------------------------------------------------------- concurrent bulks (oracle only)

// cworld: several bulks in flight on ONE client (shards, breakers and any per-shard buffers are shared by all
// in-flight bulks).  Outcomes and latencies are scripted per (host, payload, n-th call for that payload); the
// property is checked per payload on the call log.  No model comparison here: the model is per bulk.
type cworld struct {
	mu     sync.Mutex
	script map[string][]cout // host + "/" + payload id -> outcomes
	ncalls map[string]int
	okCall map[string]bool // host + "/" + payload id -> some successful call carried exactly that payload
}

type cout struct {
	ok      bool
	delayMs int
}

type cfake struct {
	storeapi.StoreApiClient
	host string
	w    *cworld
}

func (f *cfake) Bulk(ctx context.Context, in *storeapi.BulkRequest, _ ...grpc.CallOption) (*emptypb.Empty, error) {
	key := f.host + "/" + string(in.Metas)
	f.w.mu.Lock()
	n := f.w.ncalls[key]
	f.w.ncalls[key] = n + 1
	o := cout{ok: true}
	if sc := f.w.script[key]; n < len(sc) {
		o = sc[n]
	}
	f.w.mu.Unlock()
	if o.delayMs > 0 {
		select {
		case <-time.After(time.Duration(o.delayMs) * time.Millisecond):
		case <-ctx.Done(): // e.g. the breaker's execution timeout
		}
	}
	if err := ctx.Err(); err != nil {
		return nil, status.FromContextError(err).Err() // a call on a finished context fails, as a real gRPC call does
	}
	if !o.ok {
		return nil, failErr(f.host, n)
	}
	f.w.mu.Lock()
	if string(in.Docs) == "docs-"+string(in.Metas) {
		f.w.okCall[key] = true
	}
	f.w.mu.Unlock()
	return &emptypb.Empty{}, nil
}

// runConcurrent returns one violation description per acknowledged bulk without a full replica set.
func runConcurrent(rng *vh.RNG, hotS, hotR, coldS, coldR, nbulks int, directed bool) (cases []string, bad []string) {
	return runBulks(rng, hotS, hotR, coldS, coldR, nbulks, directed, false)
}

// runBulks: sequential = the bulks run one after the other on the one client (whatever the client keeps between
// bulks - pooled write statuses, breakers, buffers - is carried from a failed bulk into the next one).
func runBulks(rng *vh.RNG, hotS, hotR, coldS, coldR, nbulks int, directed, sequential bool) (cases []string, bad []string) {
	w := &cworld{script: map[string][]cout{}, ncalls: map[string]int{}, okCall: map[string]bool{}}
	clients := map[string]storeapi.StoreApiClient{}
	var hostsAll []string
	for _, t := range []struct {
		tier string
		S, R int
	}{{"c", coldS, coldR}, {"h", hotS, hotR}} {
		for s := 0; s < t.S; s++ {
			for r := 0; r < t.R; r++ {
				h := hostName(t.tier, s, r)
				clients[h] = &cfake{host: h, w: w}
				hostsAll = append(hostsAll, h)
			}
		}
	}
	verifhook.SetShuffle(func(n int) []int {
		p := make([]int, n)
		for i := range p {
			p[i] = i
		}
		return p
	})
	defer verifhook.SetShuffle(nil)
	cl := bulk.NewSeqDBClient(mkStores("h", hotS, hotR), mkStores("c", coldS, coldR), breakerCfg, clients)
	ids := make([]string, nbulks)
	starts := make([]int, nbulks)
	for b := 0; b < nbulks; b++ {
		ids[b] = fmt.Sprintf("p%d", b)
		starts[b] = rng.Intn(25)
		for _, h := range hostsAll {
			var outs []cout
			for k := 0; k < 3; k++ {
				outs = append(outs, cout{ok: !rng.Chance(35, 100), delayMs: rng.Intn(40)})
			}
			w.script[h+"/"+ids[b]] = outs
		}
	}
	if sequential {
		// every even bulk exhausts its tries with partial success (one replica of every shard of a tier never accepts),
		// every odd bulk meets healthy stores
		for b := 0; b < nbulks; b++ {
			for _, h := range hostsAll {
				w.script[h+"/"+ids[b]] = []cout{{true, 0}, {true, 0}, {true, 0}}
			}
			if b%2 == 0 {
				tier, S, R := "h", hotS, hotR
				if coldS > 0 && rng.Bool() {
					tier, S, R = "c", coldS, coldR
				}
				for s := 0; s < S; s++ {
					w.script[hostName(tier, s, rng.Intn(R))+"/"+ids[b]] = []cout{{false, 0}, {false, 0}, {false, 0}, {false, 0}, {false, 0}}
				}
			}
		}
	} else if directed && nbulks >= 2 && hotR >= 2 {
		// bulk 0: replica 0 of hot shard 0 always fails fast, the last replica succeeds slowly; bulk 1 enters the same
		// shard inside that window and succeeds everywhere
		h0, hl := hostName("h", 0, 0), hostName("h", 0, hotR-1)
		for _, h := range hostsAll {
			w.script[h+"/p0"] = []cout{{true, 0}, {true, 0}, {true, 0}}
			w.script[h+"/p1"] = []cout{{true, 0}, {true, 0}, {true, 0}}
		}
		w.script[h0+"/p0"] = []cout{{false, 0}, {false, 0}, {false, 0}}
		w.script[hl+"/p0"] = []cout{{true, 60}, {true, 0}, {true, 0}}
		starts[0], starts[1] = 0, 20
	}
	acked := make([]bool, nbulks)
	var wg sync.WaitGroup
	for b := 0; b < nbulks; b++ {
		wg.Add(1)
		one := func(b int) {
			defer wg.Done()
			if !sequential {
				time.Sleep(time.Duration(starts[b]) * time.Millisecond)
			}
			defer func() { recover() }()
			err := cl.StoreDocuments(context.Background(), 1, []byte("docs-"+ids[b]), []byte(ids[b]))
			acked[b] = err == nil
		}
		if sequential {
			one(b)
		} else {
			go one(b)
		}
	}
	wg.Wait()
	full := func(tier string, S, R int, id string) bool {
		if S == 0 {
			return true
		}
		for s := 0; s < S; s++ {
			all := true
			for r := 0; r < R; r++ {
				all = all && w.okCall[hostName(tier, s, r)+"/"+id]
			}
			if all {
				return true
			}
		}
		return false
	}
	for b := 0; b < nbulks; b++ {
		mode := "concurrent"
		if sequential {
			mode = "sequential"
		}
		desc := fmt.Sprintf("%s c%dx%d h%dx%d bulks=%d directed=%v bulk=%s acked=%v", mode, coldS, coldR, hotS, hotR, nbulks, directed, ids[b], acked[b])
		cases = append(cases, desc)
		if acked[b] && (!full("h", hotS, hotR, ids[b]) || !full("c", coldS, coldR, ids[b])) {
			bad = append(bad, desc)
		}
	}
	return cases, bad
}

// runBreaker: scenarios in which the circuit breaker itself ends or refuses a shard attempt.  The breaker manager is
// reset first (circuits are global by name and keep the configuration they were created with).
//
//	timeout : execution timeout 50 ms; one replica of the only hot shard needs 250 ms (always for bulk p0, only on its
//	          first call for bulk p1); the caller's context stays alive
//	throttle: MaxConcurrent = 1; several bulks in flight on one shard with 40 ms store latency, so attempts are rejected
//
// A timed-out or rejected attempt is a failed/skipped call: per payload, acknowledged => full replica set accepted it.
func runBreaker(rng *vh.RNG, kind string, coldS int) (cases []string, bad []string) {
	circuitbreaker.VerifResetC09()
	defer circuitbreaker.VerifResetC09()
	cfg := breakerCfg
	hotS, hotR, coldR := 1, 2+rng.Intn(2), 1
	w := &cworld{script: map[string][]cout{}, ncalls: map[string]int{}, okCall: map[string]bool{}}
	clients := map[string]storeapi.StoreApiClient{}
	var hostsAll []string
	for _, t := range []struct {
		tier string
		S, R int
	}{{"c", coldS, coldR}, {"h", hotS, hotR}} {
		for s := 0; s < t.S; s++ {
			for r := 0; r < t.R; r++ {
				h := hostName(t.tier, s, r)
				clients[h] = &cfake{host: h, w: w}
				hostsAll = append(hostsAll, h)
			}
		}
	}
	var ids []string
	var starts []int
	sequential := false
	switch kind {
	case "timeout":
		cfg.Timeout = 50 * time.Millisecond
		sequential = true
		ids = []string{"p0", "p1", "p2"}
		starts = []int{0, 0, 0}
		slow := hostName("h", 0, rng.Intn(hotR))
		if coldS > 0 && rng.Bool() {
			slow = hostName("c", 0, 0)
		}
		w.script[slow+"/p0"] = []cout{{true, 250}, {true, 250}, {true, 250}, {true, 250}}
		w.script[slow+"/p1"] = []cout{{true, 250}, {true, 0}, {true, 0}}
		w.script[slow+"/p2"] = []cout{{true, 0}, {true, 250}, {true, 0}}
	case "throttle":
		cfg.MaxConcurrent = 1
		n := 3 + rng.Intn(3)
		for b := 0; b < n; b++ {
			ids = append(ids, fmt.Sprintf("p%d", b))
			starts = append(starts, 4*b)
			for _, h := range hostsAll {
				w.script[h+"/"+ids[b]] = []cout{{true, 40}, {true, 40}, {true, 40}}
			}
		}
	}
	verifhook.SetShuffle(func(n int) []int {
		p := make([]int, n)
		for i := range p {
			p[i] = i
		}
		return p
	})
	defer verifhook.SetShuffle(nil)
	cl := bulk.NewSeqDBClient(mkStores("h", hotS, hotR), mkStores("c", coldS, coldR), cfg, clients)
	acked := make([]bool, len(ids))
	var wg sync.WaitGroup
	for b := range ids {
		wg.Add(1)
		one := func(b int) {
			defer wg.Done()
			time.Sleep(time.Duration(starts[b]) * time.Millisecond)
			defer func() { recover() }()
			err := cl.StoreDocuments(context.Background(), 1, []byte("docs-"+ids[b]), []byte(ids[b]))
			acked[b] = err == nil
		}
		if sequential {
			one(b)
		} else {
			go one(b)
		}
	}
	wg.Wait()
	time.Sleep(60 * time.Millisecond) // let abandoned slow calls end before the next scenario
	full := func(tier string, S, R int, id string) bool {
		if S == 0 {
			return true
		}
		for s := 0; s < S; s++ {
			all := true
			for r := 0; r < R; r++ {
				w.mu.Lock()
				all = all && w.okCall[hostName(tier, s, r)+"/"+id]
				w.mu.Unlock()
			}
			if all {
				return true
			}
		}
		return false
	}
	for b := range ids {
		desc := fmt.Sprintf("breaker %s c%dx%d h%dx%d bulk=%s acked=%v", kind, coldS, coldR, hotS, hotR, ids[b], acked[b])
		cases = append(cases, desc)
		if acked[b] && (!full("h", hotS, hotR, ids[b]) || !full("c", coldS, coldR, ids[b])) {
			bad = append(bad, desc)
		}
	}
	return cases, bad
}

func genCase(r *vh.RNG, maxS, maxR int) tcase {
	c := tcase{script: map[string][]bool{}}
	c.hotS, c.hotR = r.Range(1, maxS), r.Range(1, maxR)
	if r.Chance(3, 5) {
		c.coldS, c.coldR = r.Range(1, maxS), r.Range(1, maxR)
	}
	failPct := []int{10, 35, 60, 85}[r.Intn(4)]
	for _, t := range []struct {
		tier string
		S, R int
	}{{"c", c.coldS, c.coldR}, {"h", c.hotS, c.hotR}} {
		for s := 0; s < t.S; s++ {
			for rr := 0; rr < t.R; rr++ {
				var outs []bool
				for k := 0; k < 3; k++ {
					outs = append(outs, !r.Chance(failPct, 100))
				}
				c.script[hostName(t.tier, s, rr)] = outs
			}
		}
	}
	for k := 0; k < 6; k++ {
		if c.coldS > 0 && r.Bool() {
			c.perms = append(c.perms, r.Perm(c.coldS))
		} else {
			c.perms = append(c.perms, r.Perm(c.hotS))
		}
	}
	return c
}

func main() {
	o := vh.ParseFlags()
	logger.SetLevel(zap.FatalLevel)
	rep := vh.NewReport("C09", o)
	ch := vh.NewChannel("replica.trace", "real SeqDBClient.StoreDocuments vs SV.Replica.storeDocuments on the observed oracle (visit order from the shuffle hook, per-call outcomes from scripted fakes, visit results from the bulk.visit point); non-trivial = at least one failed or skipped call")
	orc := vh.NewOracle("replica.property", "acknowledged => full replica set per tier with the exact payload, checked on the fakes' call logs; non-trivial = acknowledged after at least one failed call")

	var cases []tcase
	if o.Replay != "" {
		lines, err := vh.ReadReplay(o.Replay)
		if err != nil {
			fmt.Fprintln(os.Stderr, err)
			os.Exit(3)
		}
		for _, l := range lines {
			if c, err := parseCase(l); err == nil {
				cases = append(cases, c)
			}
		}
	} else {
		rng := vh.NewRNG(o.Seed)
		// small scope: 1x1, 1x2, 2x1 hot topologies with every 2-call script, both orders
		for _, top := range [][4]int{{0, 0, 1, 1}, {0, 0, 1, 2}, {0, 0, 2, 1}, {1, 1, 1, 1}, {1, 2, 1, 2}} {
			var hs []string
			for s := 0; s < top[0]; s++ {
				for r := 0; r < top[1]; r++ {
					hs = append(hs, hostName("c", s, r))
				}
			}
			for s := 0; s < top[2]; s++ {
				for r := 0; r < top[3]; r++ {
					hs = append(hs, hostName("h", s, r))
				}
			}
			nbits := 2 * len(hs)
			for m := 0; m < 1<<nbits; m++ {
				if !o.Thorough() && nbits > 4 && m%5 != int(o.Seed%5) {
					continue
				}
				c := tcase{coldS: top[0], coldR: top[1], hotS: top[2], hotR: top[3], script: map[string][]bool{}}
				for i, h := range hs {
					c.script[h] = []bool{m>>(2*i)&1 == 1, m>>(2*i+1)&1 == 1, true}
				}
				for k := 0; k < 6; k++ {
					c.perms = append(c.perms, rng.Perm(max(top[2], 1)))
				}
				cases = append(cases, c)
			}
		}
		n := o.Pick(150, 2500)
		for i := 0; i < n; i++ {
			cases = append(cases, genCase(rng, 3, 3))
		}
		// request deadline landing between attempts: one replica does not answer its k-th call before the deadline,
		// later attempts run on a finished context (every call on it fails; a skipped call must not count as written)
		for _, top := range [][4]int{{0, 0, 1, 1}, {0, 0, 1, 2}, {1, 1, 1, 2}, {0, 0, 2, 2}} {
			for _, hangHost := range []string{hostName("h", 0, 0), hostName("h", 0, top[3]-1)} {
				c := tcase{coldS: top[0], coldR: top[1], hotS: top[2], hotR: top[3], script: map[string][]bool{}, deadlineMs: 40, hang: map[string]int{hangHost: 1}}
				for k := 0; k < 6; k++ {
					c.perms = append(c.perms, rng.Perm(max(top[2], 1)))
				}
				cases = append(cases, c)
			}
		}
		// a slow replica next to a failing one, then a retry on which the failing one accepts: the slow call must still
		// count only by its own answer (an interrupted or abandoned call is not an accepted one)
		for _, top := range [][4]int{{0, 0, 1, 2}, {0, 0, 1, 3}, {1, 2, 1, 2}, {0, 0, 2, 2}} {
			for slowIdx := 0; slowIdx < top[3]; slowIdx++ {
				for _, tier := range []string{"h", "c"} {
					if tier == "c" && (top[0] == 0 || slowIdx >= top[1]) {
						continue
					}
					c := tcase{coldS: top[0], coldR: top[1], hotS: top[2], hotR: top[3], script: map[string][]bool{}, slowMs: 25, hang: map[string]int{hostName(tier, 0, slowIdx): 1}}
					R := top[3]
					if tier == "c" {
						R = top[1]
					}
					for r := 0; r < R; r++ {
						if r != slowIdx {
							c.script[hostName(tier, 0, r)] = []bool{false, true, true}
						}
					}
					for k := 0; k < 6; k++ {
						c.perms = append(c.perms, rng.Perm(max(top[2], 1)))
					}
					cases = append(cases, c)
				}
			}
		}
		for i := 0; i < o.Pick(20, 300); i++ {
			c := genCase(rng, 2, 3)
			c.slowMs = 10 + rng.Intn(20)
			c.hang = map[string]int{}
			for k := 0; k < 1+rng.Intn(2); k++ {
				tier, S, R := "h", c.hotS, c.hotR
				if c.coldS > 0 && rng.Bool() {
					tier, S, R = "c", c.coldS, c.coldR
				}
				c.hang[hostName(tier, rng.Intn(S), rng.Intn(R))] = 1 + rng.Intn(2)
			}
			cases = append(cases, c)
		}
		for i := 0; i < o.Pick(12, 200); i++ {
			c := genCase(rng, 2, 3)
			c.deadlineMs = 30 + rng.Intn(40)
			c.hang = map[string]int{hostName("h", rng.Intn(c.hotS), rng.Intn(c.hotR)): 1 + rng.Intn(2)}
			cases = append(cases, c)
		}
	}
	for _, c := range cases {
		acked, w := run(c)
		if w.panicked != "" {
			orc.Case(c.String(), true, "panicked=1")
			rep.Violate(vh.Violation{Site: "proxy/bulk/seqdb_client.go:StoreDocuments", Class: "client-panics", What: "StoreDocuments panicked: " + w.panicked, Replay: []string{c.String()}})
			continue
		}
		req, impl, tags := toModel(c, acked, w)
		if c.deadlineMs > 0 {
			tags = append(tags, "deadline=1")
		}
		if c.slowMs > 0 {
			tags = append(tags, "slow=1")
		}
		anyFail := false
		for _, cl := range w.calls {
			if !cl.ok {
				anyFail = true
			}
		}
		tags = append(tags, fmt.Sprintf("topology=c%dx%d/h%dx%d", c.coldS, c.coldR, c.hotS, c.hotR))
		ch.Add(req, impl, anyFail, tags...)
		ok, what := propertyHolds(c, acked, w)
		orc.Case(c.String(), acked && anyFail, "acked="+vh.B(acked))
		if !ok {
			rep.Violate(vh.Violation{Site: "proxy/bulk/seqdb_client.go:StoreDocuments", Class: "ack-without-full-replica-set", What: what, Replay: []string{c.String()}})
		}
	}
	rep.AddChannel(ch, o.Driver)
	rep.AddOracle(orc)
	if o.Replay == "" {
		corc := vh.NewOracle("replica.concurrent", "several bulks in flight on one client (shared shards/breakers), scripted per-(host,payload,call) outcomes and latencies; per payload: acknowledged => a full replica set per tier accepted exactly that payload; non-trivial = acknowledged bulk")
		crng := vh.NewRNG(o.Seed + 77)
		for i := 0; i < o.Pick(12, 150); i++ {
			hotS, hotR := crng.Range(1, 2), crng.Range(1, 3)
			coldS, coldR := 0, 0
			if crng.Chance(1, 3) {
				coldS, coldR = 1, crng.Range(1, 2)
			}
			directed := i%3 == 0
			if directed {
				hotS, hotR, coldS, coldR = 1, 2, 0, 0
			}
			cases, bad := runConcurrent(crng, hotS, hotR, coldS, coldR, crng.Range(2, 5), directed)
			for _, c := range cases {
				corc.Case(fmt.Sprintf("%d:%s", i, c), strings.HasSuffix(c, "acked=true"), "directed="+vh.B(directed))
			}
			for _, b := range bad {
				rep.Violate(vh.Violation{Site: "proxy/bulk/seqdb_client.go:shard.Bulk", Class: "concurrent-ack-without-full-replica-set", What: "acknowledged although no full replica set accepted this payload: " + b, Replay: []string{b}})
			}
		}
		rep.AddOracle(corc)
		sorc := vh.NewOracle("replica.sequence", "several bulks one after the other on one client, every second one exhausting its tries with partial success; per payload: acknowledged => a full replica set per tier accepted exactly that payload (nothing a failed bulk leaves in the client may count for a later one); non-trivial = acknowledged bulk after a failed one")
		srng := vh.NewRNG(o.Seed + 99)
		for i := 0; i < o.Pick(6, 60); i++ {
			hotS, hotR := srng.Range(1, 2), srng.Range(2, 3)
			coldS, coldR := 0, 0
			if srng.Chance(1, 2) {
				coldS, coldR = 1, srng.Range(1, 2)
			}
			cases, bad := runBulks(srng, hotS, hotR, coldS, coldR, 6, false, true)
			for k, c := range cases {
				sorc.Case(fmt.Sprintf("%d:%s", i, c), k%2 == 1 && strings.HasSuffix(c, "acked=true"), "sequential=1")
			}
			for _, b := range bad {
				rep.Violate(vh.Violation{Site: "proxy/bulk/seqdb_client.go:StoreDocuments", Class: "sequential-ack-without-full-replica-set", What: "acknowledged although no full replica set accepted this payload (after an earlier failed bulk on the same client): " + b, Replay: []string{b}})
			}
		}
		rep.AddOracle(sorc)
		torc := vh.NewOracle("replica.topology", "stores.NewStoresFromString on host lists of S x R hosts (with and without |version suffixes): replica set s = hosts [s*R, (s+1)*R) of the list, in order (Lean: groupHosts, c09_topology_groups_flatten); non-trivial = S >= 2 and R >= 2")
		for S := 1; S <= 4; S++ {
			for R := 1; R <= 4; R++ {
				for _, ver := range []bool{false, true} {
					var flat []string
					for i := 0; i < S*R; i++ {
						h := fmt.Sprintf("host%d", i)
						if ver && i%2 == 0 {
							h += "|v1"
						}
						flat = append(flat, h)
					}
					st := stores.NewStoresFromString(strings.Join(flat, ","), R)
					okT := len(st.Shards) == S
					for sI := 0; okT && sI < S; sI++ {
						okT = len(st.Shards[sI]) == R
						for r := 0; okT && r < R; r++ {
							okT = st.Shards[sI][r] == fmt.Sprintf("host%d", sI*R+r)
						}
					}
					desc := fmt.Sprintf("topology S=%d R=%d ver=%v", S, R, ver)
					torc.Case(desc, S >= 2 && R >= 2, fmt.Sprintf("S=%d", S), fmt.Sprintf("R=%d", R))
					if !okT {
						rep.Violate(vh.Violation{Site: "proxy/stores/stores.go:NewStoresFromString", Class: "replica-sets-not-consecutive-groups", What: fmt.Sprintf("%s: got %v", desc, st.Shards), Replay: []string{desc}})
					}
				}
			}
		}
		rep.AddOracle(torc)
		binaryOracle(rep, o)
		borc := vh.NewOracle("replica.breaker", "the circuit breaker itself ends (execution timeout 50 ms vs a 250 ms replica, caller context alive) or refuses (MaxConcurrent = 1, several bulks in flight) a shard attempt; per payload: acknowledged => a full replica set per tier accepted exactly that payload; non-trivial = a bulk that was not acknowledged, or acknowledged after a timed-out/rejected attempt")
		brng := vh.NewRNG(o.Seed + 123)
		for i := 0; i < o.Pick(4, 24); i++ {
			kind := []string{"timeout", "throttle"}[i%2]
			cases, bad := runBreaker(brng, kind, (i/2)%2)
			for _, c := range cases {
				borc.Case(fmt.Sprintf("%d:%s", i, c), true, "kind="+kind)
			}
			for _, b := range bad {
				rep.Violate(vh.Violation{Site: "network/circuitbreaker/circuitbreaker.go:Execute", Class: "ack-after-breaker-ended-or-refused-attempt", What: "acknowledged although no full replica set accepted this payload: " + b, Replay: []string{b}})
			}
		}
		rep.AddOracle(borc)
		circuitbreaker.VerifResetC09()
	}
	rep.Write(o.Out)
}
