// C16 harness: the real proxy/search.Ingestor against scripted StoreApiClient fakes (ShuffleReplicas=false, and
// =true with the replica order chosen by the harness through verifhook.SetShuffle).
//
// Channels (implementation vs Lean model through drv_c16, same inputs):
//   shard   searchShard           : every replica script over {f,w,u,rn,rw,ru,rf} up to 3 replicas
//   stores  searchStores          : classification over the shard answers; the arrival order of short-circuit
//                                   answers is forced by gating the fakes on ctx.Done()
//   less    lessFuncPosBased      : small-scope exhaustive, with and without hints
//   merge   newMergedStreamIterator over slice iterators: missing / extra / duplicated / reordered / empty docs
//   grpc    grpcStreamIterator    : count check and error handling
//   uniq    uniqueIDIterator
//   full    Ingestor.Search end to end (search, hot->cold fallback, merge, paginate, fetch streams)
// Oracle (the property itself on the implementation, independent of the model): search.property.
package main

import (
	"context"
	"bufio"
	"bytes"
	"errors"
	"fmt"
	"io"
	"math"
	"net"
	"os"
	"os/exec"
	"sort"
	"strconv"
	"strings"
	"sync"
	"sync/atomic"
	"time"

	"go.uber.org/zap"
	"google.golang.org/grpc"
	"google.golang.org/grpc/codes"
	"google.golang.org/grpc/credentials/insecure"
	"google.golang.org/grpc/status"
	"google.golang.org/grpc/test/bufconn"
	"google.golang.org/protobuf/types/known/timestamppb"

	"github.com/ozontech/seq-db/conf"
	"github.com/ozontech/seq-db/consts"
	"github.com/ozontech/seq-db/disk"
	"github.com/ozontech/seq-db/logger"
	"github.com/ozontech/seq-db/pkg/seqproxyapi/v1"
	"github.com/ozontech/seq-db/pkg/storeapi"
	"github.com/ozontech/seq-db/proxy/search"
	"github.com/ozontech/seq-db/proxy/stores"
	"github.com/ozontech/seq-db/proxyapi"
	"github.com/ozontech/seq-db/seq"
	"github.com/ozontech/seq-db/verifhook"

	"verifharness/internal/vh"
)

// ---------------------------------------------------------------- scripts

type id2 [2]uint64 // mid, rid

func (i id2) String() string { return fmt.Sprintf("%d.%d", i[0], i[1]) }

func fmtIDs(ids []id2) string {
	if len(ids) == 0 {
		return "-"
	}
	s := make([]string, len(ids))
	for i, x := range ids {
		s[i] = x.String()
	}
	return strings.Join(s, ",")
}

func parseID(s string) (id2, error) {
	var a, b uint64
	if _, err := fmt.Sscanf(s, "%d.%d", &a, &b); err != nil {
		return id2{}, err
	}
	return id2{a, b}, nil
}

// call = scripted outcome of client.Search on one replica
type call struct {
	kind  byte // 'f' error, 'w' error(wants old data), 'u' error(too many uniq values), 'r' response
	code  byte // 'n','w','u','f' for kind 'r'
	total int
	nerr  int
	ids   []id2
}

func (c call) String() string {
	if c.kind != 'r' {
		return string(c.kind)
	}
	return fmt.Sprintf("r%c:%d:%d:%s", c.code, c.total, c.nerr, fmtIDs(c.ids))
}

func parseCall(s string) (call, error) {
	if s == "f" || s == "w" || s == "u" {
		return call{kind: s[0]}, nil
	}
	p := strings.Split(s, ":")
	if len(p) != 4 || len(p[0]) != 2 || p[0][0] != 'r' {
		return call{}, fmt.Errorf("bad call %q", s)
	}
	c := call{kind: 'r', code: p[0][1]}
	c.total, _ = strconv.Atoi(p[1])
	c.nerr, _ = strconv.Atoi(p[2])
	if p[3] != "-" {
		for _, x := range strings.Split(p[3], ",") {
			id, err := parseID(x)
			if err != nil {
				return c, err
			}
			c.ids = append(c.ids, id)
		}
	}
	return c, nil
}

func fmtCalls(cs []call) string {
	if len(cs) == 0 {
		return "-"
	}
	s := make([]string, len(cs))
	for i, c := range cs {
		s[i] = c.String()
	}
	return strings.Join(s, ";")
}

func parseCalls(s string) ([]call, error) {
	if s == "-" || s == "" {
		return nil, nil
	}
	var r []call
	for _, x := range strings.Split(s, ";") {
		c, err := parseCall(x)
		if err != nil {
			return nil, err
		}
		r = append(r, c)
	}
	return r, nil
}

// tier in shard order: "0=calls|1=calls"
func fmtTier(t [][]call, order []int) string {
	if len(t) == 0 {
		return "-"
	}
	s := make([]string, 0, len(t))
	for _, i := range order {
		if _, ok := curShuf[len(t[i])]; ok {
			s = append(s, fmt.Sprintf("%d~%s=%s", i, strings.ReplaceAll(vh.JoinInts(permFor(len(t[i]))), ",", "."), fmtCalls(t[i])))
		} else {
			s = append(s, fmt.Sprintf("%d=%s", i, fmtCalls(t[i])))
		}
	}
	return strings.Join(s, "|")
}

func parseTier(s string) ([][]call, error) {
	if s == "-" || s == "" {
		return nil, nil
	}
	var r [][]call
	for _, x := range strings.Split(s, "|") {
		kv := strings.SplitN(x, "=", 2)
		if len(kv) != 2 {
			return nil, fmt.Errorf("bad tier entry %q", x)
		}
		cs, err := parseCalls(kv[1])
		if err != nil {
			return nil, err
		}
		r = append(r, cs)
	}
	return r, nil
}

// shardKind is the reference reading of one replica script (used to pick the gated calls and by the oracle):
// 'o' answered, 'w' 'u' 't' refusals, 'e' all failed, 'z' no replica.
// curShuf: the replica order of the case at hand when ShuffleReplicas is on (replica count -> order); nil = index order.
// The harness main loop is sequential; every entry point that looks at a case sets it first (useShuffle).
var curShuf map[int][]int

func permFor(n int) []int {
	if p, ok := curShuf[n]; ok && len(p) == n {
		return p
	}
	p := make([]int, n)
	for i := range p {
		p[i] = i
	}
	return p
}

// useShuffle makes the reference functions and the real code (through the verif shuffle hook) use the case's order
func useShuffle(shuf map[int][]int) {
	curShuf = shuf
	if len(shuf) == 0 {
		verifhook.SetShuffle(nil)
		return
	}
	local := shuf
	verifhook.SetShuffle(func(n int) []int {
		if p, ok := local[n]; ok && len(p) == n {
			return append([]int{}, p...)
		}
		p := make([]int, n)
		for i := range p {
			p[i] = i
		}
		return p
	})
}

func fmtShuf(m map[int][]int) string {
	if len(m) == 0 {
		return "-"
	}
	var ks []int
	for k := range m {
		ks = append(ks, k)
	}
	sort.Ints(ks)
	var s []string
	for _, k := range ks {
		s = append(s, fmt.Sprintf("%d:%s", k, strings.ReplaceAll(vh.JoinInts(m[k]), ",", ".")))
	}
	return strings.Join(s, ";")
}

func parseShuf(s string) map[int][]int {
	if s == "-" || s == "" {
		return nil
	}
	m := map[int][]int{}
	for _, x := range strings.Split(s, ";") {
		kv := strings.SplitN(x, ":", 2)
		if len(kv) != 2 {
			continue
		}
		n, _ := strconv.Atoi(kv[0])
		var p []int
		for _, y := range strings.Split(kv[1], ".") {
			v, _ := strconv.Atoi(y)
			p = append(p, v)
		}
		m[n] = p
	}
	return m
}

// shardKind reads the replicas in the order they are asked; rep is the index of the replica itself
func shardKind(cs []call) (kind byte, rep int) {
	for _, i := range permFor(len(cs)) {
		c := cs[i]
		switch {
		case c.kind == 'f':
			continue
		case c.kind == 'w' || (c.kind == 'r' && c.code == 'w'):
			return 'w', i
		case c.kind == 'u' || (c.kind == 'r' && c.code == 'u'):
			return 'u', i
		case c.kind == 'r' && c.code == 'f':
			return 't', i
		default:
			return 'o', i
		}
	}
	if len(cs) == 0 {
		return 'z', -1
	}
	return 'e', -1
}

func isShortCircuit(k byte) bool { return k == 'w' || k == 't' || k == 'z' }

// arrivalOrder: the order handed to the model: everything that cannot end the loop first, then the winner, then
// the answers that never arrive because the winner ended the loop.
func arrivalOrder(t [][]call, winner int) []int {
	var first, last []int
	for i := range t {
		k, _ := shardKind(t[i])
		if i == winner {
			continue
		}
		if isShortCircuit(k) {
			last = append(last, i)
		} else {
			first = append(first, i)
		}
	}
	if winner >= 0 && winner < len(t) {
		first = append(first, winner)
	}
	return append(first, last...)
}

// pickWinner: a zero-replica shard cannot be gated, so it wins when present; otherwise a seeded choice.
func pickWinner(t [][]call, r *vh.RNG) int {
	var sc []int
	for i := range t {
		k, _ := shardKind(t[i])
		if k == 'z' {
			return i
		}
		if isShortCircuit(k) {
			sc = append(sc, i)
		}
	}
	if len(sc) == 0 {
		return -1
	}
	return sc[r.Intn(len(sc))]
}

func normWinner(t [][]call, w int) int {
	for i := range t {
		if k, _ := shardKind(t[i]); k == 'z' {
			return i
		}
	}
	if w >= 0 && w < len(t) {
		if k, _ := shardKind(t[w]); isShortCircuit(k) {
			return w
		}
	}
	for i := range t {
		if k, _ := shardKind(t[i]); isShortCircuit(k) {
			return i
		}
	}
	return -1
}

// ---------------------------------------------------------------- fakes

type ev struct {
	id   id2
	data int // token; 0 = empty payload
	err  bool
	stall bool // the stream hangs here until the request context is done (then: the context's error)
}

func fmtEvs(evs []ev) string {
	if len(evs) == 0 {
		return "-"
	}
	s := make([]string, len(evs))
	for i, e := range evs {
		if e.err || e.stall {
			s[i] = "!"
		} else {
			s[i] = fmt.Sprintf("%s=%d", e.id, e.data)
		}
	}
	return strings.Join(s, ",")
}

type world struct {
	mu        sync.Mutex
	search    map[string]call     // host -> scripted search outcome
	gated     map[string]bool     // host -> its call waits for ctx.Done()
	fetchOps  map[string]string   // host -> fetch transformation
	hint      string
	called    map[string]int      // host -> number of Search calls
	fetchReq  map[string][]string // host -> requested ids (last Fetch)
	fetchHint map[string][]string
	delivered map[string][]ev // host -> events of the opened stream
	fetchFail map[string]bool
	timeouts  int
	holds     map[string]map[id2]bool // Fetch API cases: host -> the documents it stores (nil: every requested one)
	stallFired bool
	honour    bool                // the stores answer with the first Size+Offset IDs of what they hold (tcase.cap)
	gotReq    map[string][2]int64 // host -> (Size, Offset) of the last search request it received
	trickleOn bool                // the T<k> fetch ops really wait (Export runs only)
}

func newWorld() *world {
	return &world{search: map[string]call{}, gated: map[string]bool{}, fetchOps: map[string]string{}, called: map[string]int{},
		fetchReq: map[string][]string{}, fetchHint: map[string][]string{}, delivered: map[string][]ev{}, fetchFail: map[string]bool{}, gotReq: map[string][2]int64{}}
}

type fake struct {
	storeapi.StoreApiClient
	host string
	w    *world
}

const gateTimeout = 1500 * time.Millisecond

// once a handful of gated calls had to be released by the timeout the point is made (the implementation does not
// fail fast any more); later gates open at once so that a broken tree does not cost 1.5 s per case
var totalTimeouts atomic.Int32

func (f *fake) Search(ctx context.Context, in *storeapi.SearchRequest, _ ...grpc.CallOption) (*storeapi.SearchResponse, error) {
	w := f.w
	w.mu.Lock()
	w.called[f.host]++
	w.gotReq[f.host] = [2]int64{in.Size, in.Offset}
	c, ok := w.search[f.host]
	gated := w.gated[f.host]
	hint := w.hint
	honour := w.honour
	w.mu.Unlock()
	if lim := in.Size + in.Offset; honour && lim >= 0 && int64(len(c.ids)) > lim {
		c.ids = c.ids[:lim] // an honest store: its newest Size+Offset matches
	}
	if !ok {
		return nil, status.Error(codes.Unavailable, "no script")
	}
	if gated {
		if totalTimeouts.Load() < 8 {
			select {
			case <-ctx.Done():
			case <-time.After(gateTimeout):
				totalTimeouts.Add(1)
				w.mu.Lock()
				w.timeouts++
				w.mu.Unlock()
			}
		}
	}
	switch c.kind {
	case 'f':
		return nil, status.Error(codes.Unavailable, "scripted failure "+f.host)
	case 'w':
		return nil, status.Error(codes.Unknown, consts.ErrIngestorQueryWantsOldData.Error())
	case 'u':
		return nil, status.Error(codes.Unknown, consts.ErrTooManyUniqValues.Error())
	}
	resp := &storeapi.SearchResponse{Total: uint64(c.total)}
	switch c.code {
	case 'w':
		resp.Code = storeapi.SearchErrorCode_INGESTOR_QUERY_WANTS_OLD_DATA
	case 'u':
		resp.Code = storeapi.SearchErrorCode_TOO_MANY_UNIQ_VALUES
	case 'f':
		resp.Code = storeapi.SearchErrorCode_TOO_MANY_FRACTIONS_HIT
	}
	for _, id := range c.ids {
		resp.IdSources = append(resp.IdSources, &storeapi.SearchResponse_IdWithHint{Id: &storeapi.SearchResponse_Id{Mid: id[0], Rid: id[1]}, Hint: hint})
	}
	for i := 0; i < c.nerr; i++ {
		resp.Errors = append(resp.Errors, fmt.Sprintf("frac error %d", i))
	}
	return resp, nil
}

func dataToken(host string, id id2) int {
	h := 0
	for _, c := range host {
		h = h*31 + int(c)
	}
	return 1 + int((id[0]*7+id[1]*3+uint64(h))%97)
}

func payload(tok int) []byte {
	if tok == 0 {
		return nil
	}
	return []byte(fmt.Sprintf("d%d", tok))
}

func tokenOf(b []byte) int {
	if len(b) == 0 {
		return 0
	}
	n, err := strconv.Atoi(strings.TrimPrefix(string(b), "d"))
	if err != nil {
		return -1
	}
	return n
}

var extraID = id2{999, 9}

// applyOps turns the requested id list into the events the store delivers.
// ops: m<k> miss, e<k> empty payload, b<k> error after k events, t<k> EOF after k events, x<k> unrequested doc at k,
// d<k> doc k twice in a row, D<k> doc k again at the end, s<k> swap k and k+1.
func applyOps(host string, req []id2, ops string, holds map[string]map[id2]bool) []ev {
	evs := make([]ev, len(req))
	for i, id := range req {
		evs[i] = ev{id: id, data: dataToken(host, id)}
		if holds != nil && !holds[host][id] {
			evs[i].data = 0 // the store does not have the document: an empty block carrying the ID
		}
	}
	if ops == "" || ops == "-" {
		return evs
	}
	for _, op := range strings.Split(ops, ",") {
		if len(op) < 2 {
			continue
		}
		k, _ := strconv.Atoi(op[1:])
		switch op[0] {
		case 'm':
			if k < len(evs) {
				evs = append(evs[:k:k], evs[k+1:]...)
			}
		case 'e':
			if k < len(evs) {
				evs[k].data = 0
			}
		case 'b':
			if k <= len(evs) {
				evs = append(evs[:k:k], ev{err: true})
			}
		case 't':
			if k <= len(evs) {
				evs = evs[:k]
			}
		case 'S': // the stream stalls after k events until the request's deadline
			if k <= len(evs) {
				evs = append(evs[:k:k], ev{stall: true})
			}
		case 'x':
			if k <= len(evs) {
				x := ev{id: extraID, data: dataToken(host, extraID)}
				evs = append(evs[:k:k], append([]ev{x}, evs[k:]...)...)
			}
		case 'd':
			if k < len(evs) {
				evs = append(evs[:k+1:k+1], append([]ev{evs[k]}, evs[k+1:]...)...)
			}
		case 'D':
			if k < len(evs) {
				evs = append(evs, evs[k])
			}
		case 's':
			if k+1 < len(evs) {
				evs[k], evs[k+1] = evs[k+1], evs[k]
			}
		}
	}
	return evs
}

type fetchStream struct {
	grpc.ClientStream
	evs []ev
	pos int
	ctx context.Context
	w   *world
	slowAt int // k+1: before delivering event k the store takes trickleDelay (op T<k>); 0: never
}

// a store that trickles: longer than the SearchTimeout of the export runs, far below their ExportTimeout
const (
	trickleDelay         = 330 * time.Millisecond
	trickleSearchTimeout = 150 * time.Millisecond
	trickleExportTimeout = 5 * time.Second
)

func packDoc(id id2, tok int) []byte {
	b := disk.PackDocBlock(payload(tok), nil)
	b.SetExt1(id[0])
	b.SetExt2(id[1])
	return b
}

func (s *fetchStream) Recv() (*storeapi.BinaryData, error) {
	if s.pos >= len(s.evs) {
		return nil, io.EOF
	}
	if s.slowAt > 0 && s.pos == s.slowAt-1 {
		s.slowAt = 0
		select {
		case <-time.After(trickleDelay):
		case <-s.ctx.Done():
			return nil, status.FromContextError(s.ctx.Err()).Err()
		}
	}
	e := s.evs[s.pos]
	if e.stall {
		if s.ctx == nil {
			return nil, status.Error(codes.DeadlineExceeded, "scripted stall without a context")
		}
		<-s.ctx.Done() // the store hangs; the client stream ends with the context's error
		if s.w != nil {
			s.w.mu.Lock()
			s.w.stallFired = true
			s.w.mu.Unlock()
		}
		return nil, status.FromContextError(s.ctx.Err()).Err()
	}
	if e.err {
		return nil, status.Error(codes.Unavailable, "scripted stream failure")
	}
	s.pos++
	return &storeapi.BinaryData{Data: packDoc(e.id, e.data)}, nil
}

func (f *fake) Fetch(ctx context.Context, in *storeapi.FetchRequest, _ ...grpc.CallOption) (storeapi.StoreApi_FetchClient, error) {
	w := f.w
	w.mu.Lock()
	defer w.mu.Unlock()
	var req []id2
	var ids, hints []string
	for _, x := range in.IdsWithHints {
		id, err := seq.FromString(x.Id)
		if err != nil {
			return nil, err
		}
		req = append(req, id2{uint64(id.MID), uint64(id.RID)})
		ids = append(ids, id2{uint64(id.MID), uint64(id.RID)}.String())
		hints = append(hints, x.Hint)
	}
	w.fetchReq[f.host] = ids
	w.fetchHint[f.host] = hints
	ops := w.fetchOps[f.host]
	if ops == "X" {
		w.fetchFail[f.host] = true
		return nil, status.Error(codes.Unavailable, "scripted fetch failure")
	}
	evs := applyOps(f.host, req, ops, w.holds)
	w.delivered[f.host] = evs
	slowAt := 0
	if w.trickleOn {
		for _, op := range strings.Split(ops, ",") {
			if len(op) >= 2 && op[0] == 'T' {
				k, _ := strconv.Atoi(op[1:])
				slowAt = k + 1
			}
		}
	}
	return &fetchStream{evs: evs, ctx: ctx, w: w, slowAt: slowAt}, nil
}

// ---------------------------------------------------------------- topology helpers

func hostName(tier byte, s, r int) string { return fmt.Sprintf("%c%d_%d", tier, s, r) }

func parseHost(h string) (tier byte, s, r int) {
	tier = h[0]
	fmt.Sscanf(h[1:], "%d_%d", &s, &r)
	return
}

func srcNat(h string) int {
	tier, s, r := parseHost(h)
	n := s*100 + r
	if tier == 'c' {
		n += 10000
	}
	return n
}

func tierHosts(tier byte, t [][]call) [][]string {
	res := make([][]string, len(t))
	for s := range t {
		res[s] = []string{}
		for r := range t[s] {
			res[s] = append(res[s], hostName(tier, s, r))
		}
	}
	return res
}

// install scripts + gating for a tier
func (w *world) install(tier byte, t [][]call, winner int) {
	for s := range t {
		for r, c := range t[s] {
			h := hostName(tier, s, r)
			w.search[h] = c
			sc := c.kind == 'w' || (c.kind == 'r' && (c.code == 'w' || c.code == 'f'))
			if sc && s != winner {
				w.gated[h] = true
			}
		}
	}
}

func errKind(err error) string {
	switch {
	case err == nil:
		return "nil"
	case errors.Is(err, consts.ErrPartialResponse):
		return "partial"
	case errors.Is(err, consts.ErrIngestorQueryWantsOldData):
		return "wod"
	case errors.Is(err, consts.ErrTooManyFractionsHit):
		return "tmf"
	case errors.Is(err, consts.ErrTooManyUniqValues):
		return "tmu"
	case strings.HasPrefix(err.Error(), "all shards requests failed"):
		return "allfailed"
	default:
		return "other"
	}
}

func invert(m map[string]uint64) map[uint64]string {
	r := map[uint64]string{}
	for k, v := range m {
		r[v] = k
	}
	return r
}

func newSR(off, size int, rev, fetch bool) *search.SearchRequest {
	o := seq.DocsOrderDesc
	if rev {
		o = seq.DocsOrderAsc
	}
	return &search.SearchRequest{Q: []byte("message:x"), From: 0, To: 1 << 40, Offset: off, Size: size, ShouldFetch: fetch, Order: o}
}

// ---------------------------------------------------------------- channel: shard

func runShard(cs []call, perm []int) string {
	if perm != nil {
		useShuffle(map[int][]int{len(cs): perm})
		defer useShuffle(nil)
	}
	w := newWorld()
	clients := map[string]storeapi.StoreApiClient{}
	var hosts []string
	for r, c := range cs {
		h := hostName('h', 0, r)
		hosts = append(hosts, h)
		w.search[h] = c
		clients[h] = &fake{host: h, w: w}
	}
	clients["z9_9"] = &fake{host: "z9_9", w: w} // so that source numbers are not all zero
	empty := &stores.Stores{}
	si := search.NewIngestor(search.Config{HotStores: &stores.Stores{Shards: [][]string{hosts}}, HotReadStores: empty, ReadStores: empty, WriteStores: empty, ShuffleReplicas: perm != nil}, clients)
	resp, source, err := si.VerifSearchShard(context.Background(), hosts, newSR(0, 10, false, false).GetAPISearchRequest())
	switch {
	case err == nil && resp == nil:
		return "ok nil"
	case err == nil:
		host := invert(si.VerifSourceByClient())[source]
		_, _, rep := parseHost(host)
		var ids []id2
		for _, x := range resp.IdSources {
			ids = append(ids, id2{x.Id.Mid, x.Id.Rid})
		}
		return fmt.Sprintf("ok ok rep=%d total=%d nerr=%d ids=%s", rep, resp.Total, len(resp.Errors), fmtIDs(ids))
	}
	switch errKind(err) {
	case "wod":
		return "ok wod"
	case "tmu":
		return "ok tmu"
	case "tmf":
		return "ok tmf"
	}
	return "ok failed"
}

var callAlphabet = []call{
	{kind: 'f'}, {kind: 'w'}, {kind: 'u'},
	{kind: 'r', code: 'n', total: 2, ids: []id2{{5, 1}, {3, 1}}},
	{kind: 'r', code: 'w'}, {kind: 'r', code: 'u'}, {kind: 'r', code: 'f'},
}

func seqs[T any](alpha []T, maxLen int) [][]T {
	res := [][]T{{}}
	prev := [][]T{{}}
	for l := 1; l <= maxLen; l++ {
		var cur [][]T
		for _, p := range prev {
			for _, a := range alpha {
				n := append(append([]T{}, p...), a)
				cur = append(cur, n)
			}
		}
		res = append(res, cur...)
		prev = cur
	}
	return res
}

func allPerms(n int) [][]int {
	if n == 0 {
		return [][]int{{}}
	}
	var res [][]int
	for _, p := range allPerms(n - 1) {
		for pos := 0; pos <= len(p); pos++ {
			q := append(append(append([]int{}, p[:pos]...), n-1), p[pos:]...)
			res = append(res, q)
		}
	}
	return res
}

// ---------------------------------------------------------------- channel: stores

type qprOut struct {
	shard, rep, total, nerr int
	ids                     []id2
}

// tagTotals makes every answer's total encode its (shard, replica), so that empty answers stay attributable
func tagTotals(t [][]call) [][]call {
	res := make([][]call, len(t))
	for s := range t {
		res[s] = append([]call{}, t[s]...)
		for r := range res[s] {
			if res[s][r].kind == 'r' && res[s][r].code == 'n' {
				res[s][r].total = 1000 + 100*s + 10*r + res[s][r].total%10
			}
		}
	}
	return res
}

func runStores(t [][]call, winner int) (string, int) {
	w := newWorld()
	clients := map[string]storeapi.StoreApiClient{}
	for s := range t {
		for r := range t[s] {
			h := hostName('h', s, r)
			clients[h] = &fake{host: h, w: w}
		}
	}
	w.install('h', t, winner)
	st := &stores.Stores{Shards: tierHosts('h', t)}
	empty := &stores.Stores{}
	si := search.NewIngestor(search.Config{HotStores: st, HotReadStores: empty, ReadStores: empty, WriteStores: empty, ShuffleReplicas: len(curShuf) > 0}, clients)
	var res string
	func() {
		defer func() {
			if r := recover(); r != nil {
				res = "panic nilresp"
			}
		}()
		qprs, err := si.VerifSearchStores(context.Background(), newSR(0, 10, false, false), st)
		k := errKind(err)
		if qprs == nil && err != nil {
			res = "err " + k
			return
		}
		res = fmt.Sprintf("ok partial=%s qprs=%s", vh.B(k == "partial"), fmtQPRs(si, qprs))
		if k != "nil" && k != "partial" {
			res = "err-with-data " + k
		}
	}()
	w.mu.Lock()
	to := w.timeouts
	w.mu.Unlock()
	return res, to
}

func fmtQPRs(si *search.Ingestor, qprs []*seq.QPR) string {
	inv := invert(si.VerifSourceByClient())
	var out []qprOut
	for _, q := range qprs {
		o := qprOut{shard: -1, total: int(q.Total), nerr: len(q.Errors)}
		for _, x := range q.IDs {
			_, o.shard, o.rep = parseHost(inv[x.Source])
			o.ids = append(o.ids, id2{uint64(x.ID.MID), uint64(x.ID.RID)})
		}
		for _, e := range q.Errors {
			_, o.shard, o.rep = parseHost(inv[e.Source])
		}
		if len(q.IDs) == 0 && len(q.Errors) == 0 && o.total >= 1000 {
			// an empty answer carries no source: the stores channel encodes (shard, replica) in its totals
			o.shard, o.rep = (o.total-1000)/100, o.total%100/10
		}
		out = append(out, o)
	}
	sort.SliceStable(out, func(i, j int) bool { return out[i].shard < out[j].shard })
	if len(out) == 0 {
		return "-"
	}
	s := make([]string, len(out))
	for i, o := range out {
		s[i] = fmt.Sprintf("%d:%d:%d:%d:%s", o.shard, o.rep, o.total, o.nerr, fmtIDs(o.ids))
	}
	return strings.Join(s, ";")
}

// ---------------------------------------------------------------- channels: less, merge, grpc, uniq

type ids3 struct {
	id   id2
	src  int
	hint int
}

func (x ids3) String() string { return fmt.Sprintf("%s@%d#%d", x.id, x.src, x.hint) }

func hintStr(h int) string {
	if h == 0 {
		return ""
	}
	return fmt.Sprintf("hint%d", h)
}

func (x ids3) seq() seq.IDSource {
	return seq.IDSource{ID: seq.ID{MID: seq.MID(x.id[0]), RID: seq.RID(x.id[1])}, Source: uint64(x.src), Hint: hintStr(x.hint)}
}

func fmtIDS(l []ids3) string {
	if len(l) == 0 {
		return "-"
	}
	s := make([]string, len(l))
	for i, x := range l {
		s[i] = x.String()
	}
	return strings.Join(s, ",")
}

func toSeq(l []ids3) []seq.IDSource {
	r := make([]seq.IDSource, len(l))
	for i, x := range l {
		r[i] = x.seq()
	}
	return r
}

type sdoc struct {
	id   id2
	src  int
	data int
}

func (d sdoc) String() string { return fmt.Sprintf("%s@%d=%d", d.id, d.src, d.data) }

func fmtDocs(l []sdoc) string {
	if len(l) == 0 {
		return "-"
	}
	s := make([]string, len(l))
	for i, x := range l {
		s[i] = x.String()
	}
	return strings.Join(s, ",")
}

type sliceIter struct {
	docs []sdoc
	pos  int
}

func (s *sliceIter) Next() (search.StreamingDoc, error) {
	if s.pos >= len(s.docs) {
		return search.StreamingDoc{}, io.EOF
	}
	d := s.docs[s.pos]
	s.pos++
	return search.StreamingDoc{ID: seq.ID{MID: seq.MID(d.id[0]), RID: seq.RID(d.id[1])}, Source: uint64(d.src), Data: payload(d.data)}, nil
}

func fromStreaming(d search.StreamingDoc) sdoc {
	return sdoc{id: id2{uint64(d.ID.MID), uint64(d.ID.RID)}, src: int(d.Source), data: tokenOf(d.Data)}
}

func runLess(ids []ids3, a, b ids3) (res string) {
	defer func() {
		if r := recover(); r != nil {
			res = "panic unknown-ids"
		}
	}()
	return "ok " + vh.B(search.VerifLessFuncPosBased(toSeq(ids))(a.seq(), b.seq()))
}

// drain reads n items like proxyapi.makeProtoDocs (stopping at the first error)
func drain(it search.DocsIterator, n int) []sdoc {
	var out []sdoc
	for i := 0; i < n; i++ {
		d, err := it.Next()
		if err != nil {
			break
		}
		out = append(out, fromStreaming(d))
	}
	return out
}

func runMerge(ids []ids3, streams [][]sdoc) (res string) {
	defer func() {
		if r := recover(); r != nil {
			res = "panic unknown-ids"
		}
	}()
	its := make([]search.DocsIterator, len(streams))
	for i, s := range streams {
		its[i] = &sliceIter{docs: s}
	}
	it := search.VerifNewMergedStreamIterator(context.Background(), its, toSeq(ids))
	return "ok " + fmtDocs(drain(it, len(ids)))
}

func runGrpc(src, total int, evs []ev) string {
	it := search.VerifNewGrpcStreamIterator(&fetchStream{evs: evs}, "host", uint64(src), total)
	var out []sdoc
	for i := 0; i < len(evs)+2; i++ {
		d, err := it.Next()
		if err != nil {
			end := "recverr"
			if errors.Is(err, io.EOF) {
				end = "eof"
			} else if strings.HasPrefix(err.Error(), "wrong fetched doc count") {
				end = "wrongcount"
			}
			return fmt.Sprintf("ok %s %s", end, fmtDocs(out))
		}
		out = append(out, fromStreaming(d))
	}
	return "no-end"
}

func runUniq(docs []sdoc) string {
	it := search.VerifNewUniqueIDIterator(&sliceIter{docs: docs})
	return "ok " + fmtDocs(drain(it, len(docs)+1))
}

// ---------------------------------------------------------------- full system case

type tcase struct {
	hot, cold [][]call
	hotRead   bool
	off, size int
	rev       bool
	hint      int
	fetch     bool
	wh, wc    int
	fb        map[string]string // host -> fetch ops
	shuf      map[int][]int     // ShuffleReplicas=true: replica count -> order in which the replicas are asked
	cap       int               // > 0: conf.MaxRequestedDocuments = cap and the stores are honest: a script's IDs are what the store HOLDS, it answers with the first Size+Offset of the request it receives
}

func (c tcase) String() string {
	saved := curShuf
	curShuf = nil // the case line carries the order in its own field
	defer func() { curShuf = saved }()
	var fb []string
	for _, h := range vh.SortedKeys(c.fb) {
		fb = append(fb, h+":"+c.fb[h])
	}
	all := func(t [][]call) []int {
		r := make([]int, len(t))
		for i := range r {
			r[i] = i
		}
		return r
	}
	return fmt.Sprintf("case hot=%s cold=%s hr=%s off=%d size=%d rev=%s hint=%d fetch=%s wh=%d wc=%d fb=%s shuf=%s cap=%d",
		fmtTier(c.hot, all(c.hot)), fmtTier(c.cold, all(c.cold)), vh.B(c.hotRead), c.off, c.size, vh.B(c.rev), c.hint, vh.B(c.fetch), c.wh, c.wc, vh.JoinStrs(fb, ";"), fmtShuf(c.shuf), c.cap)
}

func parseCase(line string) (tcase, error) {
	c := tcase{fb: map[string]string{}}
	f := strings.Fields(line)
	if len(f) == 0 || f[0] != "case" {
		return c, fmt.Errorf("not a case line")
	}
	var err error
	for _, kv := range f[1:] {
		p := strings.SplitN(kv, "=", 2)
		if len(p) != 2 {
			continue
		}
		switch p[0] {
		case "hot":
			c.hot, err = parseTier(p[1])
		case "cold":
			c.cold, err = parseTier(p[1])
		case "hr":
			c.hotRead = p[1] == "1"
		case "off":
			c.off, _ = strconv.Atoi(p[1])
		case "size":
			c.size, _ = strconv.Atoi(p[1])
		case "rev":
			c.rev = p[1] == "1"
		case "hint":
			c.hint, _ = strconv.Atoi(p[1])
		case "fetch":
			c.fetch = p[1] == "1"
		case "wh":
			c.wh, _ = strconv.Atoi(p[1])
		case "wc":
			c.wc, _ = strconv.Atoi(p[1])
		case "fb":
			if p[1] != "-" {
				for _, x := range strings.Split(p[1], ";") {
					hv := strings.SplitN(x, ":", 2)
					if len(hv) == 2 {
						c.fb[hv[0]] = hv[1]
					}
				}
			}
		case "shuf":
			c.shuf = parseShuf(p[1])
		case "cap":
			c.cap, _ = strconv.Atoi(p[1])
		}
		if err != nil {
			return c, err
		}
	}
	return c, nil
}

type result struct {
	kind     string // "ok", "err <k>", "panic"
	partial  bool
	cold     bool
	total    uint64
	nerr     int
	ids      []id2
	hosts    []string // answering host per id
	docs     []sdoc
	w        *world
	hotTier  byte
	timeouts int
	cancelAfter int // the request deadline fired during this many-th call of the document iterator (-1: it did not)
}

var defaultMaxDocs = conf.MaxRequestedDocuments

// eff: the case as the model sees it - an honest store asked for the whole page answers with its first off+size IDs
func eff(c tcase) tcase {
	if c.cap <= 0 || uint64(c.off)+uint64(c.size) >= 1<<62 {
		return c
	}
	cut := func(t [][]call) [][]call {
		res := make([][]call, len(t))
		for s := range t {
			res[s] = append([]call{}, t[s]...)
			for r := range res[s] {
				if len(res[s][r].ids) > c.off+c.size {
					res[s][r].ids = res[s][r].ids[:c.off+c.size]
				}
			}
		}
		return res
	}
	c.hot, c.cold = cut(c.hot), cut(c.cold)
	return c
}

// buildCase installs the scripts of a case into a fresh world and returns the ingestor over the fakes
func buildCase(c tcase) (*world, *search.Ingestor, byte) {
	w := newWorld()
	w.hint = hintStr(c.hint)
	conf.MaxRequestedDocuments = defaultMaxDocs
	if c.cap > 0 {
		conf.MaxRequestedDocuments, w.honour = c.cap, true
	}
	hotTier := byte('h')
	if c.hotRead {
		hotTier = 'r'
	}
	clients := map[string]storeapi.StoreApiClient{}
	add := func(tier byte, t [][]call) {
		for s := range t {
			for r := range t[s] {
				h := hostName(tier, s, r)
				clients[h] = &fake{host: h, w: w}
			}
		}
	}
	add(hotTier, c.hot)
	add('c', c.cold)
	c.wh, c.wc = normWinner(c.hot, c.wh), normWinner(c.cold, c.wc)
	w.install(hotTier, c.hot, c.wh)
	w.install('c', c.cold, c.wc)
	for h, ops := range c.fb {
		w.fetchOps[h] = ops
	}
	useShuffle(c.shuf)
	cfg := search.Config{HotStores: &stores.Stores{Shards: tierHosts('h', c.hot)}, HotReadStores: &stores.Stores{}, ReadStores: &stores.Stores{Shards: tierHosts('c', c.cold)}, WriteStores: &stores.Stores{}, ShuffleReplicas: len(c.shuf) > 0}
	if c.hotRead {
		// the hot tier lives in HotReadStores; HotStores holds a decoy whose answer would be visible
		cfg.HotReadStores = &stores.Stores{Shards: tierHosts('r', c.hot)}
		cfg.HotStores = &stores.Stores{Shards: [][]string{{"z0_0"}}}
		clients["z0_0"] = &fake{host: "z0_0", w: w}
		w.search["z0_0"] = call{kind: 'r', code: 'n', total: 1, ids: []id2{{777, 7}}}
	}
	return w, search.NewIngestor(cfg, clients), hotTier
}

func runCase(c tcase) result {
	w, si, hotTier := buildCase(c)
	inv := invert(si.VerifSourceByClient())
	res := result{w: w, hotTier: hotTier, cancelAfter: -1}
	func() {
		defer func() {
			if r := recover(); r != nil {
				res.kind = "panic"
			}
		}()
		ctx := context.Background()
		if hasStall(c) {
			var cancel context.CancelFunc
			ctx, cancel = context.WithTimeout(ctx, stallTimeout)
			defer cancel()
		}
		qpr, docs, _, err := si.Search(ctx, newSR(c.off, c.size, c.rev, c.fetch), nil)
		k := errKind(err)
		if qpr == nil {
			res.kind = "err " + k
			return
		}
		if k != "nil" && k != "partial" {
			res.kind = "err-with-data " + k
			return
		}
		res.kind = "ok"
		res.partial = k == "partial"
		res.total, res.nerr = qpr.Total, len(qpr.Errors)
		for _, x := range qpr.IDs {
			res.ids = append(res.ids, id2{uint64(x.ID.MID), uint64(x.ID.RID)})
			res.hosts = append(res.hosts, inv[x.Source])
		}
		fired := func() bool {
			w.mu.Lock()
			defer w.mu.Unlock()
			return w.stallFired
		}
		if fired() {
			res.cancelAfter = 0
		}
		for i := 0; i < len(qpr.IDs); i++ { // like makeProtoDocs, stopping at the first error
			sd, derr := docs.Next()
			if res.cancelAfter < 0 && fired() {
				res.cancelAfter = i + 1
			}
			if derr != nil {
				break
			}
			d := fromStreaming(sd)
			d.src = srcNat(inv[uint64(d.src)])
			res.docs = append(res.docs, d)
		}
	}()
	// shard goroutines that lost the race keep running after Search returned (they try further replicas):
	// everything below works on a snapshot taken under the lock
	w.mu.Lock()
	res.w = w.snapshot()
	w.mu.Unlock()
	for h, n := range res.w.called {
		if h[0] == 'c' && n > 0 {
			res.cold = true
		}
	}
	res.timeouts = res.w.timeouts
	return res
}

func copyMap[V any](m map[string]V) map[string]V {
	r := make(map[string]V, len(m))
	for k, v := range m {
		r[k] = v
	}
	return r
}

// snapshot must be called with w.mu held
func (w *world) snapshot() *world {
	return &world{search: copyMap(w.search), gated: copyMap(w.gated), fetchOps: copyMap(w.fetchOps), hint: w.hint, called: copyMap(w.called),
		fetchReq: copyMap(w.fetchReq), fetchHint: copyMap(w.fetchHint), delivered: copyMap(w.delivered), fetchFail: copyMap(w.fetchFail), timeouts: w.timeouts, holds: w.holds, stallFired: w.stallFired,
		honour: w.honour, gotReq: copyMap(w.gotReq), trickleOn: w.trickleOn}
}

// runAPI sends the case through proxyapi's Search handler (doSearch, processSearchErrors, makeProtoDocs)
func runAPI(c tcase) (impl string, w *world) {
	w0, si, _ := buildCase(c)
	api := proxyapi.VerifNewGrpcV1C16(si, reqTimeout(c))
	order := seqproxyapi.Order_ORDER_DESC
	if c.rev {
		order = seqproxyapi.Order_ORDER_ASC
	}
	req := &seqproxyapi.SearchRequest{
		Query:  &seqproxyapi.SearchQuery{Query: "message:x", From: timestamppb.New(time.UnixMilli(0)), To: timestamppb.New(time.UnixMilli(1 << 40))},
		Size:   int64(c.size),
		Offset: int64(c.off),
		Order:  order,
	}
	func() {
		defer func() {
			if r := recover(); r != nil {
				impl = "panic"
			}
		}()
		resp, err := api.Search(context.Background(), req)
		switch {
		case err != nil:
			if status.Code(err) == codes.InvalidArgument {
				impl = "err invalid-argument"
			} else if status.Code(err) == codes.Internal {
				impl = "err internal"
			} else {
				impl = "err " + status.Code(err).String()
			}
		case resp.Error != nil && resp.Error.Code == seqproxyapi.ErrorCode_ERROR_CODE_TOO_MANY_FRACTIONS_HIT && len(resp.Docs) == 0:
			impl = "ok refused tmf"
		default:
			var ids []id2
			var toks []int
			for _, d := range resp.Docs {
				id, perr := seq.FromString(d.Id)
				if perr != nil {
					impl = "bad-id " + d.Id
					return
				}
				ids = append(ids, id2{uint64(id.MID), uint64(id.RID)})
				toks = append(toks, tokenOf(d.Data))
			}
			code := seqproxyapi.ErrorCode_ERROR_CODE_UNSPECIFIED
			if resp.Error != nil {
				code = resp.Error.Code
			}
			partial := resp.PartialResponse
			if partial != (code == seqproxyapi.ErrorCode_ERROR_CODE_PARTIAL_RESPONSE) || (!partial && code != seqproxyapi.ErrorCode_ERROR_CODE_NO) {
				impl = fmt.Sprintf("inconsistent-flags partial=%v code=%v", partial, code)
				return
			}
			impl = fmt.Sprintf("ok partial=%s total=%d ids=%s docs=%s", vh.B(partial), resp.Total, fmtIDs(ids), vh.JoinInts(toks))
		}
	}()
	w0.mu.Lock()
	w = w0.snapshot()
	w0.mu.Unlock()
	return impl, w
}

type exportStream struct {
	grpc.ServerStream
	ctx  context.Context
	sent []sdoc
}

func (s *exportStream) Context() context.Context { return s.ctx }
func (s *exportStream) Send(r *seqproxyapi.ExportResponse) error {
	id, err := seq.FromString(r.Doc.Id)
	if err != nil {
		return err
	}
	s.sent = append(s.sent, sdoc{id: id2{uint64(id.MID), uint64(id.RID)}, data: tokenOf(r.Doc.Data)})
	return nil
}

type fetchSrvStream struct {
	grpc.ServerStream
	ctx  context.Context
	sent []sdoc
}

func (s *fetchSrvStream) Context() context.Context { return s.ctx }
func (s *fetchSrvStream) Send(d *seqproxyapi.Document) error {
	id, err := seq.FromString(d.Id)
	if err != nil {
		return err
	}
	s.sent = append(s.sent, sdoc{id: id2{uint64(id.MID), uint64(id.RID)}, data: tokenOf(d.Data)})
	return nil
}

func fmtIDData(l []sdoc) string {
	if len(l) == 0 {
		return "-"
	}
	s := make([]string, len(l))
	for i, d := range l {
		s[i] = fmt.Sprintf("%s=%d", d.id, d.data)
	}
	return strings.Join(s, ",")
}

// runExport sends the case through proxyapi's Export handler (newest first: the request has no order)
func runExport(c tcase) (impl string, endedOK bool, sent []sdoc, w *world) {
	c.rev = false
	w0, si, _ := buildCase(c)
	api := proxyapi.VerifNewGrpcV1C16T(si, 20*time.Second, 20*time.Second)
	if hasTrickle(c) {
		// the documents trickle in for longer than SearchTimeout, well within ExportTimeout
		api = proxyapi.VerifNewGrpcV1C16T(si, trickleSearchTimeout, trickleExportTimeout)
		w0.mu.Lock()
		w0.trickleOn = true
		w0.mu.Unlock()
	}
	req := &seqproxyapi.ExportRequest{
		Query:  &seqproxyapi.SearchQuery{Query: "message:x", From: timestamppb.New(time.UnixMilli(0)), To: timestamppb.New(time.UnixMilli(1 << 40))},
		Size:   int64(c.size),
		Offset: int64(c.off),
	}
	st := &exportStream{ctx: context.Background()}
	func() {
		defer func() {
			if r := recover(); r != nil {
				impl = "panic"
			}
		}()
		err := api.Export(req, st)
		switch {
		case err == nil:
			impl, endedOK = "ok end=ok docs="+fmtIDData(st.sent), true
		case status.Code(err) == codes.Unavailable: // the stream is closed with "partial response" after the documents
			impl = "ok end=error docs=" + fmtIDData(st.sent)
		case status.Code(err) == codes.InvalidArgument:
			impl = "err invalid-argument"
		case status.Code(err) == codes.Internal:
			impl = "err internal"
		default:
			impl = "err unknown"
		}
	}()
	w0.mu.Lock()
	w = w0.snapshot()
	w0.mu.Unlock()
	return impl, endedOK, st.sent, w
}

// cleanAnswer: did every shard of the consulted tier answer, without store-reported errors
func cleanAnswer(c tcase, w *world) (bool, string) {
	tier, tn := c.hot, byte('h')
	if c.hotRead {
		tn = 'r'
	}
	for h, n := range w.called {
		if h[0] == 'c' && n > 0 {
			tier, tn = c.cold, 'c'
		}
	}
	for sIdx := range tier {
		got, nerr := false, 0
		for rep, cl := range tier[sIdx] {
			if cl.kind == 'r' && cl.code == 'n' && w.called[hostName(tn, sIdx, rep)] > 0 {
				got, nerr = true, nerr+cl.nerr
			}
		}
		if !got || nerr > 0 {
			return false, fmt.Sprintf("shard %d of the consulted tier did not answer cleanly (answered=%v, store-reported errors=%d)", sIdx, got, nerr)
		}
	}
	return true, ""
}

// ---- Fetch API (Ingestor.Documents): every ID is asked from every store

type fcase struct {
	ids   []id2
	hosts int
	holds map[string][]id2  // host -> documents it stores
	fb    map[string]string // host -> stream misbehaviour
}

func (c fcase) String() string {
	var hs, fb []string
	for _, h := range vh.SortedKeys(c.holds) {
		hs = append(hs, h+":"+fmtIDs(c.holds[h]))
	}
	for _, h := range vh.SortedKeys(c.fb) {
		fb = append(fb, h+":"+c.fb[h])
	}
	return fmt.Sprintf("fcase ids=%s hosts=%d holds=%s fb=%s", fmtIDs(c.ids), c.hosts, vh.JoinStrs(hs, ";"), vh.JoinStrs(fb, ";"))
}

func parseFCase(line string) (fcase, error) {
	c := fcase{holds: map[string][]id2{}, fb: map[string]string{}}
	f := strings.Fields(line)
	if len(f) == 0 || f[0] != "fcase" {
		return c, fmt.Errorf("not an fcase line")
	}
	parseIDList := func(s string) []id2 {
		var r []id2
		if s == "-" || s == "" {
			return r
		}
		for _, x := range strings.Split(s, ",") {
			if id, err := parseID(x); err == nil {
				r = append(r, id)
			}
		}
		return r
	}
	for _, kv := range f[1:] {
		p := strings.SplitN(kv, "=", 2)
		if len(p) != 2 {
			continue
		}
		switch p[0] {
		case "ids":
			c.ids = parseIDList(p[1])
		case "hosts":
			c.hosts, _ = strconv.Atoi(p[1])
		case "holds", "fb":
			if p[1] == "-" {
				continue
			}
			for _, x := range strings.Split(p[1], ";") {
				hv := strings.SplitN(x, ":", 2)
				if len(hv) != 2 {
					continue
				}
				if p[0] == "holds" {
					c.holds[hv[0]] = parseIDList(hv[1])
				} else {
					c.fb[hv[0]] = hv[1]
				}
			}
		}
	}
	return c, nil
}

func runFetchAPI(c fcase) (impl string, sent []sdoc, w *world) {
	w0 := newWorld()
	w0.holds = map[string]map[id2]bool{}
	clients := map[string]storeapi.StoreApiClient{}
	var hosts []string
	for i := 0; i < c.hosts; i++ {
		h := hostName('h', i, 0)
		hosts = append(hosts, h)
		clients[h] = &fake{host: h, w: w0}
		w0.holds[h] = map[id2]bool{}
		for _, id := range c.holds[h] {
			w0.holds[h][id] = true
		}
		w0.fetchOps[h] = c.fb[h]
	}
	shards := make([][]string, len(hosts))
	for i, h := range hosts {
		shards[i] = []string{h}
	}
	empty := &stores.Stores{}
	si := search.NewIngestor(search.Config{HotStores: &stores.Stores{Shards: shards}, HotReadStores: empty, ReadStores: empty, WriteStores: empty}, clients)
	api := proxyapi.VerifNewGrpcV1C16T(si, 20*time.Second, 20*time.Second)
	req := &seqproxyapi.FetchRequest{}
	for _, id := range c.ids {
		req.Ids = append(req.Ids, seq.ID{MID: seq.MID(id[0]), RID: seq.RID(id[1])}.String())
	}
	st := &fetchSrvStream{ctx: context.Background()}
	func() {
		defer func() {
			if r := recover(); r != nil {
				impl = "panic"
			}
		}()
		err := api.Fetch(req, st)
		switch {
		case err == nil:
			impl = "ok " + fmtIDData(st.sent)
		case status.Code(err) == codes.Internal:
			impl = "err internal"
		default:
			impl = "err " + status.Code(err).String()
		}
	}()
	w0.mu.Lock()
	w = w0.snapshot()
	w0.mu.Unlock()
	return impl, st.sent, w
}

func genFCase(r *vh.RNG) fcase {
	c := fcase{hosts: r.Range(1, 4), holds: map[string][]id2{}, fb: map[string]string{}}
	n := r.Range(0, 5)
	for k := 0; k < n; k++ {
		c.ids = append(c.ids, id2{uint64(30 - 2*k), uint64(r.Intn(2))})
	}
	twice := r.Chance(1, 6)
	for _, id := range c.ids {
		if r.Chance(1, 6) {
			continue // nobody has it
		}
		h := hostName('h', r.Intn(c.hosts), 0)
		c.holds[h] = append(c.holds[h], id)
		if twice && r.Chance(1, 2) { // a second copy (replica)
			h2 := hostName('h', r.Intn(c.hosts), 0)
			if h2 != h {
				c.holds[h2] = append(c.holds[h2], id)
			}
		}
	}
	fbPct := []int{0, 25, 60}[r.Intn(3)]
	for i := 0; i < c.hosts; i++ {
		if r.Chance(fbPct, 100) {
			ops := fetchOpsAlphabet[r.Intn(len(fetchOpsAlphabet))]
			if ops != "X" && r.Chance(1, 4) {
				ops += "," + fetchOpsAlphabet[r.Intn(len(fetchOpsAlphabet)-1)]
			}
			c.fb[hostName('h', i, 0)] = ops
		}
	}
	return c
}

// ---- wire level: the real gRPC server (initServer: recover / log / pool interceptors) over a bufconn listener and a
// real gRPC client.  Runs in a child process: if a panic escaped the interceptors the process would die, and that
// must be an observation, not the end of the check.

func wireAnswer(c tcase) (req, impl, exp string) {
	useShuffle(c.shuf)
	ca := -1
	if hasStall(c) {
		ca = runCase(c).cancelAfter
	}
	w0, si, _ := buildCase(c)
	srv := proxyapi.VerifNewGRPCServerC16(si, reqTimeout(c))
	lis := bufconn.Listen(1 << 20)
	go func() { _ = srv.Serve(lis) }()
	defer srv.Stop()
	conn, err := grpc.NewClient("passthrough:///bufnet", grpc.WithContextDialer(func(ctx context.Context, _ string) (net.Conn, error) { return lis.DialContext(ctx) }),
		grpc.WithTransportCredentials(insecure.NewCredentials()))
	if err != nil {
		return "", "dial-error " + err.Error(), "-"
	}
	defer conn.Close()
	cl := seqproxyapi.NewSeqProxyApiClient(conn)
	order := seqproxyapi.Order_ORDER_DESC
	if c.rev {
		order = seqproxyapi.Order_ORDER_ASC
	}
	q := &seqproxyapi.SearchQuery{Query: "message:x", From: timestamppb.New(time.UnixMilli(0)), To: timestamppb.New(time.UnixMilli(1 << 40))}
	ctx, cancel := context.WithTimeout(context.Background(), 30*time.Second)
	defer cancel()
	render := func(docs []*seqproxyapi.Document, total int64, perr *seqproxyapi.Error, partial bool, err error) string {
		switch {
		case err != nil:
			switch status.Code(err) {
			case codes.InvalidArgument:
				return "err invalid-argument"
			case codes.Internal:
				return "err internal"
			}
			return "err " + status.Code(err).String()
		case perr != nil && perr.Code == seqproxyapi.ErrorCode_ERROR_CODE_TOO_MANY_FRACTIONS_HIT && len(docs) == 0:
			return "ok refused tmf"
		}
		var ids []id2
		var toks []int
		for _, d := range docs {
			id, perr := seq.FromString(d.Id)
			if perr != nil {
				return "bad-id " + d.Id
			}
			ids = append(ids, id2{uint64(id.MID), uint64(id.RID)})
			toks = append(toks, tokenOf(d.Data))
		}
		return fmt.Sprintf("ok partial=%s total=%d ids=%s docs=%s", vh.B(partial), total, fmtIDs(ids), vh.JoinInts(toks))
	}
	resp, err := cl.Search(ctx, &seqproxyapi.SearchRequest{Query: q, Size: int64(c.size), Offset: int64(c.off), Order: order})
	impl = render(resp.GetDocs(), resp.GetTotal(), resp.GetError(), resp.GetPartialResponse(), err)
	// ComplexSearch must tell the client the same
	w0.mu.Lock()
	w := w0.snapshot()
	w0.mu.Unlock()
	ord, behav, _ := fetchTrace(w)
	wh, wc := normWinner(c.hot, c.wh), normWinner(c.cold, c.wc)
	req = fmt.Sprintf("wire %s %s %d %d %s %d %s %s", fmtTier(c.hot, arrivalOrder(c.hot, wh)), fmtTier(c.cold, arrivalOrder(c.cold, wc)),
		c.off, c.size, vh.B(c.rev), c.hint, vh.JoinInts(ord), vh.JoinStrs(behav, "|")) + caSuffix(ca)
	_, si2, _ := buildCase(c)
	srv2 := proxyapi.VerifNewGRPCServerC16(si2, reqTimeout(c))
	lis2 := bufconn.Listen(1 << 20)
	go func() { _ = srv2.Serve(lis2) }()
	defer srv2.Stop()
	conn2, err := grpc.NewClient("passthrough:///bufnet", grpc.WithContextDialer(func(ctx context.Context, _ string) (net.Conn, error) { return lis2.DialContext(ctx) }),
		grpc.WithTransportCredentials(insecure.NewCredentials()))
	if err == nil {
		defer conn2.Close()
		cresp, cerr := seqproxyapi.NewSeqProxyApiClient(conn2).ComplexSearch(ctx, &seqproxyapi.ComplexSearchRequest{Query: q, Size: int64(c.size), Offset: int64(c.off), Order: order})
		if cimpl := render(cresp.GetDocs(), cresp.GetTotal(), cresp.GetError(), cresp.GetPartialResponse(), cerr); cimpl != impl {
			impl = "complexsearch-differs search=[" + impl + "] complex=[" + cimpl + "]"
		}
	}
	// the streaming side (RecoverStreamInterceptor): Export over the wire, newest first
	exp = "-"
	if !hasStall(c) && !c.rev && (c.off >= 1<<62 || twoUnknown(c) || len(c.String())%4 == 0) { // the panicking cases and a sample
		_, si3, _ := buildCase(c)
		srv3 := proxyapi.VerifNewGRPCServerC16(si3, 20*time.Second)
		lis3 := bufconn.Listen(1 << 20)
		go func() { _ = srv3.Serve(lis3) }()
		defer srv3.Stop()
		conn3, err := grpc.NewClient("passthrough:///bufnet", grpc.WithContextDialer(func(ctx context.Context, _ string) (net.Conn, error) { return lis3.DialContext(ctx) }),
			grpc.WithTransportCredentials(insecure.NewCredentials()))
		if err == nil {
			defer conn3.Close()
			st, err := seqproxyapi.NewSeqProxyApiClient(conn3).Export(ctx, &seqproxyapi.ExportRequest{Query: q, Size: int64(c.size), Offset: int64(c.off)})
			n := 0
			for err == nil {
				_, err = st.Recv()
				if err == nil {
					n++
				}
			}
			if err == io.EOF {
				exp = fmt.Sprintf("export=ok docs=%d", n)
			} else {
				exp = fmt.Sprintf("export=err %s docs=%d", status.Code(err), n)
			}
		}
	}
	return req, impl, exp
}

func wireChild() {
	logger.SetLevel(zap.FatalLevel)
	sc := bufio.NewScanner(os.Stdin)
	sc.Buffer(make([]byte, 1<<20), 1<<24)
	out := bufio.NewWriter(os.Stdout)
	defer out.Flush()
	for sc.Scan() {
		c, err := parseCase(sc.Text())
		if err != nil {
			continue
		}
		req, impl, exp := wireAnswer(c)
		fmt.Fprintf(out, "%s\t%s\t%s\n", req, impl, exp)
		out.Flush()
	}
}

// runWire sends the cases to a child process; died = the child did not answer every case
func runWire(cases []tcase) (reqs, impls, exps []string, died bool, detail string) {
	var in bytes.Buffer
	for _, c := range cases {
		in.WriteString(c.String() + "\n")
	}
	ctx, cancel := context.WithTimeout(context.Background(), 180*time.Second)
	defer cancel()
	cmd := exec.CommandContext(ctx, os.Args[0])
	cmd.Env = append(os.Environ(), "C16_WIRE_CHILD=1")
	cmd.Stdin = &in
	var errb bytes.Buffer
	cmd.Stderr = &errb
	outb, err := cmd.Output()
	for _, l := range strings.Split(strings.TrimSpace(string(outb)), "\n") {
		p := strings.SplitN(l, "\t", 3)
		if len(p) == 3 {
			reqs, impls, exps = append(reqs, p[0]), append(impls, p[1]), append(exps, p[2])
		}
	}
	if err != nil || len(reqs) != len(cases) {
		tail := errb.String()
		if len(tail) > 600 {
			tail = tail[len(tail)-600:]
		}
		return reqs, impls, exps, true, fmt.Sprintf("child answered %d of %d cases: %v; stderr tail: %s", len(reqs), len(cases), err, tail)
	}
	return reqs, impls, exps, false, ""
}

// twoUnknown: two stores put an unrequested document at the head of their fetch streams (the merger panics)
func twoUnknown(c tcase) bool {
	n := 0
	for _, ops := range c.fb {
		if strings.Contains(ops, "x0") {
			n++
		}
	}
	return n >= 2
}

const stallTimeout = 250 * time.Millisecond

// hasStall: some store's fetch stream hangs until the request deadline (op S<k>)
func hasStall(c tcase) bool {
	for _, ops := range c.fb {
		if strings.Contains(ops, "S") {
			return true
		}
	}
	return false
}

// hasTrickle: some store's fetch stream pauses for trickleDelay before its k-th document (op T<k>); only Export runs wait
func hasTrickle(c tcase) bool {
	for _, ops := range c.fb {
		if strings.Contains(ops, "T") {
			return true
		}
	}
	return false
}

func onlyTrickle(ops string) bool {
	for _, op := range strings.Split(ops, ",") {
		if op != "" && op != "-" && op[0] != 'T' {
			return false
		}
	}
	return true
}

func reqTimeout(c tcase) time.Duration {
	if hasStall(c) {
		return stallTimeout
	}
	return 20 * time.Second
}

func caSuffix(ca int) string {
	if ca < 0 {
		return ""
	}
	return fmt.Sprintf(" ca=%d", ca)
}

// sharedIDs: does some ID occur in the answers of two different shards of the same tier?
func sharedIDs(t [][]call) bool {
	seen := map[id2]int{}
	for s := range t {
		for _, c := range t[s] {
			for _, id := range c.ids {
				if o, ok := seen[id]; ok && o != s {
					return true
				}
				seen[id] = s
			}
		}
	}
	return false
}

// toModel renders the driver request and the implementation's canonical answer.
// compareDocs=false when the order of the per-source map or the unstable sort can legitimately change the result.
// fetchTrace: the sources that were asked for documents and what each delivered, as the model's oracle arguments
func fetchTrace(w *world) (order []int, behav []string, unknownStreams int) {
	for _, h := range vh.SortedKeys(w.fetchReq) {
		order = append(order, srcNat(h))
	}
	sort.Ints(order)
	for _, h := range vh.SortedKeys(w.fetchReq) {
		if w.fetchFail[h] {
			behav = append(behav, fmt.Sprintf("%d:x", srcNat(h)))
			continue
		}
		req := map[string]bool{}
		for _, x := range w.fetchReq[h] {
			req[x] = true
		}
		unk := false
		for _, e := range w.delivered[h] {
			if e.err || e.stall {
				break
			}
			if !req[e.id.String()] {
				unk = true
			}
		}
		if unk {
			unknownStreams++
		}
		behav = append(behav, fmt.Sprintf("%d:%s", srcNat(h), fmtEvs(w.delivered[h])))
	}
	return
}

func toModel(c tcase, r result) (req, impl string, comparable bool, tags []string) {
	withSrc := !(sharedIDs(c.hot) || sharedIDs(c.cold))
	wh, wc := normWinner(c.hot, c.wh), normWinner(c.cold, c.wc)
	w := r.w
	order, behav, unknownStreams := fetchTrace(w)
	comparable = unknownStreams <= 1
	fetch := c.fetch
	req = fmt.Sprintf("full %s %s %d %d %s %s %d %s %s %s", fmtTier(c.hot, arrivalOrder(c.hot, wh)), fmtTier(c.cold, arrivalOrder(c.cold, wc)),
		c.off, c.size, vh.B(c.rev), vh.B(withSrc), c.hint, vh.B(fetch), vh.JoinInts(order), vh.JoinStrs(behav, "|")) + caSuffix(r.cancelAfter)
	switch {
	case r.kind == "ok":
		ids := make([]string, len(r.ids))
		for i, id := range r.ids {
			ids[i] = id.String()
			if withSrc {
				_, s, rep := parseHost(r.hosts[i])
				ids[i] += fmt.Sprintf("@%d:%d", s, rep)
			}
		}
		docs := r.docs
		if !withSrc {
			// the surviving source of a duplicated ID is not specified: the request cannot carry the deliveries
			comparable = comparable && len(w.fetchReq) == 0
		}
		impl = fmt.Sprintf("ok partial=%s cold=%s total=%d nerr=%d ids=%s docs=%s", vh.B(r.partial), vh.B(r.cold), r.total, r.nerr, vh.JoinStrs(ids, ","), fmtDocs(docs))
	case r.kind == "panic":
		impl = "panic"
	default:
		impl = r.kind
	}
	tags = append(tags, "outcome="+strings.Fields(r.kind)[0], fmt.Sprintf("hotShards=%d", len(c.hot)), fmt.Sprintf("coldShards=%d", len(c.cold)))
	if r.kind == "ok" {
		tags = append(tags, "partial="+vh.B(r.partial), "cold="+vh.B(r.cold))
	} else {
		tags = append(tags, "kind="+r.kind)
	}
	return
}

// ---------------------------------------------------------------- the property on the implementation

func idLess(a, b id2) bool { return a[0] < b[0] || (a[0] == b[0] && a[1] < b[1]) }

// expectedTop: sorted, de-duplicated union, paginated
func expectedTop(lists [][]id2, rev bool, off, size int) []id2 {
	set := map[id2]bool{}
	var all []id2
	for _, l := range lists {
		for _, id := range l {
			if !set[id] {
				set[id] = true
				all = append(all, id)
			}
		}
	}
	sort.Slice(all, func(i, j int) bool {
		if rev {
			return idLess(all[i], all[j])
		}
		return idLess(all[j], all[i])
	})
	if off > len(all) {
		off = len(all)
	}
	all = all[off:]
	if len(all) > size {
		all = all[:size]
	}
	return all
}

func faultFree(c tcase) bool {
	if uint64(c.off)+uint64(c.size) >= 1<<63 {
		return false // Offset+Size wraps: the request fails with an (honest) error - c16_limit_wrap
	}
	saved := curShuf
	curShuf = c.shuf
	defer func() { curShuf = saved }()
	for _, s := range c.hot {
		if len(s) == 0 {
			return false
		}
		if first := s[permFor(len(s))[0]]; first.kind != 'r' || first.code != 'n' {
			return false
		}
	}
	for _, ops := range c.fb {
		if !onlyTrickle(ops) { // a slow store is not a fault
			return false
		}
	}
	return len(c.hot) > 0
}

type finding struct{ site, class, what string }

func checkProperty(c tcase, r result) []finding {
	var fs []finding
	bad := func(site, class, what string) { fs = append(fs, finding{site, class, what}) }
	w := r.w
	winnerAsked := func(tier byte, t [][]call, wn int) bool {
		wn = normWinner(t, wn)
		if wn < 0 {
			return false
		}
		k, rep := shardKind(t[wn])
		return k == 'z' || w.called[hostName(tier, wn, rep)] > 0
	}
	if r.timeouts > 0 && (winnerAsked(r.hotTier, c.hot, c.wh) || winnerAsked('c', c.cold, c.wc)) {
		bad("proxy/search/ingestor.go:searchStores", "no-fail-fast", "a short-circuit answer (wants-old-data / too-many-fractions) did not end the request: the other shards were still awaited")
	}
	if strings.HasPrefix(r.kind, "err-with-data") {
		bad("proxy/search/ingestor.go:Search", "error-with-result", "Search returned a result together with an error that is not ErrPartialResponse: "+r.kind)
		return fs
	}
	if r.kind != "ok" {
		if faultFree(c) {
			bad("proxy/search/ingestor.go:Search", "fault-free-failure", "every shard answers on its first replica and every fetch stream is well-formed, yet Search failed: "+r.kind)
		}
		return fs
	}
	// which tier produced the result
	tier, tierName := c.hot, r.hotTier
	if r.cold {
		tier, tierName = c.cold, 'c'
		// the read stores may only be consulted after a hot store declared the range too old
		anyWod := false
		for _, s := range c.hot {
			for _, cl := range s {
				if cl.kind == 'w' || (cl.kind == 'r' && cl.code == 'w') {
					anyWod = true
				}
			}
		}
		if !anyWod {
			bad("proxy/search/ingestor.go:Search", "cold-without-wod", "the read stores were consulted although no hot store declared the range older than its retention")
		}
	} else {
		for s := range c.hot {
			if k, rep := shardKind(c.hot[s]); k == 'w' && w.called[hostName(r.hotTier, s, rep)] > 0 && w.gated[hostName(r.hotTier, s, rep)] == false {
				bad("proxy/search/ingestor.go:Search", "wod-ignored", "a hot store declared the range older than its retention, yet the result comes from the hot tier")
			}
		}
	}
	// shards whose answer the proxy received
	var lists [][]id2
	answered := 0
	for s := range tier {
		got := false
		for rep, cl := range tier[s] {
			if cl.kind == 'r' && cl.code == 'n' && w.called[hostName(tierName, s, rep)] > 0 {
				if !got {
					lists = append(lists, cl.ids)
				}
				got = true
			}
		}
		if got {
			answered++
		} else if k, _ := shardKind(tier[s]); k == 'o' {
			bad("proxy/search/ingestor.go:searchShard", "replica-not-tried", fmt.Sprintf("shard %d has a replica that answers once the failing ones before it are skipped, but it was not asked", s))
		}
	}
	want := expectedTop(lists, c.rev, c.off, c.size)
	asked := ""
	if uint64(c.off)+uint64(c.size) < 1<<62 {
		for _, h := range vh.SortedKeys(w.gotReq) {
			if g := w.gotReq[h]; g[0]+g[1] < int64(c.off+c.size) && asked == "" {
				asked = fmt.Sprintf("store %s was asked for Size=%d Offset=%d, the request is Size=%d Offset=%d", h, g[0], g[1], c.size, c.off)
			}
		}
	}
	if fmtIDs(want) != fmtIDs(r.ids) && asked != "" {
		bad("proxy/search/search_request.go:GetAPISearchRequest", "page-cut-at-the-stores", fmt.Sprintf("every store answers with its newest Size+Offset matches, but %s (conf.MaxRequestedDocuments=%d): returned IDs %s are not the top of the merge over the answering shards (%s) and nothing is flagged", asked, conf.MaxRequestedDocuments, fmtIDs(r.ids), fmtIDs(want)))
	} else if fmtIDs(want) != fmtIDs(r.ids) {
		bad("proxy/search/ingestor.go:Search", "wrong-top", fmt.Sprintf("returned IDs %s are not the top of the merge over the answering shards (%s)", fmtIDs(r.ids), fmtIDs(want)))
	}
	if answered < len(tier) && !r.partial {
		bad("proxy/search/ingestor.go:searchStores", "incomplete-as-complete", fmt.Sprintf("%d of %d shards answered but the result is not flagged partial", answered, len(tier)))
	}
	if answered == len(tier) && r.partial {
		bad("proxy/search/ingestor.go:searchStores", "complete-as-partial", "every shard answered but the result is flagged partial")
	}
	// every returned ID is attributed to a store that returned it
	for i, id := range r.ids {
		h := r.hosts[i]
		cl, ok := w.search[h]
		has := false
		for _, x := range cl.ids {
			if x == id {
				has = true
			}
		}
		if !ok || !has || w.called[h] == 0 {
			bad("proxy/search/ingestor.go:responseToQPR", "wrong-source", fmt.Sprintf("ID %s is attributed to store %q which did not return it", id, h))
		}
	}
	if !c.fetch {
		return fs
	}
	// documents: positionally aligned with the IDs
	if r.cancelAfter >= 0 && len(r.docs) <= len(r.ids) {
		// the request deadline fired during the fetch phase: the iterator ends early (makeProtoDocs fills the rest with
		// empty documents); what was read must still be aligned - checked below on the prefix - and the API-level
		// oracle checks that the response lists every ID
	} else if len(r.ids) > 0 && len(r.docs) != len(r.ids) {
		bad("proxy/search/merged_docs_iterator.go:mergedStreamIterator.Next", "docs-count", fmt.Sprintf("%d IDs but %d documents", len(r.ids), len(r.docs)))
		return fs
	}
	// each store is asked exactly for its own IDs, in order
	wantReq := map[string][]string{}
	for i, id := range r.ids {
		wantReq[r.hosts[i]] = append(wantReq[r.hosts[i]], id.String())
	}
	for h, l := range wantReq {
		if strings.Join(l, ",") != strings.Join(w.fetchReq[h], ",") {
			bad("proxy/search/ingestor.go:groupIDsBySource", "wrong-fetch-request", fmt.Sprintf("store %s was asked for [%s], its IDs are [%s]", h, strings.Join(w.fetchReq[h], ","), strings.Join(l, ",")))
		}
	}
	for h := range w.fetchReq {
		if _, ok := wantReq[h]; !ok {
			bad("proxy/search/ingestor.go:groupIDsBySource", "wrong-fetch-request", "store "+h+" holds none of the returned IDs but was asked for documents")
		}
	}
	for i, d := range r.docs {
		if d.id != r.ids[i] {
			bad("proxy/search/merged_docs_iterator.go:mergedStreamIterator.Next", "docs-misaligned", fmt.Sprintf("document %d carries ID %s, the %d-th returned ID is %s", i, d.id, i, r.ids[i]))
			continue
		}
		if d.data == 0 {
			continue
		}
		if d.data != dataToken(r.hosts[i], r.ids[i]) {
			bad("proxy/search/merged_docs_iterator.go:mergedStreamIterator.Next", "docs-foreign-bytes", fmt.Sprintf("document %d (%s) carries bytes its store %s did not deliver for that ID", i, d.id, r.hosts[i]))
		}
	}
	// delivered => returned (c16_docs_complete): the i-th ID's store delivered a document for it, every copy it
	// delivered is non-empty, and every copy comes after nothing but documents requested no later than i or not
	// requested at all (repeats, unrequested ones): then the i-th document of the response must not be empty
	posOf := map[string]int{} // "host/id" -> position in the response
	for i, id := range r.ids {
		posOf[r.hosts[i]+"/"+id.String()] = i
	}
	for i, id := range r.ids {
		h := r.hosts[i]
		if i >= len(r.docs) {
			break // deadline during the fetch phase: not read
		}
		if w.fetchFail[h] || r.docs[i].data != 0 {
			continue
		}
		copies, guarded, nonEmpty := 0, true, true
		maxBefore := -1
		for _, e := range w.delivered[h] {
			if e.err || e.stall {
				break
			}
			if e.id == id {
				copies++
				if e.data == 0 {
					nonEmpty = false
				}
				if maxBefore > i {
					guarded = false
				}
			}
			if p, ok := posOf[h+"/"+e.id.String()]; ok && p > maxBefore {
				maxBefore = p
			}
		}
		if copies > 0 && guarded && nonEmpty {
			bad("proxy/search/merged_docs_iterator.go:mergedStreamIterator.Next", "delivered-doc-dropped", fmt.Sprintf("store %s delivered %s in request order (after repeated / unrequested documents only) but the response carries an empty document for it; hint=%q", h, id, w.hint))
			break
		}
	}
	return fs
}

// ---------------------------------------------------------------- generators

func genIDs(r *vh.RNG, shard, n int, rev bool, base int) []id2 {
	// distinct per shard: rid = shard+1
	set := map[uint64]bool{}
	var mids []uint64
	for len(mids) < n {
		m := uint64(base + r.Intn(12))
		if !set[m] {
			set[m] = true
			mids = append(mids, m)
		}
	}
	sort.Slice(mids, func(i, j int) bool {
		if rev {
			return mids[i] < mids[j]
		}
		return mids[i] > mids[j]
	})
	ids := make([]id2, n)
	for i, m := range mids {
		ids[i] = id2{m, uint64(shard + 1)}
	}
	return ids
}

func genTier(r *vh.RNG, maxS, maxR int, rev bool, faultPct int, wodPct int, share bool) [][]call {
	S := r.Range(1, maxS)
	t := make([][]call, S)
	for s := 0; s < S; s++ {
		R := r.Range(1, maxR)
		if r.Chance(1, 60) {
			R = 0
		}
		base := genIDs(r, s, r.Range(0, 4), rev, 10)
		for rep := 0; rep < R; rep++ {
			var c call
			switch {
			case r.Chance(faultPct, 100):
				c = call{kind: 'f'}
			case r.Chance(wodPct, 100):
				c = []call{{kind: 'w'}, {kind: 'r', code: 'w'}}[r.Intn(2)]
			case r.Chance(faultPct, 400):
				c = []call{{kind: 'u'}, {kind: 'r', code: 'u'}, {kind: 'r', code: 'f'}}[r.Intn(3)]
			default:
				ids := base
				if r.Chance(1, 4) { // a lagging replica
					ids = genIDs(r, s, r.Range(0, 3), rev, 10)
				}
				if share && r.Chance(1, 2) {
					ids = append([]id2{}, ids...)
					for i := range ids {
						if r.Chance(1, 2) {
							ids[i][1] = 1 // collides with shard 0's rid
						}
					}
				}
				c = call{kind: 'r', code: 'n', total: len(ids) + r.Intn(3), ids: ids}
				if r.Chance(1, 10) {
					c.total = 0
				}
				if r.Chance(1, 12) {
					c.nerr = 1
				}
			}
			t[s] = append(t[s], c)
		}
	}
	return t
}

var fetchOpsAlphabet = []string{"m0", "m1", "e0", "e1", "b0", "b1", "b2", "t0", "t1", "x0", "x1", "x2", "d0", "d1", "D0", "s0", "s1", "X"}

func genCase(r *vh.RNG) tcase {
	c := tcase{fb: map[string]string{}}
	c.rev = r.Chance(1, 3)
	faultPct := []int{0, 15, 35, 60}[r.Intn(4)]
	wodPct := []int{0, 0, 10, 40}[r.Intn(4)]
	share := r.Chance(1, 8)
	c.hot = genTier(r, 3, 3, c.rev, faultPct, wodPct, share)
	if r.Chance(2, 3) {
		c.cold = genTier(r, 3, 3, c.rev, faultPct, wodPct/4, share)
	}
	c.hotRead = r.Chance(1, 5)
	c.off = []int{0, 0, 0, 1, 2}[r.Intn(5)]
	c.size = r.Range(1, 8)
	if r.Chance(1, 3) {
		c.hint = 7
	}
	c.fetch = r.Chance(4, 5)
	if r.Chance(1, 3) {
		c.shuf = map[int][]int{2: r.Perm(2), 3: r.Perm(3)}
	}
	curShuf = c.shuf
	c.wh, c.wc = pickWinner(c.hot, r), pickWinner(c.cold, r)
	curShuf = nil
	fbPct := []int{0, 20, 50}[r.Intn(3)]
	hotTier := byte('h')
	if c.hotRead {
		hotTier = 'r'
	}
	for _, tt := range []struct {
		tier byte
		t    [][]call
	}{{hotTier, c.hot}, {'c', c.cold}} {
		for s := range tt.t {
			for rep := range tt.t[s] {
				if r.Chance(fbPct, 100) {
					ops := fetchOpsAlphabet[r.Intn(len(fetchOpsAlphabet))]
					if ops != "X" && r.Chance(1, 4) {
						ops += "," + fetchOpsAlphabet[r.Intn(len(fetchOpsAlphabet)-1)]
					}
					c.fb[hostName(tt.tier, s, rep)] = ops
				}
			}
		}
	}
	return c
}

// genCapCase: honest stores (a script's IDs are what the store holds; it answers with the first Size+Offset of the request
// it receives), conf.MaxRequestedDocuments small, skewed ownership, pages around and above the cap
func genCapCase(r *vh.RNG) tcase {
	c := tcase{fb: map[string]string{}, wh: -1, wc: -1}
	c.rev = r.Chance(1, 3)
	c.cap = r.Range(1, 6)
	c.size = r.Range(max(1, c.cap-1), c.cap+6)
	c.off = []int{0, 0, 1, 2}[r.Intn(4)]
	c.fetch = r.Chance(1, 2)
	if r.Chance(1, 4) {
		c.hint = 7
	}
	S := r.Range(2, 3)
	for s := 0; s < S; s++ {
		n := r.Range(0, 4)
		if s == 0 || r.Chance(1, 3) {
			n = r.Range(5, 11) // the shard that owns most of the top
		}
		ids := genIDs(r, s, n, c.rev, 10)
		var reps []call
		for rep := 0; rep < r.Range(1, 2); rep++ {
			if r.Chance(1, 8) {
				reps = append(reps, call{kind: 'f'})
			} else {
				reps = append(reps, call{kind: 'r', code: 'n', total: len(ids), ids: ids})
			}
		}
		c.hot = append(c.hot, reps)
	}
	if r.Chance(1, 3) {
		c.shuf = map[int][]int{2: r.Perm(2), 3: r.Perm(3)}
	}
	return c
}

// small scope: 2 shards x up to 2 replicas, every script over a reduced alphabet, with a cold tier
func smallCases(r *vh.RNG, thorough bool) []tcase {
	okA := call{kind: 'r', code: 'n', total: 2, ids: []id2{{9, 1}, {5, 1}}}
	okB := call{kind: 'r', code: 'n', total: 2, ids: []id2{{8, 2}, {4, 2}}}
	alphaA := []call{{kind: 'f'}, {kind: 'w'}, okA, {kind: 'r', code: 'f'}, {kind: 'u'}}
	alphaB := []call{{kind: 'f'}, {kind: 'r', code: 'w'}, okB, {kind: 'r', code: 'f'}, {kind: 'r', code: 'u'}}
	coldOK := [][]call{{{kind: 'r', code: 'n', total: 1, ids: []id2{{7, 1}}}}, {{kind: 'f'}, {kind: 'r', code: 'n', total: 1, ids: []id2{{6, 2}}}}}
	coldHalf := [][]call{{{kind: 'r', code: 'n', total: 1, ids: []id2{{7, 1}}}}, {{kind: 'f'}}}
	coldBad := [][]call{{{kind: 'f'}}, {{kind: 'f'}, {kind: 'f'}}}
	var res []tcase
	// the same IDs on two shards with totals smaller than the number of repetitions: the uint64 total wraps
	dupIDs := []id2{{9, 1}, {5, 1}, {3, 1}}
	for _, tt := range [][2]int{{1, 0}, {2, 0}, {1, 1}, {3, 3}, {0, 0}} {
		res = append(res, tcase{hot: [][]call{{{kind: 'r', code: 'n', total: tt[0], ids: dupIDs}}, {{kind: 'r', code: 'n', total: tt[1], ids: dupIDs}}},
			size: 5, wh: -1, wc: -1, fb: map[string]string{}})
	}
	// the proxy's SearchTimeout fires during the fetch phase: every shard answered the search, one store's document
	// stream hangs after k documents until the deadline
	{
		a := []call{{kind: 'r', code: 'n', total: 4, ids: []id2{{40, 1}, {30, 1}, {20, 1}, {10, 1}}}}
		b := []call{{kind: 'r', code: 'n', total: 3, ids: []id2{{35, 2}, {25, 2}, {15, 2}}}}
		for k := 0; k <= 3; k++ {
			res = append(res, tcase{hot: [][]call{a}, size: 4, fetch: true, wh: -1, wc: -1, fb: map[string]string{"h0_0": fmt.Sprintf("S%d", k)}})
			res = append(res, tcase{hot: [][]call{a, b}, size: 6, hint: 7, fetch: true, wh: -1, wc: -1, fb: map[string]string{"h1_0": fmt.Sprintf("S%d", k)}})
		}
		res = append(res, tcase{hot: [][]call{a, b}, size: 6, fetch: true, wh: -1, wc: -1, fb: map[string]string{"h0_0": "S2", "h1_0": "m0"}})
	}
	// two stores deliver an unrequested document first: the merged fetch stream compares two unknown IDs and panics
	// (DESIGN section 7, not a defect: the recover interceptor must turn it into an error)
	for _, hint := range []int{0, 7} {
		a := []call{{kind: 'r', code: 'n', total: 2, ids: []id2{{40, 1}, {30, 1}}}}
		b := []call{{kind: 'r', code: 'n', total: 2, ids: []id2{{35, 2}, {25, 2}}}}
		res = append(res, tcase{hot: [][]call{a, b}, size: 4, hint: hint, fetch: true, wh: -1, wc: -1, fb: map[string]string{"h0_0": "x0", "h1_0": "x0"}})
	}
	// a slow store: its documents trickle in for longer than SearchTimeout but well within ExportTimeout - Export must
	// still deliver every document (or end with an error); only the Export runs really wait
	{
		a := []call{{kind: 'r', code: 'n', total: 4, ids: []id2{{40, 1}, {30, 1}, {20, 1}, {10, 1}}}}
		b := []call{{kind: 'r', code: 'n', total: 3, ids: []id2{{35, 2}, {25, 2}, {15, 2}}}}
		res = append(res, tcase{hot: [][]call{a}, size: 4, fetch: true, wh: -1, wc: -1, fb: map[string]string{"h0_0": "T1"}})
		res = append(res, tcase{hot: [][]call{a, b}, size: 6, hint: 7, fetch: true, wh: -1, wc: -1, fb: map[string]string{"h1_0": "T0"}})
		res = append(res, tcase{hot: [][]call{a, b}, size: 7, fetch: true, wh: -1, wc: -1, fb: map[string]string{"h0_0": "T2"}})
	}
	// honest stores under a small conf.MaxRequestedDocuments: shard 0 holds most of the requested top, the page is larger than
	// the cap (Search / ComplexSearch accept that): the result must still be the top of the merged truth
	for _, cp := range []int{1, 2, 3, 5} {
		for _, off := range []int{0, 1} {
			for _, rev := range []bool{false, true} {
				var ha, hb []id2
				for i := 0; i < 7; i++ { // shard 0: the 7 first in the order, shard 1: 4 after them
					ha = append(ha, id2{uint64(30 - i), 1})
				}
				for i := 0; i < 4; i++ {
					hb = append(hb, id2{uint64(20 - i), 2})
				}
				if rev {
					for i := range ha {
						ha[i][0] = uint64(10 + i)
					}
					for i := range hb {
						hb[i][0] = uint64(20 + i)
					}
				}
				for _, size := range []int{cp, cp + 1, cp + 3, 8} {
					res = append(res, tcase{hot: [][]call{{{kind: 'r', code: 'n', total: 7, ids: ha}}, {{kind: 'f'}, {kind: 'r', code: 'n', total: 4, ids: hb}}},
						off: off, size: size, rev: rev, fetch: size%2 == 0, wh: -1, wc: -1, fb: map[string]string{}, cap: cp})
				}
			}
		}
	}
	// Offset+Size at and beyond the int range: the sum wraps for MaxInt64+1 ... (MergeQPRs panics), not for 2^62+...
	for _, off := range []int{math.MaxInt64, math.MaxInt64 - 1, 1 << 62} {
		for _, size := range []int{1, 2, math.MaxInt32} {
			okS := []call{{kind: 'r', code: 'n', total: 2, ids: []id2{{9, 1}, {5, 1}}}}
			for _, hot := range [][][]call{{okS}, {okS, {{kind: 'f'}}}, {{{kind: 'f'}}}, {{{kind: 'w'}}, okS}} {
				res = append(res, tcase{hot: hot, cold: [][]call{{{kind: 'r', code: 'n', total: 1, ids: []id2{{7, 1}}}}}, off: off, size: size, fetch: true, wh: 0, wc: -1, fb: map[string]string{}})
			}
		}
	}
	// ShuffleReplicas=true: one or two shards, 2-3 replicas holding their own documents, every order, every
	// fail / lagging / answering script: a wrong source shows up as a wrong attribution and in the fetched bytes
	for _, n := range []int{2, 3} {
		for _, perm := range allPerms(n) {
			nScripts := 1
			for i := 0; i < n; i++ {
				nScripts *= 3
			}
			for m := 0; m < nScripts; m++ {
				var cs []call
				for rpl, mm := 0, m; rpl < n; rpl, mm = rpl+1, mm/3 {
					switch mm % 3 {
					case 0:
						cs = append(cs, call{kind: 'f'})
					case 1: // lagging replica: misses the newest document
						cs = append(cs, call{kind: 'r', code: 'n', total: 1, ids: []id2{{uint64(20 + rpl), 1}}})
					default:
						cs = append(cs, call{kind: 'r', code: 'n', total: 2, ids: []id2{{30, 1}, {uint64(20 + rpl), 1}}})
					}
				}
				res = append(res, tcase{hot: [][]call{cs}, size: 4, fetch: true, wh: -1, wc: -1, fb: map[string]string{}, shuf: map[int][]int{n: perm}})
				if m%2 == 1 {
					res = append(res, tcase{hot: [][]call{cs, {{kind: 'r', code: 'n', total: 1, ids: []id2{{25, 2}}}}}, size: 4, hint: 7, fetch: true, wh: -1, wc: -1, fb: map[string]string{}, shuf: map[int][]int{n: perm}})
				}
			}
		}
	}
	sa, sb := seqs(alphaA, 2), seqs(alphaB, 2)
	for _, a := range sa[1:] {
		for _, b := range sb[1:] {
			for ci, cold := range [][][]call{nil, coldOK, coldHalf, coldBad} {
				if !thorough && ci > 0 && r.Intn(3) != 0 {
					continue
				}
				for _, wh := range []int{0, 1} {
					c := tcase{hot: [][]call{a, b}, cold: cold, size: 3, fetch: true, wh: wh, wc: -1, fb: map[string]string{}}
					ka, _ := shardKind(a)
					kb, _ := shardKind(b)
					if wh == 1 && !(isShortCircuit(ka) && isShortCircuit(kb)) {
						continue // the winner only matters when both shards short-circuit
					}
					res = append(res, c)
				}
			}
		}
	}
	return res
}

// ---------------------------------------------------------------- main

func main() {
	if os.Getenv("C16_WIRE_CHILD") == "1" {
		wireChild()
		return
	}
	o := vh.ParseFlags()
	logger.SetLevel(zap.FatalLevel)
	rep := vh.NewReport("C16", o)
	rng := vh.NewRNG(o.Seed)

	chFull := vh.NewChannel("full", "real Ingestor.Search (search, hot->cold fallback, MergeQPRs, paginate, FetchDocsStream, len(ids) Next calls) vs SV.ProxyRead.searchAndFetch on the same scripts; the fetch deliveries are the ones the fakes recorded; non-trivial = some replica failed/refused or some fetch stream misbehaved")
	orc := vh.NewOracle("search.property", "on the real Search: error, or IDs = top of the merge over exactly the shards whose answer was received, partial flag iff some shard of the consulted tier did not answer, read stores only after wants-old-data, every store asked for exactly its IDs, i-th document = i-th ID with its store's bytes or empty, nothing dropped from a store that delivered everything; non-trivial = a fault was injected and the request succeeded")

	var cases []tcase
	replaying := o.Replay != ""
	if replaying {
		lines, err := vh.ReadReplay(o.Replay)
		if err != nil {
			fmt.Fprintln(os.Stderr, err)
			os.Exit(3)
		}
		for _, l := range lines {
			if c, err := parseCase(l); err == nil {
				cases = append(cases, c)
			}
		}
	} else {
		cases = append(cases, smallCases(rng, o.Thorough())...)
		n := o.Pick(1500, 60000)
		for i := 0; i < n; i++ {
			cases = append(cases, genCase(rng))
		}
		for i := 0; i < n/8; i++ {
			cases = append(cases, genCapCase(rng))
		}
	}

	chExport := vh.NewChannel("export", "real proxyapi Export handler (doSearch, then every item of the document stream with the Id taken from the document) vs SV.ProxyApi.apiExport: error class before anything is sent, or the (id, bytes) pairs sent and how the stream ends; non-trivial = a fault was injected")
	chAPI := vh.NewChannel("api", "real proxyapi Search handler (doSearch, processSearchErrors, makeProtoDocs) over the real Ingestor and the same fakes vs SV.ProxyRead.api: status error / refused / response with partial flag, IDs and document bytes; non-trivial = some replica failed/refused, a store reported errors, or a fetch stream misbehaved")
	skipped := 0
	for _, c := range cases {
		useShuffle(c.shuf)
		r := runCase(c)
		m := eff(c) // what the model is told the stores answered (honest stores: their first off+size IDs)
		if !hasStall(c) { // Export has its own (long) timeout; the stalled-fetch cases are about the Search handlers
			implX, endedOK, sentX, wx := runExport(c)
			orderX, behavX, unkX := fetchTrace(wx)
			sharedX := sharedIDs(c.hot) || sharedIDs(c.cold)
			if unkX <= 1 && !(sharedX && len(wx.fetchReq) > 0) && wx.timeouts == 0 {
				wh, wc := normWinner(c.hot, c.wh), normWinner(c.cold, c.wc)
				chExport.Add(fmt.Sprintf("export %d %s %s %d %d %d %s %s", conf.MaxRequestedDocuments, fmtTier(m.hot, arrivalOrder(c.hot, wh)), fmtTier(m.cold, arrivalOrder(c.cold, wc)),
					c.off, c.size, c.hint, vh.JoinInts(orderX), vh.JoinStrs(behavX, "|")), implX, !faultFree(c), "answer="+strings.Join(strings.Fields(implX)[:min(2, len(strings.Fields(implX)))], "-"))
			}
			if endedOK && !c.rev && r.kind == "ok" && faultFree(c) && len(sentX) != len(r.ids) {
				// nothing failed (a store may be slow: its documents trickle in past SearchTimeout, within ExportTimeout)
				rep.Violate(vh.Violation{Site: "proxyapi/grpc_export.go:Export", Class: "prefix-as-complete", What: fmt.Sprintf("every shard answered and every fetch stream is well-formed; Search returns %d IDs, Export streamed %d documents and ended with status OK (slow store: %v): an incomplete export presented as complete", len(r.ids), len(sentX), hasTrickle(c)), Replay: []string{c.String()}})
			}
			if endedOK {
				if clean, why := cleanAnswer(c, wx); !clean {
					rep.Violate(vh.Violation{Site: "proxyapi/grpc_export.go:Export", Class: "incomplete-as-complete", What: "Export streamed its documents and ended with status OK although " + why + ": the client cannot tell the export is incomplete", Replay: []string{c.String()}})
				}
			}
			for _, d := range sentX { // every exported document carries bytes some store of the deployment delivered for that ID
				okBytes := d.data == 0
				for h, evs := range wx.delivered {
					for _, e := range evs {
						if !e.err && !e.stall && e.id == d.id && e.data == d.data && dataToken(h, d.id) == d.data {
							okBytes = true
						}
					}
				}
				if !okBytes {
					rep.Violate(vh.Violation{Site: "proxyapi/grpc_export.go:Export", Class: "docs-foreign-bytes", What: fmt.Sprintf("exported document %s carries bytes no store delivered for that ID", d.id), Replay: []string{c.String()}})
					break
				}
			}
		}
		{
			implAPI, wa := runAPI(c)
			order, behav, unk := fetchTrace(wa)
			shared := sharedIDs(c.hot) || sharedIDs(c.cold)
			if unk <= 1 && !(shared && len(wa.fetchReq) > 0) && wa.timeouts == 0 {
				wh, wc := normWinner(c.hot, c.wh), normWinner(c.cold, c.wc)
				reqAPI := fmt.Sprintf("api %s %s %d %d %s %d %s %s", fmtTier(m.hot, arrivalOrder(c.hot, wh)), fmtTier(m.cold, arrivalOrder(c.cold, wc)),
					c.off, c.size, vh.B(c.rev), c.hint, vh.JoinInts(order), vh.JoinStrs(behav, "|")) + caSuffix(r.cancelAfter)
				chAPI.Add(reqAPI, implAPI, !faultFree(c), "answer="+strings.Join(strings.Fields(implAPI)[:min(2, len(strings.Fields(implAPI)))], "-"))
			}
			if strings.HasPrefix(implAPI, "ok partial=") && r.kind == "ok" {
				// the IDs travel only in Docs: the response must list every ID Search returned (undelivered documents empty)
				got := ""
				for _, f := range strings.Fields(implAPI) {
					if strings.HasPrefix(f, "ids=") {
						got = strings.TrimPrefix(f, "ids=")
					}
				}
				if got != fmtIDs(r.ids) {
					rep.Violate(vh.Violation{Site: "proxyapi/grpc_v1.go:makeProtoDocs", Class: "ids-dropped-from-response", What: fmt.Sprintf("Search returned the IDs %s, the API response lists %s and is not an error (deadline during the fetch phase: %v)", fmtIDs(r.ids), got, r.cancelAfter >= 0), Replay: []string{c.String()}})
				}
			}
			if strings.HasPrefix(implAPI, "ok partial=0") {
				// presented as complete: every shard of the consulted tier answered and no answering store reported errors
				tier, tn := c.hot, byte('h')
				if c.hotRead {
					tn = 'r'
				}
				for h, n := range wa.called {
					if h[0] == 'c' && n > 0 {
						tier, tn = c.cold, 'c'
					}
				}
				for sIdx := range tier {
					got, nerr := false, 0
					for rep, cl := range tier[sIdx] {
						if cl.kind == 'r' && cl.code == 'n' && wa.called[hostName(tn, sIdx, rep)] > 0 {
							got, nerr = true, nerr+cl.nerr
						}
					}
					if !got || nerr > 0 {
						rep.Violate(vh.Violation{Site: "proxyapi/grpc_v1.go:doSearch", Class: "incomplete-as-complete", What: fmt.Sprintf("the API response is unflagged (error code NO, partial_response=false) although shard %d of the consulted tier did not answer cleanly (answered=%v, store-reported errors=%d)", sIdx, got, nerr), Replay: []string{c.String()}})
						break
					}
				}
			}
			if strings.HasPrefix(implAPI, "inconsistent-flags") {
				rep.Violate(vh.Violation{Site: "proxyapi/grpc_search.go:Search", Class: "inconsistent-partial-flag", What: implAPI, Replay: []string{c.String()}})
			}
		}
		req, impl, comparable, tags := toModel(m, r)
		if c.cap > 0 {
			tags = append(tags, fmt.Sprintf("sizeAboveStoreCap=%s", vh.B(c.size > c.cap)))
		}
		faulty := !faultFree(c)
		if comparable {
			chFull.Add(req, impl, faulty, tags...)
		} else {
			skipped++
		}
		orc.Case(c.String(), faulty && r.kind == "ok", tags...)
		for _, f := range checkProperty(c, r) {
			rep.Violate(vh.Violation{Site: f.site, Class: f.class, What: f.what, Replay: []string{c.String()}})
		}
	}
	if skipped > 0 {
		rep.Note("full: %d cases not compared with the model (two or more fetch streams carried unrequested documents, or duplicated IDs across shards were fetched: map iteration order / unstable sort decide) - checked by the oracle only", skipped)
	}
	rep.AddChannel(chFull, o.Driver)
	rep.AddChannel(chAPI, o.Driver)
	rep.AddChannel(chExport, o.Driver)
	rep.AddOracle(orc)

	useShuffle(nil)

	// ---- wire level (child process): Offset+Size at the int boundary and a sample of ordinary cases
	{
		chWire := vh.NewChannel("wire", "real gRPC server of the proxy (initServer: recover / log / pool interceptors) + real gRPC client over bufconn, Search and ComplexSearch, in a child process, vs SV.ProxyRead.api with a panic rendered as codes.Internal (the recover interceptor): Offset in {MaxInt64, MaxInt64-1, 2^62} x Size in {1, 2, MaxInt32} over answering / partial / failing / wants-old-data topologies, plus a seeded sample; non-trivial = the request does not succeed completely")
		var wcases []tcase
		for _, c := range cases {
			big := c.off >= 1<<62 || hasStall(c) || twoUnknown(c)
			if c.cap > 0 {
				continue // conf.MaxRequestedDocuments is process-wide: the honest-store cases stay in this process
			}
			if big || (len(wcases) < o.Pick(150, 600) && !sharedIDs(c.hot) && !sharedIDs(c.cold) && len(c.shuf) == 0) {
				wcases = append(wcases, c)
			}
		}
		reqs, impls, exps, died, detail := runWire(wcases)
		for i := range reqs {
			// a handler that panics in-process must reach the client as an error status, never as a (necessarily empty) success:
			// the recover interceptors of the real server sit in between
			if c := wcases[i]; !hasStall(c) {
				useShuffle(c.shuf)
				if inproc, _ := runAPI(c); inproc == "panic" && strings.HasPrefix(impls[i], "ok") {
					rep.Violate(vh.Violation{Site: "network/grpcutil/interceptors.go:RecoverUnaryInterceptor", Class: "panic-delivered-as-success", What: "the Search handler panics on this request, yet over the proxy's gRPC server the client receives a successful response: " + impls[i], Replay: []string{c.String()}})
				}
				if !c.rev {
					if inprocX, _, _, _ := runExport(c); inprocX == "panic" && strings.HasPrefix(exps[i], "export=ok") {
						rep.Violate(vh.Violation{Site: "network/grpcutil/interceptors.go:RecoverStreamInterceptor", Class: "panic-delivered-as-success", What: "the Export handler panics on this request, yet over the proxy's gRPC server the stream ends with status OK: " + exps[i], Replay: []string{c.String()}})
					}
				}
				useShuffle(nil)
			}
			if strings.Contains(reqs[i], "999.9") || sharedIDs(wcases[i].hot) || sharedIDs(wcases[i].cold) {
				continue // unrequested documents / an ID held by two shards: map order or the unstable sort may decide, as in the api channel
			}
			chWire.Add(reqs[i], impls[i], !strings.HasPrefix(impls[i], "ok partial=0"), "answer="+strings.Join(strings.Fields(impls[i])[:min(2, len(strings.Fields(impls[i])))], "-"))
			if strings.HasPrefix(impls[i], "complexsearch-differs") {
				rep.Violate(vh.Violation{Site: "proxyapi/grpc_complex_search.go:ComplexSearch", Class: "search-complexsearch-differ", What: impls[i], Replay: []string{wcases[i].String()}})
			}
		}
		if died {
			var last []string
			if len(reqs) < len(wcases) {
				last = []string{wcases[len(reqs)].String()}
			}
			rep.Violate(vh.Violation{Site: "proxyapi/grpc_server.go:initServer", Class: "process-died", What: "the proxy process did not survive a search request sent over gRPC: " + detail, Replay: last})
		}
		rep.AddChannel(chWire, o.Driver)
	}

	// ---- Fetch API
	chFetch := vh.NewChannel("fetchapi", "real proxyapi Fetch handler (Ingestor.Documents: expandIDsBySources, FetchDocsStream, uniqueIDIterator; Id taken from the document) vs SV.ProxyApi.apiFetch on the recorded store deliveries; non-trivial = a store misbehaved or a document is missing")
	orcF := vh.NewOracle("fetch.property", "on the real Fetch handler: error, or exactly one document per requested ID in request order, its bytes empty or the ones a store delivered for that ID, and never empty when its only holder delivered everything in order; non-trivial = a fault was injected and the request succeeded")
	var fcases []fcase
	if replaying {
		lines, _ := vh.ReadReplay(o.Replay)
		for _, l := range lines {
			if c, err := parseFCase(l); err == nil {
				fcases = append(fcases, c)
			}
		}
	} else {
		for i := 0; i < o.Pick(1500, 30000); i++ {
			fcases = append(fcases, genFCase(rng))
		}
	}
	fskipped := 0
	for _, c := range fcases {
		impl, sent, w := runFetchAPI(c)
		order, behav, unk := fetchTrace(w)
		holders := map[id2]int{}
		for _, ids := range c.holds {
			for _, id := range ids {
				holders[id]++
			}
		}
		multi := false
		for _, n := range holders {
			if n > 1 {
				multi = true
			}
		}
		faulty := len(c.fb) > 0 || len(holders) < len(c.ids)
		if unk <= 1 && !multi {
			var srcs []int
			for i := 0; i < c.hosts; i++ {
				srcs = append(srcs, srcNat(hostName('h', i, 0)))
			}
			chFetch.Add(fmt.Sprintf("fetchapi %s %s %s %s", fmtIDs(c.ids), vh.JoinInts(srcs), vh.JoinInts(order), vh.JoinStrs(behav, "|")), impl, faulty, "answer="+strings.Fields(impl)[0], fmt.Sprintf("hosts=%d", c.hosts))
		} else {
			fskipped++
		}
		orcF.Case(c.String(), faulty && strings.HasPrefix(impl, "ok"), "answer="+strings.Fields(impl)[0])
		if !strings.HasPrefix(impl, "ok") {
			continue
		}
		bad := func(class, what string) {
			rep.Violate(vh.Violation{Site: "proxyapi/grpc_fetch.go:Fetch", Class: class, What: what, Replay: []string{c.String()}})
		}
		if len(sent) != len(c.ids) {
			bad("fetch-misaligned", fmt.Sprintf("%d IDs requested, %d documents sent", len(c.ids), len(sent)))
			continue
		}
		for i, d := range sent {
			if d.id != c.ids[i] {
				bad("fetch-misaligned", fmt.Sprintf("document %d carries ID %s, the %d-th requested ID is %s", i, d.id, i, c.ids[i]))
				break
			}
			if d.data != 0 {
				okBytes := false
				for h, evs := range w.delivered {
					for _, e := range evs {
						if !e.err && !e.stall && e.id == d.id && e.data == d.data && dataToken(h, d.id) == d.data {
							okBytes = true
						}
					}
				}
				if !okBytes {
					bad("fetch-foreign-bytes", fmt.Sprintf("document %s carries bytes no store delivered for that ID", d.id))
					break
				}
				continue
			}
			// empty although a well-behaved store holds it
			for h, ids := range c.holds {
				for _, id := range ids {
					if id == d.id && (c.fb[h] == "" || c.fb[h] == "-") {
						bad("fetch-doc-dropped", fmt.Sprintf("store %s holds %s and delivered every requested document in order, but the response carries an empty document", h, d.id))
					}
				}
			}
		}
	}
	if fskipped > 0 {
		rep.Note("fetchapi: %d cases not compared with the model (a document held by two stores, or two streams with unrequested documents: the per-ID map iteration order decides) - checked by the oracle only", fskipped)
	}
	rep.AddChannel(chFetch, o.Driver)
	rep.AddOracle(orcF)

	if !replaying {
		componentChannels(rep, o, rng)
	}
	rep.Write(o.Out)
}

func componentChannels(rep *vh.Report, o vh.Opts, rng *vh.RNG) {
	// ---- the request a store receives
	chReq := vh.NewChannel("storereq", "real SearchRequest.GetAPISearchRequest under conf.MaxRequestedDocuments in {0, 1, 5, 100000} vs SV.ProxyApi.storeRequest: Size, Offset and the store's limit Size+Offset for offsets / sizes around the cap and up to 2^62; non-trivial = Size above the cap")
	chReq.Exhaustive = true
	for _, cp := range []int{0, 1, 5, defaultMaxDocs} {
		conf.MaxRequestedDocuments = cp
		for _, off := range []int{0, 1, 7, 100000, 1 << 62} {
			for _, size := range []int{0, 1, 4, 5, 6, 99999, 100000, 100001, 150000, math.MaxInt32, 1 << 62} {
				q := (&search.SearchRequest{Q: []byte("message:x"), Offset: off, Size: size}).GetAPISearchRequest()
				chReq.Add(fmt.Sprintf("storereq %d %d %d", cp, off, size), fmt.Sprintf("size=%d offset=%d limit=%d", q.Size, q.Offset, uint64(q.Size)+uint64(q.Offset)), cp > 0 && size > cp, fmt.Sprintf("cap=%d", cp))
			}
		}
	}
	conf.MaxRequestedDocuments = defaultMaxDocs
	rep.AddChannel(chReq, o.Driver)
	// ---- shard
	chShard := vh.NewChannel("shard", "real searchShard vs SV.ProxySearch.searchShard: every replica script over {f,w,u,rn,rw,ru,rf}, 0..3 replicas (4 in thorough); non-trivial = at least one replica failed or refused")
	chShard.Exhaustive = true
	for _, cs := range seqs(callAlphabet, o.Pick(3, 4)) {
		nt := false
		for _, c := range cs {
			if !(c.kind == 'r' && c.code == 'n') {
				nt = true
			}
		}
		chShard.Add("shard "+fmtCalls(cs), runShard(cs, nil), nt, fmt.Sprintf("replicas=%d", len(cs)))
	}
	// ShuffleReplicas=true: every order of 2 and 3 replicas, replicas answering with their own (distinct) IDs
	for _, n := range []int{2, 3} {
		var alpha [][]call
		for r := 0; r < n; r++ {
			alpha = append(alpha, []call{{kind: 'f'}, {kind: 'w'}, {kind: 'r', code: 'f'}, {kind: 'r', code: 'n', total: 10 + r, ids: []id2{{30, 1}, {uint64(20 + r), 1}}}})
		}
		var scripts [][]call
		var gen func(pre []call)
		gen = func(pre []call) {
			if len(pre) == n {
				scripts = append(scripts, append([]call{}, pre...))
				return
			}
			for _, c := range alpha[len(pre)] {
				gen(append(pre, c))
			}
		}
		gen(nil)
		for _, perm := range allPerms(n) {
			for _, cs := range scripts {
				chShard.Add(fmt.Sprintf("shardp %s %s", strings.ReplaceAll(vh.JoinInts(perm), ",", "."), fmtCalls(cs)), runShard(cs, perm), true, fmt.Sprintf("shuffled-replicas=%d", n))
			}
		}
	}
	rep.AddChannel(chShard, o.Driver)

	// ---- stores
	chStores := vh.NewChannel("stores", "real searchStores vs SV.ProxySearch.searchStores: all pairs of replica scripts (<=2 replicas, 7 outcomes) for 2 shards with both winners, plus seeded 3-shard layouts; non-trivial = some shard did not answer")
	chStores.Exhaustive = true
	two := seqs(callAlphabet, 2)
	timeouts := 0
	for ai, a := range two {
		for bi, b := range two {
			if !o.Thorough() && (ai*len(two)+bi)%4 != int(o.Seed%4) {
				continue
			}
			a2 := append([]call{}, a...)
			for i := range a2 { // distinct ids per shard
				if a2[i].kind == 'r' && a2[i].code == 'n' {
					a2[i].ids = []id2{{6, 2}, {2, 2}}
				}
			}
			t := tagTotals([][]call{a2, b})
			for _, wn := range []int{0, 1} {
				w := normWinner(t, wn)
				if wn == 1 && w != 1 {
					continue
				}
				res, to := runStores(t, w)
				timeouts += to
				ka, _ := shardKind(a2)
				kb, _ := shardKind(b)
				chStores.Add("stores "+fmtTier(t, arrivalOrder(t, w)), res, ka != 'o' || kb != 'o', "kinds="+string([]byte{ka, kb}))
			}
		}
	}
	for i := 0; i < o.Pick(300, 10000); i++ {
		t := tagTotals(genTier(rng, 3, 3, false, 30, 10, false))
		tag := fmt.Sprintf("shards=%d", len(t))
		if i%3 == 2 { // ShuffleReplicas=true with a seeded order per replica count
			useShuffle(map[int][]int{2: rng.Perm(2), 3: rng.Perm(3)})
			tag += ",shuffled"
		}
		w := pickWinner(t, rng)
		res, to := runStores(t, w)
		timeouts += to
		chStores.Add("stores "+fmtTier(t, arrivalOrder(t, w)), res, true, tag)
		useShuffle(nil)
	}
	if timeouts > 0 {
		rep.Note("stores: %d gated calls were released by the timeout instead of by context cancellation", timeouts)
	}
	rep.AddChannel(chStores, o.Driver)

	// ---- less
	chLess := vh.NewChannel("less", "real lessFuncPosBased vs SV.DocsMerge.less: id lists over 3 keys (with repeats, with/without hints), all argument pairs incl. unknown and hinted ones; non-trivial = an argument is unknown or hinted")
	chLess.Exhaustive = true
	keys := []ids3{{id2{1, 1}, 0, 0}, {id2{2, 1}, 0, 0}, {id2{1, 1}, 1, 0}}
	args := append(append([]ids3{}, keys...), ids3{id2{9, 9}, 0, 0}, ids3{id2{1, 1}, 0, 5}, ids3{id2{2, 1}, 0, 5})
	for _, l := range seqs(keys, 3) {
		for _, h := range []int{0, 5} {
			ids := append([]ids3{}, l...)
			for i := range ids {
				ids[i].hint = h
			}
			for _, a := range args {
				for _, b := range args {
					chLess.Add(fmt.Sprintf("less %s %s %s", fmtIDS(ids), a, b), runLess(ids, a, b), a.hint != 0 || b.hint != 0 || a.id[0] == 9 || b.id[0] == 9, fmt.Sprintf("hint=%d", h))
				}
			}
		}
	}
	rep.AddChannel(chLess, o.Driver)

	// ---- merge
	chMerge := vh.NewChannel("merge", "real newMergedStreamIterator (+ n Next calls, panics recovered) vs SV.DocsMerge.mergedDocs: id lists over 2 sources, streams = every sequence over {requested docs, an unrequested doc, an empty doc} up to length 4 (1 stream) / 2-3 (2 streams), seeded 3-4 stream cases; hints on/off; non-trivial = the streams are not exactly the requested documents in order")
	chMerge.Exhaustive = true
	idPatterns := [][]ids3{
		{{id2{5, 1}, 0, 0}},
		{{id2{5, 1}, 0, 0}, {id2{4, 1}, 0, 0}},
		{{id2{5, 1}, 0, 0}, {id2{4, 1}, 1, 0}},
		{{id2{5, 1}, 0, 0}, {id2{4, 1}, 1, 0}, {id2{3, 1}, 0, 0}},
		{{id2{5, 1}, 1, 0}, {id2{4, 1}, 0, 0}, {id2{3, 1}, 0, 0}},
		{{id2{5, 1}, 0, 0}, {id2{4, 1}, 0, 0}, {id2{3, 1}, 1, 0}},
	}
	alpha := func(src int) []sdoc {
		return []sdoc{{id2{5, 1}, src, 50 + src}, {id2{4, 1}, src, 40 + src}, {id2{3, 1}, src, 30 + src}, {id2{9, 9}, src, 99}, {id2{5, 1}, src, 0}}
	}
	addMerge := func(ids []ids3, streams [][]sdoc) {
		ss := make([]string, len(streams))
		exact := true
		for i, s := range streams {
			ss[i] = fmtDocs(s)
			var want []string
			for _, x := range ids {
				if len(s) > 0 && x.src == s[0].src {
					want = append(want, x.id.String())
				}
			}
			var got []string
			for _, d := range s {
				got = append(got, d.id.String())
				if d.data == 0 {
					exact = false
				}
			}
			if strings.Join(want, ",") != strings.Join(got, ",") {
				exact = false
			}
		}
		chMerge.Add(fmt.Sprintf("merge %s %s", fmtIDS(ids), vh.JoinStrs(ss, "|")), runMerge(ids, streams), !exact, fmt.Sprintf("streams=%d", len(streams)), fmt.Sprintf("hint=%d", ids[0].hint))
	}
	s0all, s1all := seqs(alpha(0), o.Pick(2, 3)), seqs(alpha(1), o.Pick(2, 3))
	one := seqs(alpha(0), 4)
	for _, pat := range idPatterns {
		for _, h := range []int{0, 5} {
			ids := append([]ids3{}, pat...)
			for i := range ids {
				ids[i].hint = h
			}
			for _, s := range one {
				addMerge(ids, [][]sdoc{s})
			}
			for _, a := range s0all {
				for _, b := range s1all {
					addMerge(ids, [][]sdoc{a, b})
					if len(a)+len(b) <= 2 {
						addMerge(ids, [][]sdoc{b, a})
					}
				}
			}
		}
	}
	addMerge([]ids3{{id2{5, 1}, 0, 0}}, nil)
	for i := 0; i < o.Pick(2000, 150000); i++ {
		nsrc := rng.Range(2, 4)
		var ids []ids3
		h := []int{0, 0, 5}[rng.Intn(3)]
		n := rng.Range(1, 7)
		for k := 0; k < n; k++ {
			ids = append(ids, ids3{id2{uint64(20 - k), 1}, rng.Intn(nsrc), h})
		}
		streams := make([][]sdoc, 0, nsrc)
		for _, s := range rng.Perm(nsrc) {
			var st []sdoc
			for _, x := range ids {
				if x.src == s {
					st = append(st, sdoc{x.id, s, 10*int(x.id[0]) + s})
				}
			}
			// misbehaviour
			for m := rng.Intn(3); m > 0 && len(st) > 0; m-- {
				k := rng.Intn(len(st))
				switch rng.Intn(6) {
				case 0:
					st = append(st[:k:k], st[k+1:]...)
				case 1:
					st[k].data = 0
				case 2:
					st = st[:k]
				case 3:
					st = append(st[:k:k], append([]sdoc{{id2{99, uint64(rng.Intn(2))}, s, 7}}, st[k:]...)...)
				case 4:
					st = append(st, st[k])
				case 5:
					j := rng.Intn(len(st))
					st[k], st[j] = st[j], st[k]
				}
			}
			streams = append(streams, st)
		}
		addMerge(ids, streams)
	}
	rep.AddChannel(chMerge, o.Driver)

	// ---- grpc
	chGrpc := vh.NewChannel("grpc", "real grpcStreamIterator vs SV.DocsMerge.grpcIter: every event sequence over {doc, empty doc, error} up to length 4, requested count 0..3; non-trivial = count mismatch or error")
	chGrpc.Exhaustive = true
	evAlpha := []ev{{id: id2{5, 1}, data: 5}, {id: id2{4, 1}, data: 0}, {err: true}}
	for _, evs := range seqs(evAlpha, 4) {
		for total := 0; total <= 3; total++ {
			res := runGrpc(3, total, evs)
			chGrpc.Add(fmt.Sprintf("grpc 3 %d %s", total, fmtEvs(evs)), res, !strings.HasPrefix(res, "ok eof"), fmt.Sprintf("total=%d", total))
		}
	}
	rep.AddChannel(chGrpc, o.Driver)

	// ---- uniq
	chUniq := vh.NewChannel("uniq", "real uniqueIDIterator vs SV.DocsMerge.uniq: every document sequence over 3 IDs x {empty, non-empty} up to length 5; non-trivial = some ID occurs more than once")
	chUniq.Exhaustive = true
	uAlpha := []sdoc{{id2{1, 1}, 0, 0}, {id2{1, 1}, 1, 5}, {id2{2, 1}, 0, 0}, {id2{2, 1}, 1, 6}, {id2{3, 1}, 2, 7}}
	for _, ds := range seqs(uAlpha, o.Pick(5, 6)) {
		dup := false
		for i := 1; i < len(ds); i++ {
			if ds[i].id == ds[i-1].id {
				dup = true
			}
		}
		chUniq.Add("uniq "+fmtDocs(ds), runUniq(ds), dup, fmt.Sprintf("len=%d", len(ds)))
	}
	rep.AddChannel(chUniq, o.Driver)
}
