// C04 harness: fetch returns each stored document verbatim; unknown IDs are just "not found".
//
//   - system oracle "fetch.stream": the real storeapi.GrpcV1.Fetch (real FracManager with sealed and active
//     fractions, real Fetcher, real docs stream with its background batch loader) in a CHILD process; every
//     streamed entry is compared with the bytes ingested under that ID (or empty), the error must be nil and
//     the process must stay alive.
//   - correspondence channels (implementation vs the Lean definitions through the driver):
//     chunksize (docsStream.calcChunkSize), findlids (sealedFetchIndex.findLIDs on real sealed fractions),
//     lessorequal (sealedIDsIndex.LessOrEqual with its block short cuts), docpos (seq.PackDocPos/Unpack),
//     groupoffsets (seq.GroupDocsOffsets), groupids (fracmanager.groupIDsByFraction),
//     fetchdocs (Fetcher.FetchDocs on real fractions vs the composed model).
package main

import (
	"bytes"
	"context"
	"encoding/json"
	"fmt"
	"os"
	"os/exec"
	"path/filepath"
	"sort"
	"strconv"
	"strings"
	"sync"
	"time"

	"go.uber.org/zap"
	"google.golang.org/grpc"
	"google.golang.org/grpc/metadata"

	"github.com/ozontech/seq-db/conf"
	"github.com/ozontech/seq-db/consts"
	"github.com/ozontech/seq-db/disk"
	"github.com/ozontech/seq-db/frac"
	"github.com/ozontech/seq-db/frac/processor"
	"github.com/ozontech/seq-db/fracmanager"
	"github.com/ozontech/seq-db/logger"
	"github.com/ozontech/seq-db/mappingprovider"
	"github.com/ozontech/seq-db/metric/stopwatch"
	"github.com/ozontech/seq-db/proxy/search"
	pb "github.com/ozontech/seq-db/pkg/storeapi"
	"github.com/ozontech/seq-db/seq"
	"github.com/ozontech/seq-db/storeapi"
	"github.com/ozontech/seq-db/verifhook"

	"verifharness/internal/vh"
)

// ---------------------------------------------------------------- scenario

type docSpec struct {
	MID  uint64 `json:"m"`
	RID  uint64 `json:"r"`
	Size int    `json:"s"`
}

type fracSpec struct {
	Sealed bool      `json:"sealed"`
	Docs   []docSpec `json:"docs"`
	// RetryFrom > 0: Docs[RetryFrom:] reach the fraction in one last, partly retried bulk - in the listed order,
	// followed by the first RetryDup documents of Docs once more (already stored: the indexer filters them out)
	RetryFrom int `json:"retry_from,omitempty"`
	RetryDup  int `json:"retry_dup,omitempty"`
}

// hint: -1 none, k >= 0 the name of fraction k, -2 a name no fraction has
type reqID struct {
	MID  uint64 `json:"m"`
	RID  uint64 `json:"r"`
	Hint int    `json:"h"`
}

type request struct {
	Class string  `json:"class"`
	IDs   []reqID `json:"ids"`
	// Late: documents ingested into the active fraction at the moment the fetch has just created that fraction's
	// data provider (forced through the c07.dp.created point); their IDs are part of IDs
	Late []docSpec `json:"late,omitempty"`
}

type scenario struct {
	Name  string     `json:"name"`
	Fracs []fracSpec `json:"fracs"`
	Reqs  []request  `json:"reqs"`
	// DocBlockSize: SealParams.DocBlockSize of the store (0 = the default 4 MiB); small values give sealed
	// fractions many docs blocks
	DocBlockSize int `json:"doc_block_size,omitempty"`
	// SkipSortDocs: frac.Config.SkipSortDocs (sealing keeps the active fraction's docs file instead of writing a sorted one)
	SkipSortDocs bool `json:"skip_sort_docs,omitempty"`
	// BulkDocs: documents per ingested bulk (0 = 256); one bulk is one docs block of the active fraction
	BulkDocs int `json:"bulk_docs,omitempty"`
	// Writers > 1: the bulks of every fraction are sent by that many goroutines at the same time
	Writers int `json:"writers,omitempty"`
	// CrashLeftover: after a fraction is sealed its unsorted .docs and its .meta file are put back next to the
	// .sdocs / .index files - the state a kill between the index rename and Active.Release leaves behind
	CrashLeftover bool `json:"crash_leftover,omitempty"`
	// Restart: the store is stopped and opened again (loader, replay of the active fraction) before the requests
	Restart bool `json:"restart,omitempty"`
}

// docBytes is the document ingested under (mid, rid) with the given size (>= 2): valid JSON, content unique per
// ID when the size allows it.
func docBytes(mid, rid uint64, size int) []byte {
	head := fmt.Sprintf(`{"m":%d,"r":%d,"p":"`, mid, rid)
	if size >= len(head)+2 {
		b := make([]byte, 0, size)
		b = append(b, head...)
		for len(b) < size-2 {
			b = append(b, byte('a'+(uint64(len(b))*7+rid)%26))
		}
		return append(b, '"', '}')
	}
	if size < 2 {
		size = 2
	}
	b := bytes.Repeat([]byte{' '}, size)
	b[0], b[size-1] = '{', '}'
	return b
}

func (sc *scenario) lookup(id reqID) []byte {
	for k, f := range sc.Fracs {
		if id.Hint >= 0 && id.Hint != k {
			continue
		}
		if id.Hint == -2 {
			continue
		}
		for _, d := range f.Docs {
			if d.MID == id.MID && d.RID == id.RID {
				return docBytes(d.MID, d.RID, d.Size)
			}
		}
	}
	return nil
}

// ---------------------------------------------------------------- real store

type store struct {
	dir   string
	fm    *fracmanager.FracManager
	g     *storeapi.GrpcV1
	names []string // fraction names in scenario order
}

func openStore(dir string, sc *scenario, replay bool) (*fracmanager.FracManager, *storeapi.GrpcV1, error) {
	fm := fracmanager.NewFracManager(&fracmanager.Config{
		FracSize:     1 << 40,
		TotalSize:    1 << 42,
		ShouldReplay: replay,
		DataDir:      dir,
		SealParams:   frac.SealParams{DocBlockSize: sc.DocBlockSize},
		Fraction:     frac.Config{SkipSortDocs: sc.SkipSortDocs},
	})
	if err := fm.Load(context.Background()); err != nil {
		return nil, nil, err
	}
	fm.Start()
	mp, err := mappingprovider.New("", mappingprovider.WithMapping(seq.TestMapping))
	if err != nil {
		return nil, nil, err
	}
	g := storeapi.NewGrpcV1(storeapi.APIConfig{
		Bulk:   storeapi.BulkConfig{RequestsLimit: consts.DefaultBulkRequestsLimit},
		Search: storeapi.SearchConfig{WorkersCount: 1, FractionsPerIteration: 1, RequestsLimit: consts.DefaultSearchRequestsLimit, Async: fracmanager.AsyncSearcherConfig{DataDir: filepath.Join(dir, "async")}},
	}, fm, mp)
	return fm, g, nil
}

func newStore(sc *scenario) (*store, error) {
	dir, err := os.MkdirTemp("", "verif-c04-")
	if err != nil {
		return nil, err
	}
	fm, g, err := openStore(dir, sc, false)
	if err != nil {
		return nil, err
	}
	st := &store{dir: dir, fm: fm, g: g}
	ctx := context.Background()
	bulkDocs := sc.BulkDocs
	if bulkDocs == 0 {
		bulkDocs = 256
	}
	for k, f := range sc.Fracs {
		// ingest in bulks of at most 256 docs (several doc blocks per fraction), big docs one per bulk
		dp := frac.NewDocProvider()
		var parked []*pb.BulkRequest // bulks waiting for the concurrent writers
		flush := func() error {
			if dp.DocCount == 0 {
				return nil
			}
			req := &pb.BulkRequest{Count: int64(dp.DocCount)}
			d, m := dp.Provide()
			req.Docs, req.Metas = append([]byte{}, d...), append([]byte{}, m...)
			dp.TryReset()
			if sc.Writers > 1 {
				parked = append(parked, req)
				return nil
			}
			_, err := g.Bulk(ctx, req)
			return err
		}
		sendParked := func() error {
			if len(parked) == 0 {
				return nil
			}
			var wg sync.WaitGroup
			errs := make(chan error, len(parked))
			next := make(chan *pb.BulkRequest)
			for w := 0; w < sc.Writers; w++ {
				wg.Add(1)
				go func() {
					defer wg.Done()
					for rq := range next {
						if _, err := g.Bulk(ctx, rq); err != nil {
							errs <- err
						}
					}
				}()
			}
			for _, rq := range parked {
				next <- rq
			}
			close(next)
			wg.Wait()
			parked = nil
			select {
			case err := <-errs:
				return err
			default:
				return nil
			}
		}
		pending := 0
		normal := f.Docs
		if f.RetryFrom > 0 && f.RetryFrom < len(f.Docs) {
			normal = f.Docs[:f.RetryFrom]
		}
		for _, d := range normal {
			doc := docBytes(d.MID, d.RID, d.Size)
			dp.Append(doc, nil, seq.ID{MID: seq.MID(d.MID), RID: seq.RID(d.RID)}, seq.Tokens("_all_:", "service:c04"))
			pending += len(doc)
			if dp.DocCount >= max(1, bulkDocs) || pending > 4<<20 {
				if err := flush(); err != nil {
					return nil, err
				}
				pending = 0
			}
		}
		if err := flush(); err != nil {
			return nil, err
		}
		if err := sendParked(); err != nil {
			return nil, err
		}
		if len(normal) < len(f.Docs) { // the partly retried bulk
			fm.WaitIdle()
			retry := append(append([]docSpec{}, f.Docs[f.RetryFrom:]...), normal[:min(f.RetryDup, len(normal))]...)
			for _, d := range retry {
				dp.Append(docBytes(d.MID, d.RID, d.Size), nil, seq.ID{MID: seq.MID(d.MID), RID: seq.RID(d.RID)}, seq.Tokens("_all_:", "service:c04"))
			}
			if err := flush(); err != nil {
				return nil, err
			}
			if err := sendParked(); err != nil {
				return nil, err
			}
		}
		fm.WaitIdle()
		name := fm.Active().Info().Name()
		st.names = append(st.names, name)
		if f.Sealed || k < len(sc.Fracs)-1 {
			var docsCopy, metaCopy []byte
			if sc.CrashLeftover {
				docsCopy, _ = os.ReadFile(filepath.Join(dir, name+consts.DocsFileSuffix))
				metaCopy, _ = os.ReadFile(filepath.Join(dir, name+consts.MetaFileSuffix))
			}
			fm.SealForcedForTests()
			fm.WaitIdle()
			if _, err := os.Stat(filepath.Join(dir, name+consts.SdocsFileSuffix)); sc.CrashLeftover && err == nil && docsCopy != nil {
				// as if the process had been killed right after the index rename: the active fraction's files are still there
				os.WriteFile(filepath.Join(dir, name+consts.DocsFileSuffix), docsCopy, 0o644)
				os.WriteFile(filepath.Join(dir, name+consts.MetaFileSuffix), metaCopy, 0o644)
			}
		}
	}
	if sc.Restart {
		st.fm.Stop()
		fm2, g2, err := openStore(dir, sc, true)
		if err != nil {
			return nil, fmt.Errorf("restart: %w", err)
		}
		fm2.WaitIdle()
		st.fm, st.g = fm2, g2
	}
	return st, nil
}

func (st *store) close() {
	st.fm.Stop()
	os.RemoveAll(st.dir)
}

func (st *store) hintName(h int) string {
	switch {
	case h >= 0 && h < len(st.names):
		return st.names[h]
	case h == -2:
		return "seq-db-no-such-fraction"
	}
	return ""
}

// fakeStream collects what GrpcV1.Fetch sends.
type fakeStream struct {
	grpc.ServerStream
	ctx    context.Context
	blocks [][]byte
}

func (s *fakeStream) Context() context.Context     { return s.ctx }
func (s *fakeStream) SetHeader(metadata.MD) error  { return nil }
func (s *fakeStream) SendHeader(metadata.MD) error { return nil }
func (s *fakeStream) SetTrailer(metadata.MD)       {}
func (s *fakeStream) Send(d *pb.BinaryData) error {
	s.blocks = append(s.blocks, append([]byte{}, d.Data...))
	return nil
}

// runRequest streams one request through the real GrpcV1.Fetch and compares with the ingested bytes.
// Returns "" when the property holds, else a description (prefix "error:" when the request failed).
var lateFound, lateMissing int // late documents answered verbatim / not yet visible (child process counters)

// warmFilter: a fetch WITH a field filter (allow-list and block-list in turn) of the request's first IDs, on the same
// goroutine right before the request itself, which carries no filter: the pooled filter object of the store is
// handed from one to the other, and the answer of the unfiltered request must still be the stored bytes.
var warmCount int

func warmFilter(st *store, r request) {
	if len(r.IDs) == 0 {
		return
	}
	warmCount++
	ff := &pb.FetchRequest_FieldsFilter{Fields: []string{"m"}, AllowList: true}
	if warmCount%2 == 0 {
		ff = &pb.FetchRequest_FieldsFilter{Fields: []string{"p", "r"}, AllowList: false}
	}
	req := &pb.FetchRequest{FieldsFilter: ff}
	for _, id := range r.IDs[:min(3, len(r.IDs))] {
		req.Ids = append(req.Ids, seq.ID{MID: seq.MID(id.MID), RID: seq.RID(id.RID)}.String())
	}
	_ = st.g.Fetch(req, &fakeStream{ctx: context.Background()})
}

func runRequest(st *store, sc *scenario, r request) string {
	if len(r.Late) == 0 {
		warmFilter(st, r)
	}
	req := &pb.FetchRequest{}
	withHints := false
	for _, id := range r.IDs {
		if id.Hint != -1 {
			withHints = true
		}
	}
	for _, id := range r.IDs {
		s := seq.ID{MID: seq.MID(id.MID), RID: seq.RID(id.RID)}.String()
		if withHints {
			req.IdsWithHints = append(req.IdsWithHints, &pb.IdWithHint{Id: s, Hint: st.hintName(id.Hint)})
		} else {
			req.Ids = append(req.Ids, s)
		}
	}
	late := map[[2]uint64]docSpec{}
	if len(r.Late) > 0 {
		var once sync.Once
		verifhook.Set(func(name, _ string, _ []int64) {
			if name != "c07.dp.created" {
				return
			}
			once.Do(func() {
				dp := frac.NewDocProvider()
				for _, d := range r.Late {
					dp.Append(docBytes(d.MID, d.RID, d.Size), nil, seq.ID{MID: seq.MID(d.MID), RID: seq.RID(d.RID)}, seq.Tokens("_all_:", "service:c04"))
				}
				breq := &pb.BulkRequest{Count: int64(dp.DocCount)}
				breq.Docs, breq.Metas = dp.Provide()
				if _, err := st.g.Bulk(context.Background(), breq); err == nil {
					st.fm.WaitIdle()
				}
			})
		})
		defer verifhook.Set(nil)
		for _, d := range r.Late {
			late[[2]uint64{d.MID, d.RID}] = d
		}
	}
	fs := &fakeStream{ctx: context.Background()}
	if err := st.g.Fetch(req, fs); err != nil {
		return "error: " + err.Error()
	}
	if len(fs.blocks) != len(r.IDs) {
		return fmt.Sprintf("mismatch: %d entries streamed for %d ids", len(fs.blocks), len(r.IDs))
	}
	for i, b := range fs.blocks {
		blk := disk.DocBlock(b)
		id := r.IDs[i]
		if blk.GetExt1() != id.MID || blk.GetExt2() != id.RID {
			return fmt.Sprintf("mismatch: entry %d carries id %d:%d, requested %d:%d", i, blk.GetExt1(), blk.GetExt2(), id.MID, id.RID)
		}
		got := blk.Payload()
		want := sc.lookup(id)
		if d, isLate := late[[2]uint64{id.MID, id.RID}]; isLate {
			// ingested while the fetch was running: verbatim or not yet visible, never anything else
			if len(got) == 0 {
				lateMissing++
				continue
			}
			lateFound++
			want = docBytes(d.MID, d.RID, d.Size)
		}
		if !bytes.Equal(got, want) {
			return fmt.Sprintf("mismatch: entry %d (id %d:%d hint %d): got %d bytes %q, ingested %d bytes %q", i, id.MID, id.RID, id.Hint, len(got), clip(got), len(want), clip(want))
		}
	}
	return ""
}

func clip(b []byte) string {
	if len(b) > 40 {
		return string(b[:40]) + "..."
	}
	return string(b)
}

// ---------------------------------------------------------------- child process

type childJob struct {
	Scenario scenario `json:"scenario"`
	Skip     []int    `json:"skip"`
}

func childMain(path string) {
	logger.SetLevel(zap.FatalLevel)
	raw, err := os.ReadFile(path)
	if err != nil {
		fmt.Println("child-error", err)
		os.Exit(3)
	}
	var job childJob
	if err := json.Unmarshal(raw, &job); err != nil {
		fmt.Println("child-error", err)
		os.Exit(3)
	}
	st, err := newStore(&job.Scenario)
	if err != nil {
		fmt.Println("child-error store:", err)
		os.Exit(3)
	}
	skip := map[int]bool{}
	for _, j := range job.Skip {
		skip[j] = true
	}
	for j, r := range job.Scenario.Reqs {
		if skip[j] {
			continue
		}
		fmt.Printf("begin %d\n", j)
		res := runRequest(st, &job.Scenario, r)
		// the batch loader may still be computing the size of the chunk after the last one: let it finish so that
		// a crash there is attributed to this request
		time.Sleep(2 * time.Millisecond)
		if res == "" {
			res = "ok"
		}
		fmt.Printf("res %d %s\n", j, strings.ReplaceAll(res, "\n", " "))
		if len(r.Late) > 0 {
			fmt.Printf("late %d %d\n", lateFound, lateMissing)
			lateFound, lateMissing = 0, 0
		}
	}
	fmt.Println("done")
	st.close()
	os.Exit(0)
}

type childResult struct {
	lateFound, lateMissing int
	res                    map[int]string // request index -> "ok" | "error: ..." | "mismatch: ..."
	died                   int            // request index during which the process died, -1 if it finished
	stderr                 string
	timeout                bool
}

func runChild(sc *scenario, skip []int, timeout time.Duration) childResult {
	cr := childResult{res: map[int]string{}, died: -1}
	f, err := os.CreateTemp("", "verif-c04-job-*.json")
	if err != nil {
		cr.stderr = err.Error()
		return cr
	}
	defer os.Remove(f.Name())
	json.NewEncoder(f).Encode(childJob{Scenario: *sc, Skip: skip})
	f.Close()
	ctx, cancel := context.WithTimeout(context.Background(), timeout)
	defer cancel()
	cmd := exec.CommandContext(ctx, os.Args[0])
	cmd.Env = append(os.Environ(), "VERIF_C04_CHILD="+f.Name())
	var so, se bytes.Buffer
	cmd.Stdout, cmd.Stderr = &so, &se
	runErr := cmd.Run()
	cr.timeout = ctx.Err() != nil
	begun, finished := -1, false
	for _, line := range strings.Split(so.String(), "\n") {
		fs := strings.SplitN(line, " ", 3)
		switch fs[0] {
		case "begin":
			begun, _ = strconv.Atoi(fs[1])
		case "res":
			j, _ := strconv.Atoi(fs[1])
			if len(fs) == 3 {
				cr.res[j] = fs[2]
			}
			begun = -1
		case "late":
			a, _ := strconv.Atoi(fs[1])
			b := 0
			if len(fs) > 2 {
				b, _ = strconv.Atoi(fs[2])
			}
			cr.lateFound += a
			cr.lateMissing += b
		case "done":
			finished = true
		case "child-error":
			cr.stderr += line + "\n"
		}
	}
	if runErr != nil || !finished {
		cr.died = begun
		if begun == -1 && len(cr.res) > 0 {
			// died between two requests: the background loader of the last answered request
			last := -1
			for j := range cr.res {
				if j > last {
					last = j
				}
			}
			cr.died = last
		}
	}
	s := se.String()
	if len(s) > 3000 {
		s = s[:3000]
	}
	cr.stderr += s
	return cr
}

// ---------------------------------------------------------------- generators

// genFracs builds k fractions with disjoint or touching MID ranges; RIDs leave room below and above every stored ID.
func genFracs(r *vh.RNG, k, docsPer int, sizes func() int, lastActive bool) []fracSpec {
	var fs []fracSpec
	base := uint64(1_700_000_000_000)
	// layout of the time ranges: 0 = disjoint / touching, 1 = partially overlapping, 2 = same start (nested ranges,
	// equal timestamps in several fractions); an ID without hint is then looked up in several fractions
	layout := r.Intn(3)
	seen := map[[2]uint64]bool{}
	for i := 0; i < k; i++ {
		f := fracSpec{Sealed: !(lastActive && i == k-1)}
		n := max(1, docsPer/2+r.Intn(docsPer+1))
		span := uint64(1 + r.Intn(3*n))
		for tries := 0; len(f.Docs) < n && tries < 50*n+100; tries++ {
			mid := base + uint64(r.Intn(int(span)))
			if len(f.Docs) == 0 {
				mid = base // the border timestamps are always populated
			} else if len(f.Docs) == 1 {
				mid = base + span - 1
			}
			rid := uint64(1000 + 2*r.Intn(5000)) // even, >= 1000: absent neighbours are rid±1
			if seen[[2]uint64{mid, rid}] {
				continue
			}
			seen[[2]uint64{mid, rid}] = true
			f.Docs = append(f.Docs, docSpec{MID: mid, RID: rid, Size: sizes()})
		}
		fs = append(fs, f)
		switch layout {
		case 0:
			base += span + uint64(r.Intn(3)) // next fraction starts right after, or after a small gap
		case 1:
			base += uint64(r.Intn(int(span))) // starts inside the previous range
		}
	}
	return fs
}

// genBoundaryFrac: a sealed fraction of a little more than consts.IDsPerBlock documents in which one millisecond is shared
// by a run of documents that straddles the ID-block boundary (LIDs IDsPerBlock-1 | IDsPerBlock): k documents with
// later timestamps, then the run, then a tail.  Returns the fraction and the IDs of the run.
func genBoundaryFrac(r *vh.RNG, base uint64) (fracSpec, []docSpec) {
	f := fracSpec{Sealed: true}
	run := 40 + r.Intn(200)
	k := consts.IDsPerBlock - 1 - (1 + r.Intn(run-2)) // the run starts at LID k+1 <= IDsPerBlock-1 and ends after IDsPerBlock
	tail := 5 + r.Intn(100)
	shared := base + 1000
	size := func() int { return 2 + r.Intn(12) }
	for i := 0; i < k; i++ { // later than the shared millisecond: a handful per millisecond
		f.Docs = append(f.Docs, docSpec{MID: shared + 1 + uint64(i/3), RID: uint64(1000 + 2*(i%3)), Size: size()})
	}
	var runDocs []docSpec
	for i := 0; i < run; i++ {
		d := docSpec{MID: shared, RID: uint64(1000 + 2*i), Size: size()}
		runDocs = append(runDocs, d)
		f.Docs = append(f.Docs, d)
	}
	for i := 0; i < tail; i++ {
		f.Docs = append(f.Docs, docSpec{MID: shared - 1 - uint64(i/2), RID: uint64(1000 + 2*(i%2)), Size: size()})
	}
	// ingestion order is not ID order
	p := r.Perm(len(f.Docs))
	docs := make([]docSpec, len(f.Docs))
	for a, b := range p {
		docs[a] = f.Docs[b]
	}
	f.Docs = docs
	return f, runDocs
}

func (f *fracSpec) borders() (from, to uint64) {
	from, to = ^uint64(0), 0
	for _, d := range f.Docs {
		from, to = min(from, d.MID), max(to, d.MID)
	}
	return
}

// absentID returns an ID that no fraction holds, of the given class.
func absentID(r *vh.RNG, fs []fracSpec, class string) reqID {
	k := r.Intn(len(fs))
	f := &fs[k]
	from, to := f.borders()
	var minAtFrom, maxAtTo uint64 = ^uint64(0), 0
	for _, d := range f.Docs {
		if d.MID == from {
			minAtFrom = min(minAtFrom, d.RID)
		}
		if d.MID == to {
			maxAtTo = max(maxAtTo, d.RID)
		}
	}
	switch class {
	case "border-low": // the fraction's oldest timestamp with a smaller random part: below every ID of the fraction
		return reqID{MID: from, RID: minAtFrom - 1 - uint64(r.Intn(500)), Hint: -1}
	case "border-high":
		return reqID{MID: to, RID: maxAtTo + 1 + uint64(r.Intn(500)), Hint: -1}
	case "neighbour": // next to a stored ID
		d := f.Docs[r.Intn(len(f.Docs))]
		if r.Bool() {
			return reqID{MID: d.MID, RID: d.RID + 1, Hint: -1}
		}
		return reqID{MID: d.MID, RID: d.RID - 1, Hint: -1}
	case "below-all":
		f0 := ^uint64(0)
		for i := range fs {
			a, _ := fs[i].borders()
			f0 = min(f0, a)
		}
		return reqID{MID: f0 - 1 - uint64(r.Intn(1000)), RID: r.U64() | 1, Hint: -1}
	case "above-all":
		tl := uint64(0)
		for i := range fs {
			_, b := fs[i].borders()
			tl = max(tl, b)
		}
		return reqID{MID: tl + 1 + uint64(r.Intn(1000)), RID: r.U64() | 1, Hint: -1}
	default: // inside: odd random part never stored
		return reqID{MID: from + uint64(r.Intn(int(to-from+1))), RID: uint64(2*r.Intn(6000) + 1), Hint: -1}
	}
}

var absentClasses = []string{"border-low", "border-high", "neighbour", "below-all", "above-all", "inside"}

func presentID(r *vh.RNG, fs []fracSpec) (reqID, int) {
	k := r.Intn(len(fs))
	d := fs[k].Docs[r.Intn(len(fs[k].Docs))]
	return reqID{MID: d.MID, RID: d.RID, Hint: -1}, k
}

// genRequest: n distinct IDs, a fraction pctAbsent of them absent (classes drawn from `classes`), in the given order.
func genRequest(r *vh.RNG, fs []fracSpec, n, pctAbsent int, classes []string, hints bool, order string) request {
	seen := map[[2]uint64]bool{}
	var ids []reqID
	total := 0
	for _, f := range fs {
		total += len(f.Docs)
	}
	tries := 0
	for len(ids) < n && tries < 20*n+100 {
		tries++
		var id reqID
		if r.Intn(100) < pctAbsent || len(seen) >= total+len(ids) {
			id = absentID(r, fs, classes[r.Intn(len(classes))])
			if hints {
				switch r.Intn(3) {
				case 0:
					id.Hint = r.Intn(len(fs))
				case 1:
					id.Hint = -2
				}
			}
		} else {
			var k int
			id, k = presentID(r, fs)
			if hints && r.Intn(4) > 0 {
				id.Hint = k
			}
		}
		key := [2]uint64{id.MID, id.RID}
		if seen[key] {
			continue
		}
		seen[key] = true
		ids = append(ids, id)
	}
	less := func(a, b reqID) bool { return a.MID < b.MID || a.MID == b.MID && a.RID < b.RID }
	switch order {
	case "asc":
		sort.Slice(ids, func(i, j int) bool { return less(ids[i], ids[j]) })
	case "desc":
		sort.Slice(ids, func(i, j int) bool { return less(ids[j], ids[i]) })
	}
	pb := "0"
	switch {
	case pctAbsent >= 100:
		pb = "100"
	case pctAbsent >= 50:
		pb = "50-99"
	case pctAbsent > 0:
		pb = "1-49"
	}
	cls := fmt.Sprintf("n=%s absent%%=%s order=%s hints=%s", bucket(len(ids)), pb, order, vh.B(hints))
	return request{Class: cls, IDs: ids}
}

// genSegmentedRequest: a request of more than 1000 distinct IDs without hints built from segments, each segment
// drawing (mostly present) IDs from its own subset of the fractions.  The first segment fills the first chunk
// (initChunkSize = 1000); variant 0: first segment from the oldest and the newest fraction only (its time range
// covers every fraction but one gets no ID), then a segment from the skipped ones; variant 1: first segment from the
// newest fraction only, then the older ones; other variants: random subsets.  IDs inside a segment are shuffled, so
// the extreme IDs of a chunk are rarely its first or last.
func genSegmentedRequest(r *vh.RNG, fs []fracSpec, variant int) request {
	k := len(fs)
	var subsets [][]int
	switch variant {
	case 0:
		var mid []int
		for i := 1; i < k-1; i++ {
			mid = append(mid, i)
		}
		subsets = [][]int{{0, k - 1}, mid}
	case 1:
		var older []int
		for i := 0; i < k-1; i++ {
			older = append(older, i)
		}
		subsets = [][]int{{k - 1}, older}
	default:
		for s := 0; s < 2+r.Intn(3); s++ {
			var sub []int
			for i := 0; i < k; i++ {
				if r.Bool() {
					sub = append(sub, i)
				}
			}
			if len(sub) == 0 {
				sub = []int{r.Intn(k)}
			}
			subsets = append(subsets, sub)
		}
	}
	seen := map[[2]uint64]bool{}
	var ids []reqID
	for si, sub := range subsets {
		want := 150 + r.Intn(400)
		if si == 0 {
			want = storeapi.VerifC04InitChunkSize + r.Intn(150)
		}
		var seg []reqID
		for tries := 0; len(seg) < want && tries < 30*want; tries++ {
			f := &fs[sub[r.Intn(len(sub))]]
			var id reqID
			if tries < 12*want && r.Intn(10) > 0 {
				d := f.Docs[r.Intn(len(f.Docs))]
				id = reqID{MID: d.MID, RID: d.RID, Hint: -1}
			} else { // absent, inside the fraction's range
				from, to := f.borders()
				id = reqID{MID: from + uint64(r.Intn(int(to-from+1))), RID: uint64(2*r.Intn(1_000_000) + 1), Hint: -1}
			}
			key := [2]uint64{id.MID, id.RID}
			if seen[key] {
				continue
			}
			seen[key] = true
			seg = append(seg, id)
		}
		ids = append(ids, seg...)
	}
	return request{Class: fmt.Sprintf("segmented-by-fraction-subset variant=%d n=%s hints=0", min(variant, 2), bucket(len(ids))), IDs: ids}
}

func bucket(n int) string {
	switch {
	case n <= 1:
		return "1"
	case n <= 10:
		return "2-10"
	case n <= 100:
		return "11-100"
	case n <= 1000:
		return "101-1000"
	case n <= 10000:
		return "1001-10000"
	}
	return ">10000"
}

func genScenario(r *vh.RNG, name string, shape int, thorough bool) scenario {
	sc := scenario{Name: name}
	small := func() int { return 2 + r.Intn(120) }
	mixed := func() int {
		switch r.Intn(10) {
		case 0:
			return 2
		case 1:
			return 2 + r.Intn(8)
		case 2:
			return 2000 + r.Intn(60000)
		}
		return 30 + r.Intn(400)
	}
	orders := []string{"random", "asc", "desc"}
	switch shape {
	case 0: // few small fractions, many small requests of every class
		sc.Fracs = genFracs(r, 1+r.Intn(4), 12, mixed, r.Bool())
		for i := 0; i < 24; i++ {
			classes := absentClasses
			if i%3 == 0 {
				classes = []string{absentClasses[i/3%len(absentClasses)]}
			}
			sc.Reqs = append(sc.Reqs, genRequest(r, sc.Fracs, 1+r.Intn(12), []int{0, 20, 50, 80, 100}[r.Intn(5)], classes, r.Intn(3) == 0, orders[r.Intn(3)]))
		}
	case 1: // tiny documents, mostly absent IDs: found-bytes / requested-IDs below 1
		sc.Fracs = genFracs(r, 1+r.Intn(3), 8, func() int { return 2 + r.Intn(3) }, r.Bool())
		for i := 0; i < 10; i++ {
			sc.Reqs = append(sc.Reqs, genRequest(r, sc.Fracs, 3+r.Intn(40), 70+r.Intn(30), []string{"inside", "neighbour", "above-all", "below-all", "border-high"}, false, orders[r.Intn(3)]))
		}
	case 2: // requests longer than the initial chunk (1000) over a few thousand documents
		sc.Fracs = genFracs(r, 2+r.Intn(3), 900, small, r.Bool())
		ns := []int{1001, 1500, 2500}
		if thorough {
			ns = append(ns, 6000, 20000)
		}
		for _, n := range ns {
			sc.Reqs = append(sc.Reqs, genRequest(r, sc.Fracs, n, []int{0, 10, 50, 90}[r.Intn(4)], []string{"inside", "neighbour", "above-all", "below-all", "border-high"}, r.Intn(3) == 0, orders[r.Intn(3)]))
		}
	case 3: // big documents: a few MiB each
		sc.Fracs = genFracs(r, 2, 3, func() int {
			if r.Intn(3) == 0 {
				return 1<<20 + r.Intn(5<<20)
			}
			return 100 + r.Intn(5000)
		}, r.Bool())
		for i := 0; i < 4; i++ {
			sc.Reqs = append(sc.Reqs, genRequest(r, sc.Fracs, 1+r.Intn(8), []int{0, 30}[r.Intn(2)], []string{"inside", "above-all", "border-high"}, false, orders[r.Intn(3)]))
		}
	case 5: // active fraction that receives a bulk between the creation of its data provider and the position lookup
		sc.Fracs = genFracs(r, 1+r.Intn(3), 10, mixed, true)
		act := &sc.Fracs[len(sc.Fracs)-1]
		from, to := act.borders()
		for i := 0; i < 6; i++ {
			rq := genRequest(r, sc.Fracs, 1+r.Intn(8), []int{0, 30, 60}[r.Intn(3)], absentClasses, false, orders[r.Intn(3)])
			nl := 1 + r.Intn(4)
			for k := 0; k < nl; k++ {
				d := docSpec{MID: from + uint64(r.Intn(int(to-from+1))), RID: uint64(20000 + 100*i + 2*k), Size: mixed()}
				rq.Late = append(rq.Late, d)
				rq.IDs = append(rq.IDs, reqID{MID: d.MID, RID: d.RID, Hint: -1})
			}
			// late IDs anywhere in the request
			p := r.Perm(len(rq.IDs))
			ids := make([]reqID, len(rq.IDs))
			for a, b := range p {
				ids[a] = rq.IDs[b]
			}
			rq.IDs = ids
			rq.Class = "late-bulk-into-active " + rq.Class
			sc.Reqs = append(sc.Reqs, rq)
		}
	case 6: // one millisecond shared by a run of documents across the ID-block boundary of a sealed fraction
		bf, runDocs := genBoundaryFrac(r, 1_700_000_000_000)
		sc.Fracs = []fracSpec{bf}
		if r.Bool() {
			sc.Fracs = append(sc.Fracs, genFracs(r, 1, 6, small, r.Bool())...)
		}
		for i := 0; i < 8; i++ {
			n := 1
			if i%2 == 1 {
				n = 2 + r.Intn(30)
			}
			hint := -1
			if i%4 >= 2 {
				hint = 0
			}
			var ids []reqID
			for _, pi := range r.Perm(len(runDocs))[:min(n, len(runDocs))] {
				d := runDocs[pi]
				ids = append(ids, reqID{MID: d.MID, RID: d.RID, Hint: hint})
				if r.Intn(4) == 0 { // an absent neighbour inside the run
					ids = append(ids, reqID{MID: d.MID, RID: d.RID + 1, Hint: hint})
				}
			}
			sc.Reqs = append(sc.Reqs, request{Class: fmt.Sprintf("same-ms-run-across-id-block n=%s hints=%s", bucket(len(ids)), vh.B(hint >= 0)), IDs: ids})
		}
		rq := genRequest(r, sc.Fracs, 1500, 10, []string{"inside", "neighbour", "border-high", "above-all"}, false, orders[r.Intn(3)])
		rq.Class = "same-ms-run-across-id-block " + rq.Class
		sc.Reqs = append(sc.Reqs, rq)
	case 7: // multi-chunk requests whose chunks touch different subsets of >= 3 fractions (the stream keeps one fraction list)
		k := 3 + r.Intn(2)
		sizes := small
		if r.Intn(3) == 0 {
			sizes = func() int { return 2000 + r.Intn(6000) } // large documents: later chunks shrink below 1000 ids
		}
		sc.Fracs = genFracs(r, k, 700, sizes, r.Bool())
		for i := 0; i < 4; i++ {
			sc.Reqs = append(sc.Reqs, genSegmentedRequest(r, sc.Fracs, i))
		}
	case 8: // the last bulk of a fraction is a partly retried one: new documents above the fraction's To, newest first
		sc.Fracs = genFracs(r, 1+r.Intn(3), 8, mixed, r.Bool())
		var fresh []reqID
		for k := range sc.Fracs {
			f := &sc.Fracs[k]
			_, to := f.borders()
			f.RetryFrom = len(f.Docs)
			f.RetryDup = 1 + r.Intn(min(3, len(f.Docs)))
			nn := 1
			if r.Bool() {
				nn = 2 + r.Intn(4)
			}
			for i := 0; i < nn; i++ { // descending timestamps
				d := docSpec{MID: to + uint64(2*(nn-i)), RID: uint64(30000 + 100*k + 2*i), Size: mixed()}
				f.Docs = append(f.Docs, d)
				hint := -1
				if r.Intn(3) == 0 {
					hint = k
				}
				fresh = append(fresh, reqID{MID: d.MID, RID: d.RID, Hint: hint})
			}
		}
		for _, id := range fresh { // each new document alone, then all of them, then mixed requests
			sc.Reqs = append(sc.Reqs, request{Class: fmt.Sprintf("doc-of-partly-retried-bulk n=1 hints=%s", vh.B(id.Hint >= 0)), IDs: []reqID{id}})
		}
		all := request{Class: "doc-of-partly-retried-bulk n=" + bucket(len(fresh)) + " hints=0"}
		for _, id := range fresh {
			id.Hint = -1
			all.IDs = append(all.IDs, id)
		}
		sc.Reqs = append(sc.Reqs, all)
		for i := 0; i < 6; i++ {
			sc.Reqs = append(sc.Reqs, genRequest(r, sc.Fracs, 1+r.Intn(12), []int{0, 20, 50}[r.Intn(3)], absentClasses, r.Intn(3) == 0, orders[r.Intn(3)]))
		}
	case 9: // thousands of tiny documents in ONE docs block, most of them asked for in one request
		n := 5000 + r.Intn(2000)
		f := fracSpec{Sealed: r.Bool()}
		for i := 0; i < n; i++ {
			f.Docs = append(f.Docs, docSpec{MID: 1_700_000_000_000 + uint64(i/4), RID: uint64(1000 + 2*(i%4)), Size: 2 + r.Intn(40)})
		}
		sc.Fracs = []fracSpec{f}
		if r.Bool() {
			sc.Fracs = append(sc.Fracs, genFracs(r, 1, 6, small, true)...)
		}
		sc.BulkDocs = 100000
		for _, m := range []int{3100 + r.Intn(300), 4400 + r.Intn(500)} {
			p := r.Perm(n)[:m]
			rq := request{Class: fmt.Sprintf("many-docs-of-one-block n=%s hints=0", bucket(m))}
			for _, pi := range p {
				d := f.Docs[pi]
				rq.IDs = append(rq.IDs, reqID{MID: d.MID, RID: d.RID, Hint: -1})
			}
			sc.Reqs = append(sc.Reqs, rq)
		}
	case 10: // concurrent bulks into the active fraction, then a restart while it is still active (Replay), then fetch
		sc.Fracs = genFracs(r, 1+r.Intn(2), 60, mixed, true)
		sc.BulkDocs = 2 + r.Intn(5)
		sc.Writers = 6 + r.Intn(3)
		sc.Restart = true
		act := len(sc.Fracs) - 1
		all := request{Class: "active-replayed-after-concurrent-bulks all-ids hints=0"}
		for _, d := range sc.Fracs[act].Docs {
			all.IDs = append(all.IDs, reqID{MID: d.MID, RID: d.RID, Hint: -1})
		}
		sc.Reqs = append(sc.Reqs, all)
		for i := 0; i < 6; i++ {
			rq := genRequest(r, sc.Fracs, 1+r.Intn(20), []int{0, 20, 50}[r.Intn(3)], absentClasses, r.Intn(3) == 0, orders[r.Intn(3)])
			rq.Class = "active-replayed-after-concurrent-bulks " + rq.Class
			sc.Reqs = append(sc.Reqs, rq)
		}
	case 11: // a kill between the index rename and the removal of the active files, then a restart through the loader
		sc.Fracs = genFracs(r, 1+r.Intn(3), 25, mixed, r.Bool())
		sc.BulkDocs = 3 + r.Intn(6)
		sc.CrashLeftover = true
		sc.Restart = true
		for k := range sc.Fracs {
			all := request{Class: "sealed-with-crash-leftover all-ids hints=0"}
			for _, d := range sc.Fracs[k].Docs {
				all.IDs = append(all.IDs, reqID{MID: d.MID, RID: d.RID, Hint: -1})
			}
			sc.Reqs = append(sc.Reqs, all)
		}
		for i := 0; i < 6; i++ {
			rq := genRequest(r, sc.Fracs, 1+r.Intn(12), []int{0, 20, 50}[r.Intn(3)], absentClasses, r.Intn(3) == 0, orders[r.Intn(3)])
			rq.Class = "sealed-with-crash-leftover " + rq.Class
			sc.Reqs = append(sc.Reqs, rq)
		}
	case 4: // 100k IDs, mostly absent, over one mid-sized fraction pair
		sc.Fracs = genFracs(r, 2, 3000, func() int { return 200 + r.Intn(200) }, false)
		sc.Reqs = append(sc.Reqs, genRequest(r, sc.Fracs, 100000, 95, []string{"inside", "above-all", "below-all"}, false, "random"))
	}
	// sealed fractions with one docs block (default) or many (small DocBlockSize): several seals in one process
	sc.DocBlockSize = []int{0, 64, 300, 2000}[r.Intn(4)]
	if shape == 9 {
		sc.DocBlockSize = 0 // the sealed fraction keeps all the tiny documents in one block
	}
	sc.SkipSortDocs = r.Intn(3) == 0 // the non-default sealing mode: the sealed fraction reads the active fraction's docs file
	if shape == 11 {
		sc.SkipSortDocs = false // the leftover state needs the sorted docs file
	}
	return sc
}

// ---------------------------------------------------------------- oracle

func classify(res string, stderr string, died, timeout bool) (site, class string) {
	switch {
	case timeout:
		return "storeapi/grpc_fetch.go:Fetch", "hang"
	case died && strings.Contains(stderr, "integer divide by zero"):
		return "storeapi/docs_stream.go:calcChunkSize", "chunk-size-div-zero-or-zero"
	case died && strings.Contains(stderr, "sortIDs"):
		return "storeapi/docs_stream.go:calcChunkSize", "chunk-size-div-zero-or-zero"
	case died:
		return "storeapi/grpc_fetch.go:Fetch", "process-died"
	case strings.HasPrefix(res, "error:") && strings.Contains(res, "fetch panicked on fraction") && strings.Contains(res, "index out of range"):
		return "frac/sealed_index.go:findLIDs", "absent-id-below-all-stored"
	case strings.HasPrefix(res, "error:") && strings.Contains(res, "can't fetch doc at pos"):
		return "disk/docs_reader.go:ReadDocsFunc", "docs-block-read-failed"
	case strings.HasPrefix(res, "error:"):
		return "storeapi/grpc_fetch.go:Fetch", "request-failed"
	}
	return "storeapi/grpc_fetch.go:Fetch", "wrong-entry"
}

func scenarioLine(sc *scenario, only int) string {
	c := scenario{Name: sc.Name, Fracs: sc.Fracs, DocBlockSize: sc.DocBlockSize, SkipSortDocs: sc.SkipSortDocs, BulkDocs: sc.BulkDocs, Writers: sc.Writers, CrashLeftover: sc.CrashLeftover, Restart: sc.Restart}
	if only >= 0 {
		c.Reqs = []request{sc.Reqs[only]}
	} else {
		c.Reqs = sc.Reqs
	}
	b, _ := json.Marshal(c)
	return "scenario " + string(b)
}

// minimise drops IDs of a failing single-request scenario while the same (site, class) is still observed.
func minimise(sc scenario, site, class string, budget int) scenario {
	fails := func(c *scenario) bool {
		if budget <= 0 {
			return false
		}
		budget--
		cr := runChild(c, nil, 60*time.Second)
		died := cr.died >= 0
		s, k := classify(cr.res[0], cr.stderr, died, cr.timeout)
		s, k = adjustLate(s, k, c.Reqs[0])
		s, k = adjustPanic(s, k, c, c.Reqs[0])
		return (died || (cr.res[0] != "ok" && cr.res[0] != "")) && s == site && k == class
	}
	with := func(ids []reqID, fracs []fracSpec) *scenario {
		var late []docSpec
		for _, d := range sc.Reqs[0].Late {
			for _, id := range ids {
				if id.MID == d.MID && id.RID == d.RID {
					late = append(late, d)
				}
			}
		}
		return &scenario{Name: sc.Name, Fracs: fracs, DocBlockSize: sc.DocBlockSize, SkipSortDocs: sc.SkipSortDocs, BulkDocs: sc.BulkDocs, Writers: sc.Writers, CrashLeftover: sc.CrashLeftover, Restart: sc.Restart, Reqs: []request{{Class: sc.Reqs[0].Class, IDs: ids, Late: late}}}
	}
	// 1. drop requested IDs
	ids := sc.Reqs[0].IDs
	for chunk := (len(ids) + 1) / 2; chunk >= 1 && len(ids) > 1; chunk /= 2 {
		for start := 0; start < len(ids) && len(ids) > 1; {
			end := min(len(ids), start+chunk)
			cand := append(append([]reqID{}, ids[:start]...), ids[end:]...)
			if len(cand) > 0 && fails(with(cand, sc.Fracs)) {
				ids = cand
			} else {
				start = end
			}
		}
	}
	// 2. drop whole fractions (hints are re-numbered)
	fracs := sc.Fracs
	for k := 0; k < len(fracs) && len(fracs) > 1; {
		candF := append(append([]fracSpec{}, fracs[:k]...), fracs[k+1:]...)
		candI := make([]reqID, len(ids))
		usable := true
		for i, id := range ids {
			candI[i] = id
			if id.Hint == k {
				usable = false
			} else if id.Hint > k {
				candI[i].Hint--
			}
		}
		if usable && fails(with(candI, candF)) {
			fracs, ids = candF, candI
		} else {
			k++
		}
	}
	// 3. drop documents
	for k := range fracs {
		docs := fracs[k].Docs
		if fracs[k].RetryFrom > 0 {
			continue // the indexes of the retried bulk refer to this document list
		}
		for chunk := (len(docs) + 1) / 2; chunk >= 1 && len(docs) > 1; chunk /= 2 {
			for start := 0; start < len(docs) && len(docs) > 1; {
				end := min(len(docs), start+chunk)
				cand := append(append([]docSpec{}, docs[:start]...), docs[end:]...)
				candF := append([]fracSpec{}, fracs...)
				candF[k] = fracSpec{Sealed: fracs[k].Sealed, Docs: cand}
				if len(cand) > 0 && fails(with(ids, candF)) {
					docs = cand
					fracs = candF
				} else {
					start = end
				}
			}
		}
	}
	return *with(ids, fracs)
}

var reported = map[string]bool{}

func runOracle(rep *vh.Report, orc *vh.Oracle, sc *scenario, minimiseBudget int) {
	var skip []int
	for round := 0; round < 12; round++ {
		cr := runChild(sc, skip, 10*time.Minute)
		if cr.died == -1 && !cr.timeout && len(cr.res) == 0 && len(skip) < len(sc.Reqs) {
			orc.Error = "child produced no result: " + cr.stderr
			return
		}
		for k := 0; k < cr.lateFound; k++ {
			orc.Distribution["late-document-answered-verbatim"]++
		}
		for k := 0; k < cr.lateMissing; k++ {
			orc.Distribution["late-document-not-yet-visible"]++
		}
		for j, r := range sc.Reqs {
			res, ok := cr.res[j]
			if !ok {
				continue
			}
			nAbsent := 0
			for _, id := range r.IDs {
				if sc.lookup(id) == nil {
					nAbsent++
				}
			}
			tags := []string{"req:" + r.Class}
			if multiCandidate(sc, r) {
				tags = append(tags, "present-id-without-hint-in-range-of-several-fractions")
			}
			orc.Case(fmt.Sprintf("%s#%d %s", sc.Name, j, r.Class), nAbsent > 0 && nAbsent < len(r.IDs), tags...)
			if res != "ok" && j != cr.died {
				site, class := classify(res, "", false, false)
				reportViolation(rep, sc, j, site, class, res, reported, minimiseBudget)
			}
		}
		if cr.died < 0 && !cr.timeout {
			return
		}
		j := cr.died
		if j < 0 {
			orc.Error = "child died outside any request: " + cr.stderr
			return
		}
		// re-run the request alone before reporting the death
		solo := *sc
		solo.Reqs = []request{sc.Reqs[j]}
		cr2 := runChild(&solo, nil, 5*time.Minute)
		orc.Case(fmt.Sprintf("%s#%d %s", sc.Name, j, sc.Reqs[j].Class), true, "req:"+sc.Reqs[j].Class)
		if cr2.died >= 0 || cr2.timeout {
			site, class := classify("", cr2.stderr, true, cr2.timeout)
			reportViolation(rep, sc, j, site, class, "the store process died while serving the request: "+firstLine(cr2.stderr), reported, minimiseBudget)
		} else if cr2.res[0] != "ok" {
			site, class := classify(cr2.res[0], "", false, false)
			reportViolation(rep, sc, j, site, class, cr2.res[0], reported, minimiseBudget)
		} else {
			rep.Note("request %s#%d killed the store only after earlier requests of the scenario (not alone): %s", sc.Name, j, firstLine(cr.stderr))
			site, class := classify("", cr.stderr, true, cr.timeout)
			rep.Violate(vh.Violation{Site: site, Class: class, What: "the store process died (only in sequence): " + firstLine(cr.stderr), Replay: []string{scenarioLine(sc, -1)}})
		}
		skip = append(skip, j)
		for k := range cr.res {
			skip = append(skip, k)
		}
	}
}

// multiCandidate: some present ID without hint lies in the time range of a fraction, other than its holder, that is
// visited after the holder (its not-found answer must not wipe the document).
func multiCandidate(sc *scenario, r request) bool {
	for _, id := range r.IDs {
		if id.Hint != -1 || sc.lookup(id) == nil {
			continue
		}
		holder := -1
		for k, f := range sc.Fracs {
			for _, d := range f.Docs {
				if d.MID == id.MID && d.RID == id.RID {
					holder = k
				}
			}
		}
		for k := holder + 1; k < len(sc.Fracs); k++ {
			from, to := sc.Fracs[k].borders()
			if from <= id.MID && id.MID <= to {
				return true
			}
		}
	}
	return false
}

func firstLine(s string) string {
	for _, l := range strings.Split(s, "\n") {
		if strings.HasPrefix(l, "panic:") || strings.HasPrefix(l, "fatal error:") {
			return l
		}
	}
	if i := strings.IndexByte(s, '\n'); i >= 0 {
		return s[:i]
	}
	return s
}

// adjustLate: the recovered panic of a fetch that raced with a bulk into the active fraction is not the sealed ID lookup
func adjustLate(site, class string, r request) (string, string) {
	if len(r.Late) > 0 && class == "absent-id-below-all-stored" {
		return "frac/active_index.go:GetBlocksOffsets", "block-appended-after-provider-copy"
	}
	return site, class
}

// adjustPanic: a recovered fraction panic is the sealed ID lookup's only when the request holds an ID below every ID
// of a sealed fraction at that fraction's oldest timestamp; any other recovered panic gets its own signature.
func adjustPanic(site, class string, sc *scenario, r request) (string, string) {
	if class != "absent-id-below-all-stored" {
		return site, class
	}
	for _, f := range sc.Fracs {
		if !f.Sealed {
			continue
		}
		from, _ := f.borders()
		minRID := ^uint64(0)
		for _, d := range f.Docs {
			if d.MID == from {
				minRID = min(minRID, d.RID)
			}
		}
		for _, id := range r.IDs {
			if id.MID == from && id.RID < minRID {
				return site, class
			}
		}
	}
	return "fracmanager/fetcher.go:fracFetch", "fraction-fetch-panicked"
}

func reportViolation(rep *vh.Report, sc *scenario, j int, site, class, what string, reported map[string]bool, budget int) {
	site, class = adjustLate(site, class, sc.Reqs[j])
	site, class = adjustPanic(site, class, sc, sc.Reqs[j])
	key := site + "|" + class
	if reported[key] {
		return
	}
	reported[key] = true
	solo := *sc
	solo.Reqs = []request{sc.Reqs[j]}
	if budget > 0 && len(solo.Reqs[0].IDs) > 1 {
		solo = minimise(solo, site, class, budget)
	}
	rep.Violate(vh.Violation{Site: site, Class: class, What: what, Replay: []string{scenarioLine(&solo, -1)}})
}

// ---------------------------------------------------------------- channels

func chunkSizeImpl(lens []int, prev int) string {
	docs := make([][]byte, len(lens))
	for i, n := range lens {
		docs[i] = zeroBuf[:n]
	}
	res := ""
	func() {
		defer func() {
			if r := recover(); r != nil {
				if strings.Contains(fmt.Sprint(r), "divide by zero") {
					res = "panic div0"
				} else {
					res = "panic other"
				}
			}
		}()
		res = fmt.Sprintf("ok %d", storeapi.VerifC04CalcChunkSize(docs, prev))
	}()
	return res
}

var zeroBuf = make([]byte, 16<<20)

func chunkSizeChannel(o vh.Opts, r *vh.RNG) *vh.Channel {
	ch := vh.NewChannel("chunksize", "docsStream.calcChunkSize vs SV.Chunking.calcFixed; exhaustive over (found bytes, entries) in [0,64]x[1,64] and two previous sizes, then random sizes up to 10^7; non-trivial = at least one found document")
	ch.Exhaustive = true
	add := func(lens []int, prev int, tag string) {
		sum := 0
		for _, n := range lens {
			sum += n
		}
		ch.Add(fmt.Sprintf("chunksize %d %s %d", conf.MaxFetchSizeBytes, vh.JoinInts(lens), prev), chunkSizeImpl(lens, prev), sum > 0, tag)
	}
	for sum := 0; sum <= 64; sum++ {
		for cnt := 1; cnt <= 64; cnt++ {
			lens := make([]int, cnt)
			lens[0] = sum
			for _, prev := range []int{1, storeapi.VerifC04InitChunkSize} {
				tag := "avg>=1"
				if sum == 0 {
					tag = "nothing-found"
				} else if sum < cnt {
					tag = "avg=0"
				}
				add(lens, prev, tag)
			}
		}
	}
	n := o.Pick(3000, 60000)
	for i := 0; i < n; i++ {
		cnt := 1 + r.Intn(6)
		lens := make([]int, cnt)
		tag := "random"
		for j := range lens {
			switch r.Intn(6) {
			case 0:
				lens[j] = 0
			case 1:
				lens[j] = r.Intn(10_000_000)
				if lens[j] > conf.MaxFetchSizeBytes {
					tag = "random-huge"
				}
			case 2:
				lens[j] = conf.MaxFetchSizeBytes - 2 + r.Intn(5)
			default:
				lens[j] = r.Intn(3000)
			}
		}
		add(lens, 1+r.Intn(50000), tag)
	}
	return ch
}

func fmtIDs(ids []seq.ID) string {
	if len(ids) == 0 {
		return "-"
	}
	var sb strings.Builder
	for i, id := range ids {
		if i > 0 {
			sb.WriteByte(',')
		}
		fmt.Fprintf(&sb, "%d:%d", uint64(id.MID), uint64(id.RID))
	}
	return sb.String()
}

// sealedChannels runs findLIDs / LessOrEqual on the sealed fractions of real stores against the model, the
// queried IDs are placed on both sides of every stored ID and of the fraction borders.
func sealedChannels(o vh.Opts, r *vh.RNG, rep *vh.Report) (*vh.Channel, *vh.Channel) {
	fl := vh.NewChannel("findlids", "sealedFetchIndex.findLIDs on real sealed fractions (ID table dumped through GetMID/GetRID) vs SV.Fetch.findLIDsFixed; queried IDs: every stored ID, its two neighbours, both borders, in ascending, descending and random order; non-trivial = at least one present and one absent ID")
	le := vh.NewChannel("lessorequal", "sealedIDsIndex.LessOrEqual (with its MinBlockIDs short cuts) vs SV.Fetch.lessOrEqualBlk on the dumped table; non-trivial = lid inside the table")
	nStores := o.Pick(3, 40)
	for s := 0; s < nStores; s++ {
		var sc scenario
		docsPer := []int{1, 3, 12, 40}[r.Intn(4)]
		if s == 1 {
			docsPer = 5000 // several ID blocks (IDsPerBlock = 4096)
		}
		sc.Fracs = genFracs(r, 1+r.Intn(3), docsPer, func() int { return 2 + r.Intn(30) }, false)
		if s == 0 { // one millisecond shared across the ID-block boundary
			bf, _ := genBoundaryFrac(r, 1_700_000_000_000)
			sc.Fracs = []fracSpec{bf}
		}
		st, err := newStore(&sc)
		if err != nil {
			fl.Error = "store: " + err.Error()
			return fl, le
		}
		for _, f := range st.fm.GetAllFracs() {
			if f.Info().DocsTotal == 0 {
				continue
			}
			dp, release := f.DataProvider(context.Background())
			table, _, minIDs, ok := frac.VerifC04Table(dp)
			if !ok {
				release()
				continue
			}
			tableS := fmtIDs(table)
			// candidate IDs around every stored one
			var cands []seq.ID
			step := max(1, len(table)/o.Pick(60, 400))
			for l := 1; l < len(table); l += step {
				id := table[l]
				cands = append(cands, id, seq.ID{MID: id.MID, RID: id.RID + 1}, seq.ID{MID: id.MID, RID: id.RID - 1})
			}
			var borderCands []seq.ID
			if len(table) > consts.IDsPerBlock+8 { // both sides of the ID-block boundary
				for l := consts.IDsPerBlock - 8; l < consts.IDsPerBlock+8; l++ {
					id := table[l]
					borderCands = append(borderCands, id, seq.ID{MID: id.MID, RID: id.RID + 1}, seq.ID{MID: id.MID, RID: id.RID - 1})
				}
				cands = append(cands, borderCands...)
			}
			last := table[len(table)-1]
			first := table[1]
			cands = append(cands, last, seq.ID{MID: last.MID, RID: last.RID - 1}, seq.ID{MID: last.MID, RID: 0}, seq.ID{MID: last.MID - 1, RID: seq.RID(^uint64(0) >> 1)},
				seq.ID{MID: first.MID, RID: first.RID + 1}, seq.ID{MID: first.MID + 1, RID: 0})
			nq := o.Pick(12, 60)
			if len(table) > 4096 {
				nq = o.Pick(6, 12)
			}
			for q := 0; q < nq; q++ {
				pool := cands
				if len(borderCands) > 0 && q%2 == 1 {
					pool = borderCands
				}
				n := 1 + r.Intn(min(len(pool), 40))
				var ids []seq.ID
				seen := map[seq.ID]bool{}
				withLow := q%4 == 0 // every 4th query holds an ID below everything stored
				for tries := 0; len(ids) < n && tries < 20*n+50; tries++ {
					id := pool[r.Intn(len(pool))]
					if seen[id] || (seq.Less(id, last) && !withLow) {
						continue
					}
					seen[id] = true
					ids = append(ids, id)
				}
				if len(ids) == 0 {
					continue
				}
				order := []string{"random", "asc", "desc"}[r.Intn(3)]
				switch order {
				case "asc":
					sort.Slice(ids, func(i, j int) bool { return seq.Less(ids[i], ids[j]) })
				case "desc":
					sort.Slice(ids, func(i, j int) bool { return seq.Less(ids[j], ids[i]) })
				}
				lids, p := frac.VerifC04FindLIDs(dp, ids)
				impl := "ok " + vh.JoinInts(lids)
				if p != "" {
					impl = "panic"
				}
				found, missing := 0, 0
				for _, l := range lids {
					if l > 0 {
						found++
					} else {
						missing++
					}
				}
				tags := []string{"order=" + order, "table=" + bucket(len(table)-1)}
				if withLow {
					tags = append(tags, "has-id-below-all")
				}
				fl.Add("findlids "+tableS+" "+fmtIDs(ids), impl, found > 0 && missing > 0, tags...)
			}
			// LessOrEqual on a sample of (lid, id)
			minS := fmtIDs(minIDs)
			for q := 0; q < o.Pick(60, 400); q++ {
				lid := r.Intn(len(table) + 2)
				id := cands[r.Intn(len(cands))]
				if len(table) > 4096 && r.Bool() { // around the block border
					lid = 4096 - 4 + r.Intn(10)
					if len(borderCands) > 0 && r.Bool() {
						id = borderCands[r.Intn(len(borderCands))]
					}
				}
				res, p := frac.VerifC04LessOrEqual(dp, seq.LID(lid), id)
				impl := "ok " + vh.B(res)
				if p != "" {
					impl = "panic"
				}
				le.Add(fmt.Sprintf("lessorequal %d %s %s %d %d:%d", consts.IDsPerBlock, tableS, minS, lid, uint64(id.MID), uint64(id.RID)), impl, lid < len(table), "blocks="+strconv.Itoa(len(minIDs)))
			}
			release()
		}
		st.close()
	}
	return fl, le
}

// ---------------------------------------------------------------- small function channels

// idStringChannel: seq.ID.String / seq.FromString (the textual ID search hands out and fetch parses) vs SV.IDStr
func idStringChannel(o vh.Opts, r *vh.RNG) *vh.Channel {
	ch := vh.NewChannel("idstr", "seq.ID.String and seq.FromString vs SV.IDStr.idString / fromString: boundary and random IDs both ways, then texts mutated at one byte (other case, non-hex byte, separator byte), truncated and extended texts; non-trivial = all")
	vals := []uint64{0, 1, 9, 10, 15, 16, 255, 256, 1<<32 - 1, 1 << 32, 1<<63 - 1, 1 << 63, ^uint64(0), ^uint64(0) - 1, 0x0123456789abcdef, 0xfedcba9876543210}
	dec := func(x []byte, tags ...string) {
		id, err := seq.FromString(string(x))
		want := "err"
		if err == nil {
			want = fmt.Sprintf("ok %d %d", uint64(id.MID), uint64(id.RID))
		}
		ch.Add("idstr.dec "+vh.Hex(x), want, true, tags...)
	}
	try := func(m, rd uint64) {
		id := seq.ID{MID: seq.MID(m), RID: seq.RID(rd)}
		str := id.String()
		ch.Add(fmt.Sprintf("idstr.enc %d %d", m, rd), "ok "+vh.Hex([]byte(str)), true, "enc")
		dec([]byte(str), "dec-own")
		x := []byte(str)
		i := r.Intn(len(x))
		switch r.Intn(5) {
		case 0:
			x[i] = byte(strings.ToUpper(string(x[i]))[0])
			dec(x, "dec-upper")
		case 1:
			x[i] = []byte("g-GZ /:@`\x00\xff")[r.Intn(11)]
			dec(x, "dec-bad-byte")
		case 2:
			x[16] = byte(r.Intn(256))
			dec(x, "dec-separator")
		case 3:
			dec(x[:r.Intn(len(x))], "dec-short")
		case 4:
			dec(append(x, byte('0'+r.Intn(10))), "dec-long")
		}
	}
	for _, m := range vals {
		for _, rd := range vals {
			try(m, rd)
		}
	}
	for i := 0; i < o.Pick(300, 5000); i++ {
		try(r.U64(), r.U64())
	}
	for i := 0; i < o.Pick(100, 2000); i++ { // arbitrary 33-byte texts over a small alphabet
		x := make([]byte, 33)
		for j := range x {
			x[j] = "0123456789abcdefABCDEF-g"[r.Intn(24)]
		}
		dec(x, "dec-random-text")
	}
	return ch
}

// fetchHopChannel: the IDs the store reads (storeapi.extractIDs) from the request the proxy builds (Ingestor.makeFetchReq)
func fetchHopChannel(o vh.Opts, r *vh.RNG) *vh.Channel {
	ch := vh.NewChannel("fetchhop", "storeapi.extractIDs over search.Ingestor.makeFetchReq vs SV.IDStr.extractIDs (makeFetchReq ids): lists of 0..6 IDs (boundary and random MID/RID, sorted or not), hints empty / fraction-like / arbitrary bytes; non-trivial = at least one id")
	vals := []uint64{0, 1, 255, 256, 1<<32 - 1, 1 << 32, 1<<63 - 1, 1 << 63, ^uint64(0)}
	hints := []string{"", "seq-db-01HZX", "a", "\x00\xff-"}
	for i := 0; i < o.Pick(400, 6000); i++ {
		n := r.Intn(7)
		if i == 0 {
			n = 0
		}
		ids := make([]seq.IDSource, n)
		parts := make([]string, n)
		for j := range ids {
			m, rd := r.U64(), r.U64()
			if r.Chance(1, 2) {
				m, rd = vals[r.Intn(len(vals))], vals[r.Intn(len(vals))]
			}
			h := hints[r.Intn(len(hints))]
			ids[j] = seq.IDSource{ID: seq.ID{MID: seq.MID(m), RID: seq.RID(rd)}, Hint: h}
			parts[j] = fmt.Sprintf("%d:%d:%s", m, rd, vh.Hex([]byte(h)))
		}
		arg := strings.Join(parts, ",")
		if n == 0 {
			arg = "-"
		}
		impl := "err"
		if got, err := storeapi.VerifC04ExtractIDs(search.VerifC04MakeFetchReq(ids)); err == nil {
			out := make([]string, len(got))
			for j, g := range got {
				out[j] = fmt.Sprintf("%d:%d:%s", uint64(g.ID.MID), uint64(g.ID.RID), vh.Hex([]byte(g.Hint)))
			}
			impl = "ok " + strings.Join(out, ",")
			if len(out) == 0 {
				impl = "ok -" // the driver's canonical empty list
			}
		}
		ch.Add("fetchhop "+arg, impl, n > 0, fmt.Sprintf("n=%d", n))
	}
	return ch
}

func docPosChannels(o vh.Opts, r *vh.RNG) (*vh.Channel, *vh.Channel, *vh.Channel) {
	dp := vh.NewChannel("docpos", "seq.PackDocPos / DocPos.Unpack vs SV.Fetch.packDocPos / unpackDocPos (bits = 30): boundary values of block and offset, random, and raw uint64 positions incl. 0 and MaxUint64; non-trivial = all")
	const bits = 30
	blocks := []uint32{0, 1, 2, 1<<32 - 1, 1<<31 + 5}
	offs := []uint64{0, 1, 4, 1<<30 - 1, 1<<29 + 3}
	for i := 0; i < o.Pick(200, 3000); i++ {
		blocks = append(blocks, uint32(r.U64()))
		offs = append(offs, r.U64()&(1<<30-1))
	}
	for i, b := range blocks {
		off := offs[i%len(offs)]
		if i < 25 {
			off = offs[i%5]
			b = blocks[i/5]
		}
		pos := seq.PackDocPos(b, off)
		dp.Add(fmt.Sprintf("docpos.pack %d %d %d", bits, b, off), fmt.Sprintf("ok %d", uint64(pos)), true, "pack")
		ub, uo := pos.Unpack()
		dp.Add(fmt.Sprintf("docpos.unpack %d %d", bits, uint64(pos)), fmt.Sprintf("ok %d %d", ub, uo), true, "unpack-packed")
	}
	for _, raw := range []uint64{0, 1, 2, 1 << 30, 1<<30 + 1, 1<<62 + 1, ^uint64(0), ^uint64(0) - 1, r.U64(), r.U64()} {
		ub, uo := seq.DocPos(raw).Unpack()
		dp.Add(fmt.Sprintf("docpos.unpack %d %d", bits, raw), fmt.Sprintf("ok %d %d", ub, uo), true, "unpack-raw")
	}

	gr := vh.NewChannel("groupoffsets", "seq.GroupDocsOffsets vs SV.Fetch.groupDocsOffsets: exhaustive over all position lists of length <= 5 over {not-found, 3 blocks x 2 offsets} (sampled in the quick tier), then random; non-trivial = at least two positions of one block and one not-found")
	univ := []seq.DocPos{seq.DocPosNotFound}
	for b := uint32(0); b < 3; b++ {
		for _, off := range []uint64{0, 9} {
			univ = append(univ, seq.PackDocPos(b*7, off))
		}
	}
	var rec func(cur []seq.DocPos, n int)
	cnt := 0
	emit := func(ps []seq.DocPos, tag string) {
		blocks, offsets, index := seq.GroupDocsOffsets(ps)
		var gs []string
		perBlock := map[uint32]int{}
		nf := 0
		for _, p := range ps {
			if p == seq.DocPosNotFound {
				nf++
			} else {
				b, _ := p.Unpack()
				perBlock[b]++
			}
		}
		multi := false
		for _, c := range perBlock {
			if c > 1 {
				multi = true
			}
		}
		for i := range blocks {
			gs = append(gs, fmt.Sprintf("%d/%s/%s", blocks[i], plus(offsets[i]), plus(index[i])))
		}
		raw := make([]uint64, len(ps))
		for i, p := range ps {
			raw[i] = uint64(p)
		}
		gr.Add(fmt.Sprintf("groupoffsets %d %s", bits, vh.JoinInts(raw)), "ok "+vh.JoinStrs(gs, ";"), multi && nf > 0, tag)
	}
	rec = func(cur []seq.DocPos, n int) {
		if len(cur) == n {
			cnt++
			if o.Thorough() || cnt%7 == int(o.Seed%7) || n <= 3 {
				emit(append([]seq.DocPos{}, cur...), fmt.Sprintf("len=%d", n))
			}
			return
		}
		for _, u := range univ {
			rec(append(cur, u), n)
		}
	}
	for n := 0; n <= 5; n++ {
		rec(nil, n)
	}
	gr.Exhaustive = o.Thorough()
	for i := 0; i < o.Pick(300, 5000); i++ {
		n := r.Intn(40)
		ps := make([]seq.DocPos, n)
		for j := range ps {
			switch r.Intn(4) {
			case 0:
				ps[j] = seq.DocPosNotFound
			default:
				ps[j] = seq.PackDocPos(uint32(r.Intn(6)), uint64(r.Intn(1<<20)))
			}
		}
		emit(ps, "random")
	}

	ex := vh.NewChannel("extract", "disk.DocsReader.ReadDocs on a real docs block (written through frac.DocProvider + the bulk path) is covered by the oracle; here: the block layout `len32le + bytes` read back by SV.Fetch.extractDocs vs the documents put in; non-trivial = block with at least two documents")
	for i := 0; i < o.Pick(100, 1500); i++ {
		nd := 1 + r.Intn(5)
		var block []byte
		var offsets []int
		var docs []string
		for d := 0; d < nd; d++ {
			n := r.Intn(20)
			if r.Intn(8) == 0 {
				n = 256 + r.Intn(600)
			}
			doc := make([]byte, n)
			for k := range doc {
				doc[k] = byte(r.U64())
			}
			offsets = append(offsets, len(block))
			block = append(block, byte(n), byte(n>>8), byte(n>>16), byte(n>>24))
			block = append(block, doc...)
			docs = append(docs, vh.Hex(doc))
		}
		// ask for a permuted subset of the offsets
		perm := r.Perm(nd)
		k := 1 + r.Intn(nd)
		var offs []int
		var want []string
		for _, pi := range perm[:k] {
			offs = append(offs, offsets[pi])
			want = append(want, docs[pi])
		}
		ex.Add(fmt.Sprintf("extract %s %s", vh.Hex(block), vh.JoinInts(offs)), "ok "+vh.JoinStrs(want, ","), nd >= 2, fmt.Sprintf("docs=%d", nd))
	}
	return dp, gr, ex
}

func plus[T ~int | ~uint64](xs []T) string {
	if len(xs) == 0 {
		return "-"
	}
	ss := make([]string, len(xs))
	for i, x := range xs {
		ss[i] = fmt.Sprint(x)
	}
	return strings.Join(ss, "+")
}

// fakeIndex is a fetch index whose documents say where they were read from.
type fakeIndex struct{ pos []seq.DocPos }

func (f *fakeIndex) GetBlocksOffsets(b uint32) uint64 { return uint64(b) * 1000 }
func (f *fakeIndex) GetDocPos([]seq.ID) []seq.DocPos  { return f.pos }
func (f *fakeIndex) ReadDocs(blockOffset uint64, docOffsets []uint64) ([][]byte, error) {
	res := make([][]byte, len(docOffsets))
	for i, o := range docOffsets {
		res[i] = []byte(fmt.Sprintf("%d.%d", blockOffset/1000, o))
	}
	return res, nil
}

// indexFetchChannel: the real processor.IndexFetch over a fetch index whose documents name (block, offset) vs
// SV.Fetch.indexFetch.
func indexFetchChannel(o vh.Opts, r *vh.RNG) *vh.Channel {
	ch := vh.NewChannel("indexfetch", "processor.IndexFetch (GroupDocsOffsets, per-block ReadDocs, scatter) over a fetch index whose documents are named by the (block, offset) they are read from vs SV.Fetch.indexFetch: requests with 1, 2047, 2048, 2049, 4097 and random numbers of documents of ONE block, several blocks interleaved, not-found entries in between; non-trivial = a block with more than one requested document and a not-found entry")
	run := func(pos []seq.DocPos, tag string) {
		res := make([][]byte, len(pos))
		impl := ""
		if err := processor.IndexFetch(make([]seq.ID, len(pos)), stopwatch.New(), &fakeIndex{pos}, res); err != nil {
			impl = "err"
		} else {
			ts := make([]string, len(res))
			for i, d := range res {
				if d == nil {
					ts[i] = "-"
				} else {
					ts[i] = string(d)
				}
			}
			impl = "ok " + vh.JoinStrs(ts, ",")
		}
		raw := make([]uint64, len(pos))
		nf := 0
		for i, p := range pos {
			raw[i] = uint64(p)
			if p == seq.DocPosNotFound {
				nf++
			}
		}
		ch.Add(fmt.Sprintf("indexfetch 30 %s", vh.JoinInts(raw)), impl, nf > 0 && len(pos)-nf > 1, tag)
	}
	sizes := []int{1, 2, 100, 2047, 2048, 2049, 4097}
	if o.Thorough() {
		sizes = append(sizes, 4095, 4096, 6145, 10000)
	}
	for _, n := range sizes {
		for variant := 0; variant < 3; variant++ {
			var pos []seq.DocPos
			perm := r.Perm(n)
			for i := 0; i < n; i++ {
				switch variant {
				case 0: // one block only
					pos = append(pos, seq.PackDocPos(3, uint64(perm[i])*8))
				case 1: // one block, not-found entries in between
					pos = append(pos, seq.PackDocPos(3, uint64(perm[i])*8))
					if r.Intn(10) == 0 {
						pos = append(pos, seq.DocPosNotFound)
					}
				default: // a second block interleaved
					pos = append(pos, seq.PackDocPos(3, uint64(perm[i])*8))
					if r.Intn(3) == 0 {
						pos = append(pos, seq.PackDocPos(7, uint64(i)*8))
					}
				}
			}
			run(pos, fmt.Sprintf("one-block-n=%d", n))
		}
	}
	for i := 0; i < o.Pick(100, 1500); i++ {
		n := r.Intn(60)
		var pos []seq.DocPos
		for j := 0; j < n; j++ {
			if r.Intn(5) == 0 {
				pos = append(pos, seq.DocPosNotFound)
			} else {
				pos = append(pos, seq.PackDocPos(uint32(r.Intn(5)), uint64(r.Intn(100000))))
			}
		}
		run(pos, "random")
	}
	return ch
}

// filterStatsChannel: metaDataCollector.Filter (through C17's collector wrapper) vs SV.Fetch.filterStats / keptIDs.
func filterStatsChannel(o vh.Opts, r *vh.RNG) *vh.Channel {
	ch := vh.NewChannel("filterstats", "metaDataCollector.Filter(appended) after AppendMeta of a bulk's ids: MinMID, MaxMID and the kept ids vs SV.Fetch.filterStats / keptIDs. Exhaustive: every ordered selection of 1..4 out of 5 ids (3 timestamps) x every subset as the appended set; then random bulks of up to 30 ids in random, ascending and descending order; non-trivial = some but not all ids appended")
	ch.Exhaustive = true
	run := func(ids []seq.ID, appended []seq.ID, tag string) {
		c := frac.VerifNewCollectorC17()
		c.Init(0)
		for _, id := range ids {
			c.AppendMeta(frac.MetaData{ID: id, Size: 10})
		}
		c.Filter(appended)
		st := c.State()
		ch.Add(fmt.Sprintf("filterstats %s %s", fmtIDs(ids), fmtIDs(appended)),
			fmt.Sprintf("ok min=%d max=%d kept=%s", uint64(st.MinMID), uint64(st.MaxMID), fmtIDs(st.IDs)), len(appended) > 0 && len(appended) < len(ids), tag)
	}
	univ := []seq.ID{{MID: 5, RID: 1}, {MID: 5, RID: 2}, {MID: 7, RID: 1}, {MID: 9, RID: 1}, {MID: 9, RID: 3}}
	var rec func(cur []int)
	rec = func(cur []int) {
		if len(cur) > 0 {
			ids := make([]seq.ID, len(cur))
			for i, u := range cur {
				ids[i] = univ[u]
			}
			for m := 0; m < 1<<len(cur); m++ {
				var app []seq.ID
				for i := range cur {
					if m>>i&1 == 1 {
						app = append(app, ids[i])
					}
				}
				run(ids, app, fmt.Sprintf("exh-n=%d", len(cur)))
			}
		}
		if len(cur) == 4 {
			return
		}
		for u := range univ {
			used := false
			for _, c := range cur {
				used = used || c == u
			}
			if !used {
				rec(append(append([]int{}, cur...), u))
			}
		}
	}
	rec(nil)
	for i := 0; i < o.Pick(300, 5000); i++ {
		n := 1 + r.Intn(30)
		seen := map[seq.ID]bool{}
		var ids []seq.ID
		for len(ids) < n {
			id := seq.ID{MID: seq.MID(1000 + r.Intn(40)), RID: seq.RID(r.Intn(5))}
			if !seen[id] {
				seen[id] = true
				ids = append(ids, id)
			}
		}
		order := []string{"random", "asc", "desc"}[r.Intn(3)]
		switch order {
		case "asc":
			sort.Slice(ids, func(a, b int) bool { return seq.Less(ids[a], ids[b]) })
		case "desc":
			sort.Slice(ids, func(a, b int) bool { return seq.Less(ids[b], ids[a]) })
		}
		var app []seq.ID
		p := []int{10, 50, 90}[r.Intn(3)]
		for _, id := range ids {
			if r.Intn(100) < p {
				app = append(app, id)
			}
		}
		// the appended ids come back from SetMultiple in the bulk's order
		run(ids, app, "random-"+order)
	}
	return ch
}

// fakeFrac: a fraction that is only its Info (name, From, To, DocsTotal) - what groupIDsByFraction looks at.
type fakeFrac struct{ info *frac.Info }

func (f *fakeFrac) Info() *frac.Info                 { return f.info }
func (f *fakeFrac) IsIntersecting(a, b seq.MID) bool { return f.info.IsIntersecting(a, b) }
func (f *fakeFrac) Contains(m seq.MID) bool          { return f.info.IsIntersecting(m, m) }
func (f *fakeFrac) Suicide()                         {}
func (f *fakeFrac) DataProvider(context.Context) (frac.DataProvider, func()) {
	return frac.EmptyDataProvider{}, func() {}
}

// fracOracleArgs renders a fraction's answers (IsIntersecting on the request's range, Contains per timestamp).
func fracOracleArgs(f frac.Fraction, ids []seq.IDSource) string {
	lo, hi := ids[0].ID.MID, ids[0].ID.MID
	for _, id := range ids {
		lo, hi = min(lo, id.ID.MID), max(hi, id.ID.MID)
	}
	var cs []string
	seen := map[seq.MID]bool{}
	for _, id := range ids {
		if !seen[id.ID.MID] {
			seen[id.ID.MID] = true
			cs = append(cs, fmt.Sprintf("%d=%s", uint64(id.ID.MID), vh.B(f.Contains(id.ID.MID))))
		}
	}
	return fmt.Sprintf("%d:%d:%s/%s", uint64(lo), uint64(hi), vh.B(f.IsIntersecting(lo, hi)), vh.JoinStrs(cs, "+"))
}

func fmtIDS(ids []seq.IDSource, hintNum func(string) string) string {
	ss := make([]string, len(ids))
	for i, id := range ids {
		ss[i] = fmt.Sprintf("%d:%d:%s", uint64(id.ID.MID), uint64(id.ID.RID), hintNum(id.Hint))
	}
	return vh.JoinStrs(ss, ",")
}

func groupIDsChannel(o vh.Opts, r *vh.RNG) *vh.Channel {
	ch := vh.NewChannel("groupids", "fracmanager.groupIDsByFraction on fractions given by their Info (name, From, To, DocsTotal) vs SV.Fetch.groupIDsByFraction: exhaustive over 6 two-fraction layouts x all ordered selections of 1..3 out of 4 IDs x all hint assignments {none, frac 1, frac 2, unknown}; then random with up to 4 fractions and 12 IDs; non-trivial = at least one ID grouped and one dropped or hinted")
	ch.Exhaustive = true
	mk := func(name string, from, to uint64, docs uint32) frac.Fraction {
		return &fakeFrac{&frac.Info{Path: "/data/" + name, From: seq.MID(from), To: seq.MID(to), DocsTotal: docs}}
	}
	hintNum := func(h string) string {
		if h == "" {
			return "-"
		}
		return h
	}
	run := func(fs fracmanager.List, ids seq.IDSources, tag string) {
		var fa []string
		for _, f := range fs {
			fa = append(fa, f.Info().Name()+"/"+fracOracleArgs(f, ids))
		}
		req := fmt.Sprintf("groupids %s %s", vh.JoinStrs(fa, ";"), fmtIDS(ids, hintNum))
		outF, outIDs := fracmanager.VerifC04GroupIDs(append(seq.IDSources{}, ids...), append(fracmanager.List{}, fs...))
		var gs []string
		grouped := 0
		for i, f := range outF {
			gs = append(gs, f.Info().Name()+"="+fmtIDs(outIDs[i]))
			grouped += len(outIDs[i])
		}
		hinted := false
		for _, id := range ids {
			if id.Hint != "" {
				hinted = true
			}
		}
		ch.Add(req, "ok "+vh.JoinStrs(gs, ";"), grouped > 0 && (hinted || grouped < len(ids)), tag)
	}
	layouts := [][2][3]uint64{ // {from, to, docsTotal} of fraction "1" and "2"
		{{1, 2, 5}, {3, 4, 5}},
		{{1, 4, 5}, {2, 3, 5}},
		{{1, 2, 5}, {2, 4, 5}},
		{{3, 4, 5}, {1, 2, 5}},
		{{1, 4, 5}, {1, 4, 0}},
		{{2, 2, 5}, {5, 9, 5}},
	}
	univ := []seq.ID{{MID: 1, RID: 7}, {MID: 2, RID: 7}, {MID: 2, RID: 9}, {MID: 4, RID: 1}}
	hints := []string{"", "1", "2", "9"}
	for li, l := range layouts {
		fs := fracmanager.List{mk("1", l[0][0], l[0][1], uint32(l[0][2])), mk("2", l[1][0], l[1][1], uint32(l[1][2]))}
		var sel func(cur []int)
		sel = func(cur []int) {
			if len(cur) > 0 {
				k := len(cur)
				for m := 0; m < 1<<(2*k); m++ {
					if !o.Thorough() && k == 3 && (m+li)%4 != int(o.Seed%4) {
						continue
					}
					ids := make(seq.IDSources, k)
					for i, u := range cur {
						ids[i] = seq.IDSource{ID: univ[u], Hint: hints[m>>(2*i)&3]}
					}
					run(fs, ids, fmt.Sprintf("exh-k=%d", k))
				}
			}
			if len(cur) == 3 {
				return
			}
			for u := range univ {
				used := false
				for _, c := range cur {
					used = used || c == u
				}
				if !used {
					sel(append(append([]int{}, cur...), u))
				}
			}
		}
		sel(nil)
	}
	for i := 0; i < o.Pick(300, 6000); i++ {
		nf := 1 + r.Intn(4)
		var fs fracmanager.List
		for k := 0; k < nf; k++ {
			from := uint64(1 + r.Intn(20))
			docs := uint32(r.Intn(4))
			fs = append(fs, mk(strconv.Itoa(k+1), from, from+uint64(r.Intn(8)), docs))
		}
		n := 1 + r.Intn(12)
		seen := map[seq.ID]bool{}
		var ids seq.IDSources
		for len(ids) < n {
			id := seq.ID{MID: seq.MID(1 + r.Intn(28)), RID: seq.RID(r.Intn(4))}
			if seen[id] {
				continue
			}
			seen[id] = true
			h := ""
			if r.Intn(3) == 0 {
				h = strconv.Itoa(1 + r.Intn(nf+1))
			}
			ids = append(ids, seq.IDSource{ID: id, Hint: h})
		}
		run(fs, ids, "random")
	}
	return ch
}

// fetchDocsChannel: the real Fetcher.FetchDocs on real fractions vs the composed model on the dumped tables.
func fetchDocsChannel(o vh.Opts, r *vh.RNG) *vh.Channel {
	ch := vh.NewChannel("fetchdocs", "fracmanager.Fetcher.FetchDocs on real sealed/active fractions vs SV.Fetch.fetchDocs on the dumped ID tables / position maps (fraction range answers as oracle arguments); documents are identified by (fraction, block, offset); requests mix present and absent IDs (all border classes), hints, orders; non-trivial = at least one found and one not-found entry")
	fetcher := fracmanager.NewFetcher(2)
	for s := 0; s < o.Pick(6, 150); s++ {
		sc := scenario{Fracs: genFracs(r, 1+r.Intn(4), []int{2, 6, 20}[r.Intn(3)], func() int { return 48 + r.Intn(200) }, r.Bool())}
		st, err := newStore(&sc)
		if err != nil {
			ch.Error = "store: " + err.Error()
			return ch
		}
		all := st.fm.GetAllFracs()
		var fracs fracmanager.List
		for _, f := range all {
			if f.Info().DocsTotal > 0 {
				fracs = append(fracs, f)
			}
		}
		nameNum := map[string]string{}
		for k, n := range st.names {
			nameNum[n] = strconv.Itoa(k + 1)
		}
		// dump every fraction and build the content -> token dictionary
		type dump struct{ kind, entries string }
		dumps := map[string]dump{}
		tokens := map[string]string{}
		ok := true
		for k, f := range fracs {
			name := f.Info().Name()
			dp, release := f.DataProvider(context.Background())
			var ids []seq.ID
			var pos []seq.DocPos
			kind := "A"
			if t, p, _, isSealed := frac.VerifC04Table(dp); isSealed {
				kind, ids, pos = "S", t, p
			} else {
				for _, d := range sc.Fracs[k].Docs {
					ids = append(ids, seq.ID{MID: seq.MID(d.MID), RID: seq.RID(d.RID)})
				}
				var p string
				pos, p = frac.VerifC04DocPos(dp, ids)
				if p != "" {
					ok = false
				}
			}
			release()
			if name != st.names[k] || len(ids) != len(pos) {
				ok = false
				break
			}
			var es []string
			for i, id := range ids {
				es = append(es, fmt.Sprintf("%d:%d:%d", uint64(id.MID), uint64(id.RID), uint64(pos[i])))
				if pos[i] != seq.DocPosNotFound && !(kind == "S" && i == 0) {
					for _, d := range sc.Fracs[k].Docs {
						if d.MID == uint64(id.MID) && d.RID == uint64(id.RID) {
							b, off := pos[i].Unpack()
							tokens[string(docBytes(d.MID, d.RID, d.Size))] = fmt.Sprintf("%s.%d.%d", nameNum[name], b, off)
						}
					}
				}
			}
			dumps[name] = dump{kind, vh.JoinStrs(es, "+")}
		}
		if !ok {
			ch.Error = "could not dump the fractions of a store"
			st.close()
			return ch
		}
		for q := 0; q < o.Pick(25, 60); q++ {
			rq := genRequest(r, sc.Fracs, 1+r.Intn(14), []int{0, 20, 50, 80, 100}[r.Intn(5)], absentClasses, r.Intn(3) == 0, []string{"random", "asc", "desc"}[r.Intn(3)])
			ids := make(seq.IDSources, len(rq.IDs))
			for i, id := range rq.IDs {
				ids[i] = seq.IDSource{ID: seq.ID{MID: seq.MID(id.MID), RID: seq.RID(id.RID)}, Hint: st.hintName(id.Hint)}
			}
			docs, err := fetcher.FetchDocs(context.Background(), all, ids)
			impl := ""
			found, missing := 0, 0
			if err != nil {
				impl = "err"
			} else {
				var ts []string
				for _, d := range docs {
					if d == nil {
						ts = append(ts, "-")
						missing++
					} else if t, ok := tokens[string(d)]; ok {
						ts = append(ts, t)
						found++
					} else {
						ts = append(ts, "unknown-bytes")
					}
				}
				impl = "ok " + vh.JoinStrs(ts, ",")
			}
			var fa []string
			for _, f := range fracs {
				name := f.Info().Name()
				fa = append(fa, fmt.Sprintf("%s/%s/%s/%s", nameNum[name], fracOracleArgs(f, ids), dumps[name].kind, dumps[name].entries))
			}
			hintNum := func(h string) string {
				if h == "" {
					return "-"
				}
				if n, ok := nameNum[h]; ok {
					return n
				}
				return "999"
			}
			ch.Add(fmt.Sprintf("fetchdocs 30 %s %s", vh.JoinStrs(fa, ";"), fmtIDS(ids, hintNum)), impl, found > 0 && missing > 0, "req:"+rq.Class)
		}
		st.close()
	}
	return ch
}

// ---------------------------------------------------------------- main

func main() {
	if p := os.Getenv("VERIF_C04_CHILD"); p != "" {
		childMain(p)
		return
	}
	o := vh.ParseFlags()
	logger.SetLevel(zap.FatalLevel)
	rep := vh.NewReport("C04", o)
	rng := vh.NewRNG(o.Seed)

	orc := vh.NewOracle("fetch.stream", "real storeapi.GrpcV1.Fetch (child process; FracManager with sealed and active fractions, Fetcher, background batch loader) vs the ingested bytes: one entry per requested ID in request order, Ext1/Ext2 = ID, payload = exactly the ingested bytes or empty, no error, process alive; every request is preceded, on the same goroutine, by a fetch of its first IDs WITH a field filter (allow-list / block-list in turn) while the request itself carries none - the pooled filter must not leak into it; scenarios cover overlapping fractions, multi-chunk requests over fraction subsets, small DocBlockSize, SkipSortDocs, a bulk racing with the active provider, same-millisecond runs across ID blocks, partly retried bulks (new documents above the fraction's To, newest first); non-trivial = request mixes present and absent IDs")

	if o.Replay != "" {
		lines, err := vh.ReadReplay(o.Replay)
		if err != nil {
			fmt.Fprintln(os.Stderr, err)
			os.Exit(3)
		}
		for _, l := range lines {
			if !strings.HasPrefix(l, "scenario ") {
				continue
			}
			var sc scenario
			if err := json.Unmarshal([]byte(strings.TrimPrefix(l, "scenario ")), &sc); err != nil {
				orc.Error = "bad replay line: " + err.Error()
				continue
			}
			runOracle(rep, orc, &sc, 0)
		}
		rep.AddOracle(orc)
		rep.Write(o.Out)
		return
	}

	run := func(name string) bool { return o.Only == "" || o.Only == name }

	if run("chunksize") {
		rep.AddChannel(chunkSizeChannel(o, rng.Fork()), o.Driver)
	}
	if run("findlids") || run("lessorequal") {
		fl, le := sealedChannels(o, rng.Fork(), rep)
		rep.AddChannel(fl, o.Driver)
		rep.AddChannel(le, o.Driver)
	}
	if run("idstr") {
		rep.AddChannel(idStringChannel(o, rng.Fork()), o.Driver)
	}
	if run("fetchhop") {
		rep.AddChannel(fetchHopChannel(o, rng.Fork()), o.Driver)
	}
	if run("docpos") || run("groupoffsets") || run("extract") {
		a, b, c := docPosChannels(o, rng.Fork())
		rep.AddChannel(a, o.Driver)
		rep.AddChannel(b, o.Driver)
		rep.AddChannel(c, o.Driver)
	}
	if run("indexfetch") {
		rep.AddChannel(indexFetchChannel(o, vh.NewRNG(o.Seed+77)), o.Driver)
	}
	if run("filterstats") {
		rep.AddChannel(filterStatsChannel(o, rng.Fork()), o.Driver)
	}
	if run("groupids") {
		rep.AddChannel(groupIDsChannel(o, rng.Fork()), o.Driver)
	}
	if run("fetchdocs") {
		rep.AddChannel(fetchDocsChannel(o, rng.Fork()), o.Driver)
	}
	if run("fetch.stream") {
		r := rng.Fork()
		shapes := []int{0, 0, 0, 1, 1, 2, 3, 5, 6, 7, 7, 8, 8, 9, 9, 10, 10, 10, 11, 11}
		if o.Thorough() {
			shapes = nil
			for sh, n := range []int{60, 20, 8, 6, 2, 12, 6, 16, 16, 8, 20, 12} {
				for i := 0; i < n; i++ {
					shapes = append(shapes, sh)
				}
			}
		}
		for i, sh := range shapes {
			sc := genScenario(r.Fork(), fmt.Sprintf("s%d-shape%d", i, sh), sh, o.Thorough())
			runOracle(rep, orc, &sc, o.Pick(12, 30))
		}
		rep.AddOracle(orc)
	}
	rep.Write(o.Out)
}
