// C07 harness.
//
//	channel pfrac.trace  real proxyFrac (+ real Active/Sealed, real index workers) driven step by step through the
//	                     c07.* observation points; the logged label sequence must be a path of SV.ProxyFrac.step and
//	                     the final state must agree
//	channel aconc.trace  the same runs seen from the active index: every index-worker / data-provider step with what
//	                     the hook saw; must be a path of SV.ActiveConc.step, the model must predict every search
//	                     result and fetch outcome of every reader
//	oracle  sched.property  C07 itself on those runs (schedule chosen by the harness, incl. the forced witnesses)
//	oracle  race.workload   free-running writers / searchers / fetchers / maintenance (tiny fractions) in a child
//	                        built with -race; per-request assertions + final quiescent comparison
package main

import (
	"bufio"
	"context"
	"encoding/json"
	"errors"
	"flag"
	"fmt"
	"os"
	"os/exec"
	"regexp"
	"strconv"
	"strings"
	"time"

	"go.uber.org/zap"

	"github.com/ozontech/seq-db/frac"
	"github.com/ozontech/seq-db/logger"
	"github.com/ozontech/seq-db/seq"

	"verifharness/internal/vh"
)

// ---------------------------------------------------------------- scenario text form (replay lines)
//
// sc <name> w=<workers> bulks=<bulk>|<bulk>... ops=<op>,<op>,...
//   bulk = <mid>.<rid>.<t>+<t>;<doc>...
//   op   = app:<k> | seal | su | srch:<query>:<from>:<to> | fetch:<k>.<j>+<k>.<j> | fault | go:<thread> | drain

type scenario struct {
	name    string
	workers int
	bulks   [][]doc
	ops     []string
}

func (sc scenario) String() string {
	var bs []string
	for _, b := range sc.bulks {
		bs = append(bs, (&bulk{docs: b}).spec())
	}
	return fmt.Sprintf("sc %s w=%d bulks=%s ops=%s", sc.name, sc.workers, strings.Join(bs, "|"), strings.Join(sc.ops, ","))
}

func mkDoc(k, j int, mid, rid uint64, toks []int) doc {
	return doc{mid: mid, rid: rid, toks: toks, body: []byte(fmt.Sprintf(`{"bulk":%d,"n":%d,"mid":%d,"rid":%d,"pad":"%s"}`, k, j, mid, rid, strings.Repeat("x", (k*7+j*3)%11)))}
}

func parseScenario(line string) (scenario, error) {
	var sc scenario
	f := strings.Fields(line)
	if len(f) != 5 || f[0] != "sc" {
		return sc, fmt.Errorf("bad scenario line")
	}
	sc.name = f[1]
	sc.workers, _ = strconv.Atoi(strings.TrimPrefix(f[2], "w="))
	bodies := map[string][]byte{}
	for k, bs := range strings.Split(strings.TrimPrefix(f[3], "bulks="), "|") {
		var ds []doc
		for j, d := range strings.Split(bs, ";") {
			p := strings.Split(d, ".")
			if len(p) != 3 {
				return sc, fmt.Errorf("bad doc %q", d)
			}
			mid, _ := strconv.ParseUint(p[0], 10, 64)
			rid, _ := strconv.ParseUint(p[1], 10, 64)
			var toks []int
			if p[2] != "" {
				for _, t := range strings.Split(p[2], "+") {
					n, _ := strconv.Atoi(t)
					toks = append(toks, n)
				}
			}
			dd := mkDoc(k, j, mid, rid, toks)
			if b, ok := bodies[dd.idStr()]; ok { // a re-delivered document carries the same bytes
				dd.body = b
			} else {
				bodies[dd.idStr()] = dd.body
			}
			ds = append(ds, dd)
		}
		sc.bulks = append(sc.bulks, ds)
	}
	sc.ops = strings.Split(strings.TrimPrefix(f[4], "ops="), ",")
	return sc, nil
}

// ---------------------------------------------------------------- running a scenario

type outcome struct {
	w      *world
	err    error
	stuck  []string // threads that can never finish
	hangOK bool     // the real WaitGroup really never drains (confirmed on the implementation)
}

func (w *world) liveThreads() (enabled, blocked []string) {
	for _, n := range w.order {
		t := w.threads[n]
		if t.fin {
			continue
		}
		if w.enabled(t) {
			enabled = append(enabled, n)
		} else {
			blocked = append(blocked, n)
		}
	}
	return
}

func (w *world) drain() error {
	for i := 0; i < 10000; i++ {
		en, _ := w.liveThreads()
		if len(en) == 0 {
			return nil
		}
		// readers first (they unblock release/suicide), then index workers, then the rest
		pick := en[0]
		for _, pref := range []string{"rdr", "idx", "app"} {
			found := false
			for _, n := range en {
				if w.threads[n].kind == pref {
					pick, found = n, true
					break
				}
			}
			if found {
				break
			}
		}
		if err := w.step(pick); err != nil {
			return err
		}
	}
	return fmt.Errorf("drain did not terminate")
}

func (w *world) apply(op string, sc scenario) error {
	p := strings.Split(op, ":")
	switch p[0] {
	case "app":
		k, _ := strconv.Atoi(p[1])
		if k >= len(w.bulks) {
			return fmt.Errorf("no bulk %d", k)
		}
		w.newAppender(k)
	case "seal":
		w.newSealer()
	case "su":
		w.newSuicider()
	case "fault":
		w.faultNext = true
	case "srch":
		q, rest, err := parseQuery(strings.Split(p[1], "."))
		if err != nil || len(rest) != 0 {
			return fmt.Errorf("bad query %q", p[1])
		}
		from, _ := strconv.ParseUint(p[2], 10, 64)
		to, _ := strconv.ParseUint(p[3], 10, 64)
		return w.newReader(&reader{search: true, qs: p[1], q: q, from: from, to: to})
	case "fetch":
		r := &reader{}
		for _, x := range strings.Split(p[1], "+") {
			kj := strings.Split(x, ".")
			k, _ := strconv.Atoi(kj[0])
			j, _ := strconv.Atoi(kj[1])
			if k >= len(w.bulks) || j >= len(w.bulks[k].docs) {
				return fmt.Errorf("no doc %s", x)
			}
			r.ids = append(r.ids, w.bulks[k].docs[j])
		}
		return w.newReader(r)
	case "go":
		return w.step(p[1])
	case "drain":
		return w.drain()
	default:
		return fmt.Errorf("bad op %q", op)
	}
	return nil
}

// announce prints the scenario header; every executed op follows as an "OP" line, so that the parent can rebuild the
// replay line of a scenario during which the child died
func announce(sc scenario) {
	h := sc
	h.ops = nil
	fmt.Println("BEGIN " + h.String())
}

func runScenario(root string, sc scenario) outcome {
	announce(sc)
	w, err := newWorld(root, sc.workers, sc.bulks)
	if err != nil {
		return outcome{err: err}
	}
	o := outcome{w: w}
	for _, op := range sc.ops {
		fmt.Println("OP " + op)
		if err := w.apply(op, sc); err != nil {
			if errors.Is(err, errNotEnabled) { // a scripted schedule the code under test does not admit: stop scripting here
				w.notes = append(w.notes, fmt.Sprintf("script cut at %s: %v", op, err))
				break
			}
			o.err = fmt.Errorf("op %s: %w", op, err)
			return o
		}
	}
	if err := w.drain(); err != nil {
		o.err = err
		return o
	}
	_, o.stuck = w.liveThreads()
	if len(o.stuck) > 0 && w.wg > 0 && w.inflight == 0 && w.pendW == 0 {
		// nobody is left who could call Done: ask the real WaitGroup
		o.hangOK = !returnsWithin(w.p.WaitWriteIdle, 3)
	}
	_ = w.failedW
	return o
}

// ---------------------------------------------------------------- the property on the real answers

type finding struct {
	Class string `json:"class"`
	What  string `json:"what"`
}

func checkProperty(sc scenario, o outcome) []finding {
	w := o.w
	var fs []finding
	byID := map[string]doc{}
	for _, b := range w.bulks {
		if b.started {
			for _, d := range b.docs {
				if _, ok := byID[d.idStr()]; !ok {
					byID[d.idStr()] = d
				}
			}
		}
	}
	for _, r := range w.readers {
		if r.search {
			if r.searchErr != "" {
				fs = append(fs, finding{"search-error", fmt.Sprintf("reader %d (%s): %s", r.idx, r.qs, r.searchErr)})
				continue
			}
			for _, id := range r.result {
				key := fmt.Sprintf("%d.%d", uint64(id.MID), uint64(id.RID))
				d, ok := byID[key]
				switch {
				case !ok:
					fs = append(fs, finding{"search-unknown-id", fmt.Sprintf("reader %d returned %s which no submitted bulk contains", r.idx, key)})
				case d.mid < r.from || d.mid > r.to:
					fs = append(fs, finding{"search-out-of-range", fmt.Sprintf("reader %d returned %s outside [%d,%d]", r.idx, key, r.from, r.to)})
				case !r.q.sat(d) && !r.q.hasNot():
					fs = append(fs, finding{"search-foreign-id", fmt.Sprintf("reader %d, negation-free query %s returned %s with tokens %v", r.idx, r.qs, key, d.toks)})
				case !r.q.sat(d):
					fs = append(fs, finding{"search-result-violates-query", fmt.Sprintf("reader %d, query %s returned %s with tokens %v", r.idx, r.qs, key, d.toks)})
				}
			}
			continue
		}
		for i, out := range r.fetched {
			d := r.ids[i]
			switch out {
			case "P":
				if r.kind == 2 { // an id the sealed fraction does not hold: the sealed lookup is C04's subject, not reported here
					inSealed := false
					for _, b := range w.bulks {
						for _, x := range b.docs {
							inSealed = inSealed || (b.indexed && x.idStr() == d.idStr())
						}
					}
					if !inSealed {
						w.notes = append(w.notes, "fetch of an absent id failed on a sealed provider (C04)")
						continue
					}
				}
				fs = append(fs, finding{"fetch-error-unpublished-block", fmt.Sprintf("reader %d: fetch of %s failed (provider kind %d)", r.idx, d.idStr(), r.kind)})
			case "N":
				// must be found when its AppendIDs preceded the provider and the provider is of the active fraction
				for k, b := range w.bulks {
					if r.kind == 1 && r.acquiredAfter[k] && b.kept == len(b.docs) {
						for _, x := range b.docs {
							if x.idStr() == d.idStr() {
								fs = append(fs, finding{"fetch-miss", fmt.Sprintf("reader %d: %s indexed before the provider was created but not found", r.idx, d.idStr())})
							}
						}
					}
				}
			}
		}
		for _, bad := range r.fetchBad {
			fs = append(fs, finding{"fetch-wrong-bytes", fmt.Sprintf("reader %d: %s", r.idx, bad)})
		}
	}
	if len(o.stuck) > 0 {
		hasErr := false
		for _, l := range w.pf {
			if l == "ae" {
				hasErr = true
			}
		}
		switch {
		case hasErr && o.hangOK:
			fs = append(fs, finding{"seal-hangs-after-write-error", fmt.Sprintf("threads %v can never finish: indexWg was incremented for an Append whose write failed and is never decremented", o.stuck)})
		default:
			fs = append(fs, finding{"deadlock", fmt.Sprintf("threads %v can never finish", o.stuck)})
		}
	}
	// no lost append: once sealed (and not suicided) every acknowledged document is there, byte for byte
	if w.sealed != nil && !frac.VerifC07SealedSuicided(w.sealed) && len(o.stuck) == 0 {
		act, sld, _ := w.p.State()
		if act == nil && sld != nil {
			var ids []seq.ID
			var want []doc
			seen := map[string]bool{}
			for _, b := range w.bulks {
				if !b.acked {
					continue
				}
				for _, d := range b.docs {
					if !seen[d.idStr()] {
						seen[d.idStr()] = true
						ids = append(ids, d.id())
						want = append(want, byID[d.idStr()])
					}
				}
			}
			if len(ids) > 0 {
				dp, release := w.p.DataProvider(ctxBg)
				docs, err := dp.Fetch(ids)
				release()
				if err != nil {
					fs = append(fs, finding{"lost-append", "fetch from the sealed fraction failed: " + err.Error()})
				} else {
					for i := range ids {
						if i >= len(docs) || string(docs[i]) != string(want[i].body) {
							fs = append(fs, finding{"lost-append", fmt.Sprintf("acknowledged document %s is not in the sealed fraction", want[i].idStr())})
							break
						}
					}
				}
			}
		}
	}
	return fs
}

// ---------------------------------------------------------------- scenario library and generator

func fullIdx(k int, nq int) []string { // index worker of bulk k from aidx.start to the end: block pos ids toks queue*nq stats done release
	var ops []string
	for i := 0; i < 5+nq+2; i++ {
		ops = append(ops, fmt.Sprintf("go:idx%d", k))
	}
	return ops
}

func scripted() []scenario {
	d := func(k, j int, mid, rid uint64, toks ...int) doc { return mkDoc(k, j, mid, rid, toks) }
	var res []scenario
	app := func(k int) []string { return []string{fmt.Sprintf("app:%d", k), fmt.Sprintf("go:app%d", k), fmt.Sprintf("go:app%d", k)} }
	cat := func(xs ...[]string) []string {
		var r []string
		for _, x := range xs {
			r = append(r, x...)
		}
		return r
	}
	g := func(n string, times int) []string {
		var r []string
		for i := 0; i < times; i++ {
			r = append(r, "go:"+n)
		}
		return r
	}
	// the Lean witness c07_reader_unsound_not: mapping snapshot between the `_all_` queue call and the token's
	res = append(res, scenario{"witness-not", 2, [][]doc{{d(0, 0, 1, 1, 5)}, {d(1, 0, 1, 2, 5)}},
		cat(app(0), fullIdx(0, 2), app(1), g("idx1", 6), []string{"srch:N.T5:0:10"}, g("rdr0", 7), []string{"drain"})})
	// the Lean witness c07_reader_unsound_dict: bulk 0 has created token 5 but not registered it; bulk 1 is completely indexed
	res = append(res, scenario{"witness-dict", 2, [][]doc{{d(0, 0, 1, 1, 5)}, {d(1, 0, 1, 2, 5)}},
		cat(app(0), g("idx0", 4), app(1), fullIdx(1, 2), []string{"srch:N.T5:0:10", "drain"})})
	// a reader stopped in front of a leaf's dictionary read while a bulk registers a NEW token of the same field
	// (getTokenProvider must take the per-field TID list before the tidToVal slice)
	res = append(res, scenario{"dict-read-order", 2, [][]doc{{d(0, 0, 1, 1, 5)}, {d(1, 0, 2, 1, 6, 7)}},
		cat(app(0), fullIdx(0, 2), []string{"srch:O.T5.T6:0:10"}, g("rdr0", 5), app(1), g("idx1", 6), g("rdr0", 2), g("idx1", 2), []string{"drain"})})
	// a positive search that overlaps a bulk whose token lists are queued but whose `_all_` is not: the new LID must be
	// skipped by inverseLIDs (its slot of the pooled inverser array is 0) - with residue in the recycled pool buffers
	res = append(res, scenario{"overlap-inverser", 2, [][]doc{{d(0, 0, 9, 1, 5), d(0, 1, 3, 1, 6)}, {d(1, 0, 4, 1, 7)}},
		cat(app(0), fullIdx(0, 3), app(1), g("idx1", 6), []string{"srch:T7:0:10", "srch:O.T7.T6:0:10"}, g("rdr0", 8), g("rdr1", 10), []string{"drain"})})
	// the Lean witness c07_fetch_panic_witness: provider created, then a bulk adds a block and its positions
	res = append(res, scenario{"witness-fetch", 2, [][]doc{{d(0, 0, 1, 1, 5)}, {d(1, 0, 1, 2, 5)}},
		cat(app(0), fullIdx(0, 2), []string{"fetch:1.0+0.0"}, g("rdr0", 1), app(1), g("idx1", 2), g("rdr0", 3), []string{"drain"})})
	// the Lean witness c07_write_error_witness
	res = append(res, scenario{"witness-write-error", 2, [][]doc{{d(0, 0, 1, 1, 5)}, {d(1, 0, 2, 1, 6)}},
		cat(app(0), fullIdx(0, 2), []string{"app:1", "go:app1", "fault", "go:app1", "seal", "go:seal", "drain"})})
	// life cycle: readers across publish, suicide waiting for the sealer
	res = append(res, scenario{"lifecycle", 2, [][]doc{{d(0, 0, 3, 1, 5, 6), d(0, 1, 4, 1, 6)}, {d(1, 0, 3, 2, 5)}},
		cat(app(0), fullIdx(0, 3), app(1), []string{"srch:A.T6.T5:0:10"}, g("rdr0", 1), g("idx1", 3), []string{"seal", "go:seal", "su", "go:su"},
			g("rdr0", 3), fullIdx(1, 2)[3:], g("seal", 3), []string{"srch:T5:0:10", "go:rdr1"}, g("seal", 1), []string{"drain"})})
	// a re-delivered bulk (same ids, same bytes) and a partly duplicate one
	res = append(res, scenario{"redeliver", 3, [][]doc{{d(0, 0, 3, 1, 5), d(0, 1, 4, 1, 6)}, {d(1, 0, 3, 1, 5), d(1, 1, 4, 1, 6)}, {d(2, 0, 4, 1, 6), d(2, 1, 5, 1, 7)}},
		cat(app(0), app(1), g("idx0", 3), g("idx1", 3), []string{"srch:O.T5.T7:0:10"}, g("rdr0", 2), app(2), []string{"drain", "seal", "drain"})})
	// suicide of a sealed fraction while a reader holds it
	res = append(res, scenario{"suicide-sealed", 1, [][]doc{{d(0, 0, 3, 1, 5)}},
		cat(app(0), []string{"drain", "seal", "drain", "srch:T5:0:10", "go:rdr0", "su", "go:su", "drain"})})
	// suicide of an idle writable fraction, then append and seal attempts
	res = append(res, scenario{"suicide-active", 1, [][]doc{{d(0, 0, 3, 1, 5)}, {d(1, 0, 3, 2, 5)}},
		cat(app(0), []string{"drain", "su", "drain", "app:1", "go:app1", "seal", "go:seal", "srch:T5:0:10", "drain"})})
	return res
}

// genScenario drives a world with seeded random choices among the actions that are possible at each moment and
// returns the ops it executed (so that the run can be replayed verbatim).
func genScenario(root string, rng *vh.RNG, name string) (scenario, outcome) {
	nb := rng.Range(2, 5)
	workers := rng.Range(1, 3)
	ntok := rng.Range(2, 4)
	var bulks [][]doc
	var all []doc
	for k := 0; k < nb; k++ {
		var ds []doc
		n := rng.Range(1, 3)
		for j := 0; j < n; j++ {
			if len(all) > 0 && rng.Chance(1, 8) { // re-delivery
				o := all[rng.Intn(len(all))]
				dd := o
				ds = append(ds, dd)
				continue
			}
			var toks []int
			for t := 0; t < ntok; t++ {
				if rng.Chance(1, 2) {
					toks = append(toks, t)
				}
			}
			dd := mkDoc(k, j, uint64(rng.Range(1, 6)), uint64(100*k+j+1), toks)
			ds = append(ds, dd)
			all = append(all, dd)
		}
		bulks = append(bulks, ds)
	}
	sc := scenario{name: name, workers: workers, bulks: bulks}
	w, err := newWorld(root, workers, bulks)
	if err != nil {
		return sc, outcome{err: err}
	}
	o := outcome{w: w}
	nextBulk, nReaders := 0, 0
	announce(sc)
	doOp := func(op string) bool {
		sc.ops = append(sc.ops, op)
		fmt.Println("OP " + op)
		if err := w.apply(op, sc); err != nil {
			o.err = fmt.Errorf("op %s: %w", op, err)
			return false
		}
		return true
	}
	queries := []string{"T0", "T1", "N.T0", "N.T1", "A.T0.T1", "O.T0.T1", "A.T0.N.T1", "O.N.T0.T1"}
	for stepNo := 0; stepNo < 400; stepNo++ {
		en, _ := w.liveThreads()
		type act struct {
			op string
			wt int
		}
		var acts []act
		for _, n := range en {
			wt := 6
			if w.threads[n].kind == "idx" {
				wt = 8
			}
			acts = append(acts, act{"go:" + n, wt})
		}
		_, sld, ro := w.p.State()
		if nextBulk < nb {
			acts = append(acts, act{fmt.Sprintf("app:%d", nextBulk), 5})
		}
		anyAcked := false
		for _, b := range w.bulks {
			anyAcked = anyAcked || b.acked
		}
		if !w.sealStarted && anyAcked && (nextBulk == nb || rng.Chance(1, 6)) { // frac.Seal refuses an empty fraction (FracManager never seals one)
			acts = append(acts, act{"seal", 3})
		}
		if !w.suStarted && w.sealStarted && rng.Chance(1, 3) {
			acts = append(acts, act{"su", 1})
		}
		if nReaders < 6 {
			acts = append(acts, act{"rdr", 3})
		}
		_ = sld
		_ = ro
		if len(acts) == 0 {
			break
		}
		total := 0
		for _, a := range acts {
			total += a.wt
		}
		x := rng.Intn(total)
		var ch act
		for _, a := range acts {
			if x < a.wt {
				ch = a
				break
			}
			x -= a.wt
		}
		switch {
		case strings.HasPrefix(ch.op, "app:"):
			nextBulk++
			if !doOp(ch.op) {
				return sc, o
			}
		case ch.op == "rdr":
			nReaders++
			if rng.Chance(3, 5) {
				lo, hi := 0, 10
				if rng.Chance(1, 3) {
					lo, hi = rng.Range(1, 3), rng.Range(3, 6)
				}
				if !doOp(fmt.Sprintf("srch:%s:%d:%d", queries[rng.Intn(len(queries))], lo, hi)) {
					return sc, o
				}
			} else {
				var ids []string
				for i := 0; i < rng.Range(1, 3); i++ {
					k := rng.Intn(nb)
					ids = append(ids, fmt.Sprintf("%d.%d", k, rng.Intn(len(bulks[k]))))
				}
				if !doOp("fetch:" + strings.Join(ids, "+")) {
					return sc, o
				}
			}
		default:
			if !doOp(ch.op) {
				return sc, o
			}
		}
		if nextBulk == nb && w.sealStarted {
			if en, _ := w.liveThreads(); len(en) == 0 {
				break
			}
		}
	}
	if !doOp("drain") {
		return sc, o
	}
	_, o.stuck = w.liveThreads()
	return sc, o
}

// ---------------------------------------------------------------- main

// scResult is what the scenario child reports for one scenario (one "END" line).
type scResult struct {
	Name    string    `json:"name"`
	Line    string    `json:"line"`
	Workers int       `json:"workers"`
	Err     string    `json:"err"`
	PF      string    `json:"pf"`
	PFImpl  string    `json:"pf_impl"`
	PFNT    bool      `json:"pf_nt"`
	AC      string    `json:"ac"`
	ACImpl  string    `json:"ac_impl"`
	ACNT    bool      `json:"ac_nt"`
	Finds   []finding `json:"finds"`
	Notes   []string  `json:"notes"`
}

func summarize(sc scenario, out outcome) scResult {
	r := scResult{Name: sc.name, Line: sc.String(), Workers: sc.workers}
	if out.w != nil {
		defer out.w.close()
	}
	if out.err != nil {
		r.Err = out.err.Error()
		return r
	}
	w := out.w
	for _, l := range w.pf {
		if l == "sb" || strings.HasPrefix(l, "st") {
			r.PFNT = true
		}
	}
	for i, l := range w.ac {
		if strings.HasPrefix(l, "rn/") {
			for _, m := range w.ac[i:] {
				if strings.HasPrefix(m, "wq/") || strings.HasPrefix(m, "wp/") {
					r.ACNT = true
				}
			}
		}
	}
	r.PF, r.PFImpl = "pfrac "+vh.JoinStrs(w.pf, ","), w.pfImpl()
	if len(w.ac) > 0 {
		r.AC, r.ACImpl = "aconc "+strings.Join(w.ac, "|"), w.acImpl()
	}
	r.Finds = checkProperty(sc, out)
	r.Notes = w.notes
	return r
}

// scenario number i of a run: the scripted ones first, then seeded random ones (each from its own generator state,
// so that a child restarted after a crash continues with the same scenarios)
func scenarioRNG(seed int64, i int) *vh.RNG {
	return vh.NewRNG(int64(vh.NewRNG(seed*1000003+int64(i)).U64() >> 1))
}

func scChild(args []string) {
	fs := flag.NewFlagSet("sc-child", flag.ExitOnError)
	seed := fs.Int64("seed", 1, "")
	from := fs.Int("from", 0, "")
	to := fs.Int("to", 0, "")
	replay := fs.String("replay", "", "")
	fs.BoolVar(&tlLock, "tllock", false, "")
	fs.Parse(args)
	logger.SetLevel(zap.FatalLevel)
	root, err := os.MkdirTemp("", "c07-")
	if err != nil {
		fmt.Fprintln(os.Stderr, err)
		os.Exit(3)
	}
	defer os.RemoveAll(root)
	emit := func(r scResult) {
		b, _ := json.Marshal(r)
		fmt.Println("END " + string(b))
	}
	if *replay != "" {
		lines, err := vh.ReadReplay(*replay)
		if err != nil {
			fmt.Fprintln(os.Stderr, err)
			os.Exit(3)
		}
		n := 0
		for _, l := range lines {
			sc, err := parseScenario(l)
			if err != nil {
				continue
			}
			if n >= *from {
				emit(summarize(sc, runScenario(root, sc)))
			}
			n++
		}
		return
	}
	scr := scripted()
	for i := *from; i < *to; i++ {
		if i < len(scr) {
			emit(summarize(scr[i], runScenario(root, scr[i])))
			continue
		}
		sc, out := genScenario(root, scenarioRNG(*seed, i), fmt.Sprintf("random-%d", i-len(scr)))
		emit(summarize(sc, out))
	}
}

// runChildren runs the scenarios [0,total) (or those of a replay file) in child processes; a child that dies is an
// observation about the scenario it was running, and the rest continues in a new child.
func runChildren(o vh.Opts, total int, handle func(scResult), crashed func(line, what string)) {
	self, _ := os.Executable()
	next := 0
	crashes := 0
	for rounds := 0; (next < total || (o.Replay != "" && rounds == 0)) && crashes < 20; rounds++ {
		// a fresh process every few hundred scenarios: a world leaves file descriptors and parked goroutines behind
		upto := min(next+400, total)
		args := []string{"sc-child", "-seed", fmt.Sprint(o.Seed), "-from", fmt.Sprint(next), "-to", fmt.Sprint(upto), fmt.Sprintf("-tllock=%v", tlLock)}
		if o.Replay != "" {
			args = append(args, "-replay", o.Replay)
		}
		ctx, cancel := context.WithTimeout(context.Background(), 20*time.Minute)
		cmd := exec.CommandContext(ctx, self, args...)
		var stderr strings.Builder
		cmd.Stderr = &stderr
		stdout, _ := cmd.StdoutPipe()
		if err := cmd.Start(); err != nil {
			cancel()
			crashed("", "cannot start the scenario child: "+err.Error())
			return
		}
		sc := bufio.NewScanner(stdout)
		sc.Buffer(make([]byte, 1<<20), 1<<28)
		header, ops, open := "", []string(nil), false
		for sc.Scan() {
			l := sc.Text()
			switch {
			case strings.HasPrefix(l, "BEGIN "):
				header, ops, open = strings.TrimPrefix(l, "BEGIN "), nil, true
			case strings.HasPrefix(l, "OP "):
				ops = append(ops, strings.TrimPrefix(l, "OP "))
			case strings.HasPrefix(l, "END "):
				var r scResult
				if json.Unmarshal([]byte(strings.TrimPrefix(l, "END ")), &r) == nil {
					handle(r)
				}
				open = false
				next++
			}
		}
		err := cmd.Wait()
		cancel()
		if !open {
			if err != nil && next < upto {
				crashed("", "scenario child failed between scenarios: "+err.Error()+" | "+lastLines(stderr.String(), 8))
				return
			}
			if o.Replay != "" {
				return
			}
			continue
		}
		// died inside a scenario
		crashes++
		line := strings.TrimSuffix(header, "ops=") + "ops=" + strings.Join(ops, ",")
		crashed(line, lastLines(stderr.String(), 14))
		next++
		if o.Replay != "" {
			return
		}
	}
}

func main() {
	if len(os.Args) > 1 && os.Args[1] == "race-child" {
		raceChild(os.Args[2:])
		return
	}
	if len(os.Args) > 1 && os.Args[1] == "sc-child" {
		scChild(os.Args[2:])
		return
	}
	o := vh.ParseFlags()
	logger.SetLevel(zap.FatalLevel)
	rep := vh.NewReport("C07", o)

	chPF := vh.NewChannel("pfrac.trace", "real proxyFrac driven through its c07.pf.* points by a seeded scheduler (one thread runs at a time): the logged critical sections must be a path of SV.ProxyFrac.step and the final (active, sealed, readonly, released, suicided, counts) must agree; non-trivial = the run contains a seal or a suicide overlapping appends or readers")
	chAC := vh.NewChannel("aconc.trace", "the same runs seen from the active index: every index-worker and data-provider step with the value the hook saw (block index, ids kept, LIDs queued, |mapping|, |ids|, |token list|) must be a path of SV.ActiveConc.step and the model must predict every search result and fetch outcome; non-trivial = a reader overlaps an unfinished bulk")
	orc := vh.NewOracle("sched.property", "C07 on the scheduled runs (in child processes): returned ids belong to submitted bulks, are in range and satisfy the query; fetches neither fail nor miss an id indexed before the provider; every acknowledged document is in the sealed fraction byte for byte; no thread is left that can never finish; the process does not die; non-trivial = as for the channels")

	if ans, err := vh.AskDriver(o.Driver, []string{"cfg"}); err == nil && len(ans) == 1 {
		tlLock = strings.Contains(ans[0], "tlLock=1")
		rep.Note("code under test as extracted: %s", ans[0])
	}
	seenClass := map[string]bool{}
	handle := func(r scResult) {
		if r.Err != "" {
			if chPF.Error == "" {
				chPF.Error = "scenario " + r.Name + ": " + r.Err + " | " + r.Line
			}
			return
		}
		tags := []string{"scenario=" + strings.SplitN(r.Name, "-", 2)[0], fmt.Sprintf("workers=%d", r.Workers)}
		chPF.Add(r.PF, r.PFImpl, r.PFNT, tags...)
		if r.AC != "" {
			chAC.Add(r.AC, r.ACImpl, r.ACNT, tags...)
		}
		orc.Case(r.Line, r.PFNT || r.ACNT, fmt.Sprintf("findings=%d", len(r.Finds)))
		for _, f := range r.Finds {
			if seenClass[f.Class] {
				continue
			}
			seenClass[f.Class] = true
			rep.Violate(vh.Violation{Site: siteOf(f.Class), Class: f.Class, What: f.What, Replay: []string{r.Line}})
		}
		for _, n := range r.Notes {
			if len(rep.Notes) < 10 {
				rep.Note("%s: %s", r.Name, n)
			}
		}
	}
	crashed := func(line, what string) {
		if line == "" {
			orc.Error = what
			return
		}
		orc.Case(line, true, "crash")
		if !seenClass["crash"] {
			seenClass["crash"] = true
			rep.Violate(vh.Violation{Site: crashSite(what), Class: "process-crash", What: "the process died during the scenario: " + what, Replay: []string{line}})
		}
	}

	if o.Replay != "" {
		lines, err := vh.ReadReplay(o.Replay)
		if err != nil {
			fmt.Fprintln(os.Stderr, err)
			os.Exit(3)
		}
		hasSc := false
		for _, l := range lines {
			if strings.HasPrefix(l, "race ") {
				runRace(rep, o, l)
			} else if strings.HasPrefix(l, "sc ") {
				hasSc = true
			}
		}
		if hasSc {
			runChildren(o, 0, handle, crashed)
		}
	} else {
		runChildren(o, len(scripted())+o.Pick(1000, 20000), handle, crashed)
		runRace(rep, o, "")
	}
	rep.AddChannel(chPF, o.Driver)
	rep.AddChannel(chAC, o.Driver)
	rep.AddOracle(orc)
	rep.Write(o.Out)
}

var repoFrame = regexp.MustCompile(`github\.com/ozontech/seq-db/([a-zA-Z0-9_/]+)\.([^\s(]+)\(`)

// crashSite: the first frame of the repository in the stack of the dying child
func crashSite(stderr string) string {
	for _, m := range repoFrame.FindAllStringSubmatch(stderr, -1) {
		if !strings.HasPrefix(m[1], "logger") && !strings.HasPrefix(m[1], "verifhook") {
			return m[1] + ":" + m[2]
		}
	}
	return "process"
}

func siteOf(class string) string {
	switch class {
	case "search-result-violates-query":
		return "frac/active_token_list.go:Append"
	case "search-error":
		return "frac/active_index.go:Search"
	case "ingest-stuck-after-transient-fsync-error", "ack-after-failed-fsync":
		return "frac/file_writer.go:syncLoop"
	case "invisible-during-seal":
		return "fracmanager/fraction_provider.go:newActiveRef"
	case "fetch-multi-batch":
		return "fracmanager/list.go:FilterInRange"
	case "late-doc-invisible":
		return "frac/info.go:BuildDistribution"
	case "append-error-under-rotation":
		return "fracmanager/fracmanager.go:Append"
	case "sealed-foreign-id", "sealed-missing-id":
		return "frac/sealed_index.go:Search"
	case "fetch-bare-id":
		return "fracmanager/fetcher.go:FetchDocs"
	case "search-foreign-id":
		return "frac/active_index.go:inverseLIDs"
	case "fetch-error-unpublished-block":
		return "frac/active.go:createDataProvider"
	case "seal-hangs-after-write-error":
		return "fracmanager/proxy_frac.go:Append"
	case "lost-append":
		return "fracmanager/proxy_frac.go:Seal"
	}
	return "fracmanager/proxy_frac.go"
}
