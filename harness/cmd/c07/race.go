package main

// Free-running workload against a real FracManager with tiny fractions (many rotations and seals during the run),
// executed in a child process built with -race.  Only schedule-independent facts are asserted:
//   per request : no error; every returned id was submitted before the request ended, satisfies the query, lies in
//                 the requested range; every returned id is fetched at once with exactly its bytes
//   at the end  : (writers idle) every acknowledged document is returned by the queries it satisfies and by no other
// The race detector's reports are turned into violations (class data-race); they validate the atomicity assumption
// of the Lean transition systems and are not presented as proof.

import (
	"bufio"
	"context"
	"crypto/sha1"
	"encoding/json"
	"flag"
	"fmt"
	"os"
	"os/exec"
	"path/filepath"
	"regexp"
	"sort"
	"strings"
	"sync"
	"sync/atomic"
	"time"

	"go.uber.org/zap"

	"github.com/ozontech/seq-db/conf"
	"github.com/ozontech/seq-db/frac"
	"github.com/ozontech/seq-db/frac/processor"
	"github.com/ozontech/seq-db/fracmanager"
	"github.com/ozontech/seq-db/logger"
	"github.com/ozontech/seq-db/mappingprovider"
	pbapi "github.com/ozontech/seq-db/pkg/storeapi"
	"github.com/ozontech/seq-db/seq"
	sapi "github.com/ozontech/seq-db/storeapi"

	"verifharness/internal/vh"
)

type raceOut struct {
	Findings  []finding2 `json:"findings"`
	Searches  int        `json:"searches"`
	Fetches   int        `json:"fetches"`
	Bulks     int        `json:"bulks"`
	Docs      int        `json:"docs"`
	Fractions int        `json:"fractions"`
	Overlaps  int        `json:"overlaps"` // searches that ran while a writer was inside Append
	Final     int        `json:"final_queries"`
}

type finding2 struct {
	Class string `json:"class"`
	What  string `json:"what"`
}

var raceQueries = []string{"T0", "T1", "T2", "A.T0.T1", "O.T1.T2", "N.T0", "A.T1.N.T2", "O.N.T0.T2"}

func raceChild(args []string) {
	fs := flag.NewFlagSet("race-child", flag.ExitOnError)
	seed := fs.Int64("seed", 1, "")
	writers := fs.Int("writers", 4, "")
	searchers := fs.Int("searchers", 4, "")
	bulksPer := fs.Int("bulks", 40, "")
	fracSize := fs.Uint64("fracsize", 3000, "")
	dir := fs.String("dir", "", "")
	inmem := fs.Bool("inmem", false, "")
	fs.String("mode", "", "")
	fs.Parse(args)
	logger.SetLevel(zap.FatalLevel)
	mode := fs.Lookup("mode").Value.String()
	if mode != "" {
		var o raceOut
		switch mode {
		case "rot":
			o = rotChild(*seed, *dir)
		case "fsync":
			o = fsyncChild(*seed, *dir)
		case "bigfetch":
			o = bigFetchChild(*seed, *dir)
		case "late":
			o = lateDocsChild(*seed, *dir)
		case "coldsealed":
			o = coldSealedChild(*seed, *dir)
		case "sealwindow":
			o = sealWindowChild(*seed, *dir)
		default:
			o = sealedPoolChild(*seed, *dir)
		}
		b, _ := json.Marshal(o)
		fmt.Println("RESULT " + string(b))
		return
	}
	if *inmem {
		inmemChild(*seed, *dir, *bulksPer)
		return
	}
	conf.IndexWorkers = 4
	conf.SkipFsync = true
	fm := fracmanager.NewFracManager(&fracmanager.Config{DataDir: *dir, FracSize: *fracSize, TotalSize: 1 << 40, CacheSize: 1 << 26,
		ShouldReplay: false, MaintenanceDelay: 5 * time.Millisecond})
	if err := fm.Load(context.Background()); err != nil {
		fmt.Println(`{"findings":[{"class":"harness","what":"load failed"}]}`)
		return
	}
	fm.Start()
	out := raceOut{}
	var mu sync.Mutex
	submitted := map[seq.ID]doc{}
	acked := map[seq.ID]bool{}
	add := func(class, what string) {
		mu.Lock()
		if len(out.Findings) < 20 {
			out.Findings = append(out.Findings, finding2{class, what})
		}
		mu.Unlock()
	}
	var inAppend atomic.Int32
	var writersLeft atomic.Int32
	writersLeft.Store(int32(*writers))
	searcher := fracmanager.NewSearcher(4, fracmanager.SearcherCfg{})
	fetcher := fracmanager.NewFetcher(4)
	qs := make([]*query, len(raceQueries))
	for i, s := range raceQueries {
		qs[i], _, _ = parseQuery(strings.Split(s, "."))
	}
	var wg sync.WaitGroup
	for wi := 0; wi < *writers; wi++ {
		wg.Add(1)
		go func(wi int) {
			defer wg.Done()
			defer writersLeft.Add(-1)
			rng := vh.NewRNG(*seed*1000 + int64(wi))
			for b := 0; b < *bulksPer; b++ {
				var ds []doc
				n := rng.Range(1, 4)
				for j := 0; j < n; j++ {
					var toks []int
					for t := 0; t < 3; t++ {
						if rng.Chance(1, 2) {
							toks = append(toks, t)
						}
					}
					ds = append(ds, mkDoc(wi*1000+b, j, uint64(1000+b*10+rng.Intn(10)), uint64(wi*1000000+b*100+j+1), toks))
				}
				bk := mkBulk(ds)
				mu.Lock()
				for _, d := range ds {
					submitted[d.id()] = d
				}
				mu.Unlock()
				inAppend.Add(1)
				err := fm.Append(context.Background(), bk.docsB, bk.metaB)
				inAppend.Add(-1)
				if err != nil {
					add("append-error", err.Error())
					continue
				}
				mu.Lock()
				for _, d := range ds {
					acked[d.id()] = true
				}
				out.Bulks++
				out.Docs += len(ds)
				mu.Unlock()
			}
		}(wi)
	}
	// fetch by BARE id (no fraction hint): the id is asked from every fraction whose range contains its MID - with
	// several writers the ranges of neighbouring fractions overlap - and exactly the document must come back
	bareFetch := func(docs []doc, why string) {
		for lo := 0; lo < len(docs); lo += 200 {
			part := docs[lo:min(lo+200, len(docs))]
			bare := make([]seq.IDSource, len(part))
			for i, d := range part {
				bare[i] = seq.IDSource{ID: d.id()}
			}
			bodies, err := fetcher.FetchDocs(context.Background(), fm.GetAllFracs(), bare)
			mu.Lock()
			out.Fetches++
			mu.Unlock()
			if err != nil {
				add("fetch-error", fmt.Sprintf("fetch by bare id (%s): %v", why, err))
				return
			}
			for i, d := range part {
				if i >= len(bodies) || string(bodies[i]) != string(d.body) {
					n := 0
					for _, f := range fm.GetAllFracs() {
						if f.Contains(seq.MID(d.mid)) {
							n++
						}
					}
					add("fetch-bare-id", fmt.Sprintf("id %s (%s) fetched without a hint came back empty or with foreign bytes; %d fractions cover its MID", d.idStr(), why, n))
					return
				}
			}
		}
	}
	check := func(rng *vh.RNG, final bool) {
		qi := rng.Intn(len(qs))
		q := qs[qi]
		from, to := uint64(0), uint64(1<<40)
		if !final && rng.Chance(1, 3) {
			from, to = uint64(1000+rng.Intn(200)), uint64(1200+rng.Intn(300))
		}
		ast, _ := q.ast()
		params := processor.SearchParams{AST: ast, From: seq.MID(from), To: seq.MID(to), Limit: 1 << 20, Order: seq.DocsOrderDesc}
		overl := inAppend.Load() > 0
		var want map[seq.ID]bool
		if final {
			want = map[seq.ID]bool{}
			mu.Lock()
			for id := range acked {
				if d := submitted[id]; q.sat(d) {
					want[id] = true
				}
			}
			mu.Unlock()
		}
		if !final {
			dirtyPool()
		}
		qpr, err := searcher.SearchDocs(context.Background(), fm.GetAllFracs(), params)
		if err != nil {
			add("search-error", fmt.Sprintf("query %s: %v", raceQueries[qi], err))
			return
		}
		mu.Lock()
		out.Searches++
		if overl {
			out.Overlaps++
		}
		mu.Unlock()
		got := map[seq.ID]bool{}
		var ids []seq.IDSource
		var docs []doc
		for _, x := range qpr.IDs {
			mu.Lock()
			d, ok := submitted[x.ID]
			mu.Unlock()
			switch {
			case !ok:
				add("search-unknown-id", fmt.Sprintf("query %s returned %v", raceQueries[qi], x.ID))
			case d.mid < from || d.mid > to:
				add("search-out-of-range", fmt.Sprintf("query %s [%d,%d] returned %s", raceQueries[qi], from, to, d.idStr()))
			case !q.sat(d) && !q.hasNot():
				add("search-foreign-id", fmt.Sprintf("negation-free query %s returned %s with tokens %v", raceQueries[qi], d.idStr(), d.toks))
			case !q.sat(d):
				add("search-result-violates-query", fmt.Sprintf("query %s returned %s with tokens %v", raceQueries[qi], d.idStr(), d.toks))
			default:
				if !got[x.ID] {
					ids = append(ids, x)
					docs = append(docs, d)
				}
			}
			got[x.ID] = true
		}
		if final {
			for id := range want {
				if !got[id] {
					add("quiescent-missing", fmt.Sprintf("query %s: acknowledged %v not returned after the writers went idle", raceQueries[qi], id))
					break
				}
			}
			for id := range got {
				if !want[id] {
					add("quiescent-extra", fmt.Sprintf("query %s: %v returned but not expected", raceQueries[qi], id))
					break
				}
			}
		}
		if len(ids) == 0 {
			return
		}
		if len(ids) > 64 {
			ids, docs = ids[:64], docs[:64]
		}
		bodies, err := fetcher.FetchDocs(context.Background(), fm.GetAllFracs(), ids)
		mu.Lock()
		out.Fetches++
		mu.Unlock()
		if err != nil {
			add("fetch-error", fmt.Sprintf("fetch of ids returned by query %s: %v", raceQueries[qi], err))
			return
		}
		for i := range ids {
			if i >= len(bodies) || string(bodies[i]) != string(docs[i].body) {
				add("fetch-after-search", fmt.Sprintf("id %s returned by a search could not be fetched with its bytes", docs[i].idStr()))
				break
			}
		}
		bareFetch(docs, "returned by a search")
	}
	var swg sync.WaitGroup
	for si := 0; si < *searchers; si++ {
		swg.Add(1)
		go func(si int) {
			defer swg.Done()
			defer func() {
				if p := recover(); p != nil {
					add("panic", fmt.Sprint(p))
				}
			}()
			rng := vh.NewRNG(*seed*7777 + int64(si))
			for writersLeft.Load() > 0 {
				check(rng, false)
			}
		}(si)
	}
	wg.Wait()
	swg.Wait()
	fm.WaitIdle()
	// WaitIdle only covers the fraction being written; older ones may still have index tasks queued (their sealer waits
	// for them).  Quiescent = every acknowledged document is counted in some fraction's Info.
	deadline := time.Now().Add(60 * time.Second)
	for time.Now().Before(deadline) {
		total := 0
		for _, f := range fm.GetAllFracs() {
			total += int(f.Info().DocsTotal)
		}
		mu.Lock()
		want := len(acked)
		mu.Unlock()
		if total >= want {
			break
		}
		time.Sleep(5 * time.Millisecond)
	}
	rng := vh.NewRNG(*seed)
	for i := 0; i < 3*len(qs); i++ { // while the last seals are still running, and after
		check(rng, true)
		out.Final++
		if i == len(qs) {
			time.Sleep(50 * time.Millisecond)
		}
	}
	{ // every acknowledged document, by bare id, once the writers are idle
		mu.Lock()
		var ackedDocs []doc
		for id := range acked {
			ackedDocs = append(ackedDocs, submitted[id])
		}
		mu.Unlock()
		sort.Slice(ackedDocs, func(i, j int) bool { return ackedDocs[i].rid < ackedDocs[j].rid })
		bareFetch(ackedDocs, "acknowledged, writers idle")
	}
	out.Fractions = len(fm.GetAllFracs())
	fm.Stop()
	b, _ := json.Marshal(out)
	fmt.Println("RESULT " + string(b))
	_ = frac.Info{}
}

// inmemChild: the write path of single mode - the in-memory store client, called the way the bulk ingestor calls it:
// Bulk returns, the caller's pooled buffer is reused for the next request's metas.  One index worker and a big first
// bulk keep later bulks waiting in the indexer queue.  Then the quiescent comparison.
func inmemChild(seed int64, dir string, nbulks int) {
	conf.IndexWorkers = 1
	conf.SkipFsync = true
	out := raceOut{}
	add := func(class, what string) {
		if len(out.Findings) < 20 {
			out.Findings = append(out.Findings, finding2{class, what})
		}
	}
	done := func() {
		b, _ := json.Marshal(out)
		fmt.Println("RESULT " + string(b))
	}
	fm := fracmanager.NewFracManager(&fracmanager.Config{DataDir: dir, FracSize: 1 << 30, TotalSize: 1 << 40, CacheSize: 1 << 26,
		ShouldReplay: false, MaintenanceDelay: time.Hour})
	if err := fm.Load(context.Background()); err != nil {
		add("harness", "load failed")
		done()
		return
	}
	fm.Start()
	mp, err := mappingprovider.New("", mappingprovider.WithMapping(seq.TestMapping))
	if err != nil {
		add("harness", err.Error())
		done()
		return
	}
	client := sapi.VerifC07InMemoryClient(fm, mp, filepath.Join(dir, "async"))
	rng := vh.NewRNG(seed)
	var all []doc
	var bulks []*bulk
	mk := func(k, n int) {
		var ds []doc
		for j := 0; j < n; j++ {
			var toks []int
			for t := 0; t < 3; t++ {
				if rng.Chance(1, 2) {
					toks = append(toks, t)
				}
			}
			ds = append(ds, mkDoc(k, j, uint64(1000+k), uint64(k*100000+j+1), toks))
		}
		bulks = append(bulks, mkBulk(ds))
		all = append(all, ds...)
	}
	mk(0, 30000) // keeps the only index worker busy
	for k := 1; k <= nbulks; k++ {
		mk(k, rng.Range(1, 40))
	}
	maxLen := 0
	for _, b := range bulks {
		maxLen = max(maxLen, len(b.metaB))
	}
	buf := make([]byte, maxLen) // the caller's reusable buffer (the ingestor's pooled compressor)
	for _, b := range bulks {
		m := buf[:len(b.metaB)]
		copy(m, b.metaB)
		if _, err := client.Bulk(context.Background(), &pbapi.BulkRequest{Count: int64(len(b.docs)), Docs: b.docsB, Metas: m}); err != nil {
			add("append-error", err.Error())
		}
		out.Bulks++
	}
	out.Docs = len(all)
	deadline := time.Now().Add(20 * time.Second)
	for time.Now().Before(deadline) {
		total := 0
		for _, f := range fm.GetAllFracs() {
			total += int(f.Info().DocsTotal)
		}
		if total >= len(all) {
			break
		}
		time.Sleep(5 * time.Millisecond)
	}
	searcher := fracmanager.NewSearcher(4, fracmanager.SearcherCfg{})
	fetcher := fracmanager.NewFetcher(4)
	byID := map[seq.ID]doc{}
	for _, d := range all {
		byID[d.id()] = d
	}
	for _, qs := range []string{"T0", "T1", "N.T2", "A.T0.N.T1"} {
		q, _, _ := parseQuery(strings.Split(qs, "."))
		ast, _ := q.ast()
		qpr, err := searcher.SearchDocs(context.Background(), fm.GetAllFracs(), processor.SearchParams{AST: ast, From: 0, To: 1 << 40, Limit: 1 << 22, Order: seq.DocsOrderDesc})
		out.Final++
		if err != nil {
			add("search-error", fmt.Sprintf("query %s: %v", qs, err))
			continue
		}
		got := map[seq.ID]bool{}
		var ids []seq.IDSource
		for _, x := range qpr.IDs {
			d, ok := byID[x.ID]
			switch {
			case !ok:
				add("search-unknown-id", fmt.Sprintf("query %s returned %v", qs, x.ID))
			case !q.sat(d):
				add("quiescent-extra", fmt.Sprintf("query %s returned %s with tokens %v", qs, d.idStr(), d.toks))
			default:
				if !got[x.ID] && len(ids) < 256 {
					ids = append(ids, x)
				}
			}
			got[x.ID] = true
		}
		for _, d := range all {
			if q.sat(d) && !got[d.id()] {
				add("quiescent-missing", fmt.Sprintf("query %s: acknowledged %s (bulk sent through the in-memory client) not returned after the writers went idle", qs, d.idStr()))
				break
			}
		}
		if len(ids) > 0 {
			bodies, err := fetcher.FetchDocs(context.Background(), fm.GetAllFracs(), ids)
			out.Fetches++
			if err != nil {
				add("fetch-error", fmt.Sprintf("fetch of ids returned by query %s: %v", qs, err))
				continue
			}
			for i := range ids {
				if i >= len(bodies) || string(bodies[i]) != string(byID[ids[i].ID].body) {
					add("fetch-after-search", fmt.Sprintf("id %s returned by a search could not be fetched with its bytes", byID[ids[i].ID].idStr()))
					break
				}
			}
		}
	}
	out.Fractions = len(fm.GetAllFracs())
	fm.Stop()
	done()
}

var raceFrame = regexp.MustCompile(`(?m)^\s+(github\.com/ozontech/seq-db/\S+)\(\)$`)

func runRace(rep *vh.Report, o vh.Opts, replayLine string) {
	orc := vh.NewOracle("race.workload", "child built with -race: N writers (fm.Append), M searcher/fetcher goroutines and the maintenance loop (rotate -> seal -> release) on fractions of a few KiB; per-request assertions (known id, in range, satisfies query, fetched at once byte for byte), final quiescent comparison with the reference filter; non-trivial = a search that ran while a writer was inside Append")
	defer rep.AddOracle(orc)
	root := os.Getenv("VERIF_ROOT")
	if root == "" {
		root = "/verif"
	}
	repo := os.Getenv("VERIF_REPO")
	if repo == "" {
		repo = "/repo"
	}
	bin := filepath.Join(root, "bin", "vh-c07-race")
	build := []string{"build"}
	if abs, _ := filepath.Abs(repo); abs != "/repo" {
		tag := fmt.Sprintf("%x", sha1.Sum([]byte(abs)))[:8]
		build = append(build, "-modfile="+filepath.Join(root, "harness", ".alt-"+tag+".mod"))
		bin += "-" + tag
	}
	build = append(build, "-race", "-tags", "verif", "-o", bin, "./cmd/c07")
	cmd := exec.Command("go", build...)
	cmd.Dir = filepath.Join(root, "harness")
	if outb, err := cmd.CombinedOutput(); err != nil {
		orc.Error = "cannot build the -race child: " + err.Error() + ": " + lastLines(string(outb), 5)
		return
	}
	type cfg struct {
		seed, writers, searchers, bulks, fracsize int
		inmem                                     bool
		mode                                      string
	}
	var cfgs []cfg
	if replayLine != "" {
		var c cfg
		if f := strings.Fields(replayLine); len(f) == 3 && strings.HasPrefix(f[2], "seed=") && f[1] != "inmem" {
			c.mode = strings.Fields(replayLine)[1]
			fmt.Sscanf(strings.Fields(replayLine)[2], "seed=%d", &c.seed)
		} else if strings.HasPrefix(replayLine, "race inmem ") {
			fmt.Sscanf(replayLine, "race inmem seed=%d bulks=%d", &c.seed, &c.bulks)
			c.inmem = true
		} else {
			fmt.Sscanf(replayLine, "race seed=%d writers=%d searchers=%d bulks=%d fracsize=%d", &c.seed, &c.writers, &c.searchers, &c.bulks, &c.fracsize)
		}
		cfgs = append(cfgs, c)
	} else {
		n := o.Pick(4, 16)
		for i := 0; i < n; i++ {
			cfgs = append(cfgs, cfg{seed: int(o.Seed)*100 + i, writers: 2 + i%4, searchers: 2 + (i/2)%4, bulks: o.Pick(150, 400), fracsize: []int{600, 1500, 4000}[i%3]})
		}
		for i := 0; i < o.Pick(1, 4); i++ { // directed: append across a rotation; sealed providers after a failed search
			cfgs = append(cfgs, cfg{seed: int(o.Seed)*100 + i, mode: "rot"}, cfg{seed: int(o.Seed)*100 + i, mode: "sealedpool"},
				cfg{seed: int(o.Seed)*100 + i, mode: "fsync"}, cfg{seed: int(o.Seed)*100 + i, mode: "bigfetch"}, cfg{seed: int(o.Seed)*100 + i, mode: "late"},
				cfg{seed: int(o.Seed)*100 + i, mode: "coldsealed"}, cfg{seed: int(o.Seed)*100 + i, mode: "sealwindow"})
		}
		for i := 0; i < o.Pick(1, 3); i++ { // the single-mode write path (in-memory store client, reused metas buffer)
			cfgs = append(cfgs, cfg{seed: int(o.Seed)*100 + i, bulks: o.Pick(60, 200), inmem: true})
		}
	}
	seenRace := map[string]bool{}
	for _, c := range cfgs {
		line := fmt.Sprintf("race seed=%d writers=%d searchers=%d bulks=%d fracsize=%d", c.seed, c.writers, c.searchers, c.bulks, c.fracsize)
		if c.inmem {
			line = fmt.Sprintf("race inmem seed=%d bulks=%d", c.seed, c.bulks)
		}
		if c.mode != "" {
			line = fmt.Sprintf("race %s seed=%d", c.mode, c.seed)
		}
		dir, _ := os.MkdirTemp("", "c07-race-")
		ctx, cancel := context.WithTimeout(context.Background(), 240*time.Second)
		ch := exec.CommandContext(ctx, bin, "race-child", "-seed", fmt.Sprint(c.seed), "-writers", fmt.Sprint(c.writers), "-searchers", fmt.Sprint(c.searchers),
			"-bulks", fmt.Sprint(c.bulks), "-fracsize", fmt.Sprint(c.fracsize), "-dir", dir, fmt.Sprintf("-inmem=%v", c.inmem), "-mode", c.mode)
		ch.Env = append(os.Environ(), "GORACE=halt_on_error=0 exitcode=66")
		var stderr strings.Builder
		ch.Stderr = &stderr
		stdout, err := ch.Output()
		cancel()
		os.RemoveAll(dir)
		var res raceOut
		gotResult := false
		sc := bufio.NewScanner(strings.NewReader(string(stdout)))
		sc.Buffer(make([]byte, 1<<20), 1<<26)
		for sc.Scan() {
			if strings.HasPrefix(sc.Text(), "RESULT ") {
				gotResult = json.Unmarshal([]byte(strings.TrimPrefix(sc.Text(), "RESULT ")), &res) == nil
			}
		}
		if c.mode != "" {
			orc.Case(line, res.Searches > 0 || res.Bulks > 0 || res.Fetches > 0, "directed="+c.mode)
		} else if c.inmem {
			orc.Case(line, res.Bulks > 1, "path=in-memory-client")
		} else {
			orc.Case(line, res.Overlaps > 0, fmt.Sprintf("writers=%d", c.writers), fmt.Sprintf("searchers=%d", c.searchers))
		}
		orc.Distribution["searches"] += res.Searches
		orc.Distribution["searches.during.append"] += res.Overlaps
		orc.Distribution["fetches"] += res.Fetches
		orc.Distribution["bulks"] += res.Bulks
		orc.Distribution["fractions"] += res.Fractions
		orc.Distribution["final.queries"] += res.Final
		se := stderr.String()
		if strings.Contains(se, "WARNING: DATA RACE") {
			for _, blk := range strings.Split(se, "WARNING: DATA RACE")[1:] {
				var frames []string
				for _, m := range raceFrame.FindAllStringSubmatch(blk, -1) {
					f := strings.TrimPrefix(m[1], "github.com/ozontech/seq-db/")
					if !strings.HasPrefix(f, "verifhook") && len(frames) < 4 {
						frames = append(frames, f)
					}
				}
				sort.Strings(frames[:min(2, len(frames))])
				key := strings.Join(frames[:min(2, len(frames))], " / ")
				if key == "" || seenRace[key] {
					continue
				}
				seenRace[key] = true
				rep.Violate(vh.Violation{Site: frames[0], Class: "data-race", What: "race detector: " + key + " | " + firstLines(blk, 12), Replay: []string{line}})
			}
		}
		if !gotResult {
			what := "child died without a result"
			if err != nil {
				what += ": " + err.Error()
			}
			site := "fracmanager/fracmanager.go"
			if c.inmem {
				site = "storeapi/client.go:Bulk"
			}
			rep.Violate(vh.Violation{Site: site, Class: "workload-crash", What: what + " | " + lastLines(se, 15), Replay: []string{line}})
			continue
		}
		seen := map[string]bool{}
		for _, f := range res.Findings {
			if seen[f.Class] {
				continue
			}
			seen[f.Class] = true
			site := siteOf(f.Class)
			if c.inmem && site == "fracmanager/proxy_frac.go" {
				site = "storeapi/client.go:Bulk"
			}
			rep.Violate(vh.Violation{Site: site, Class: f.Class, What: "workload: " + f.What, Replay: []string{line}})
		}
	}
}

func lastLines(s string, n int) string {
	l := strings.Split(strings.TrimSpace(s), "\n")
	if len(l) > n {
		l = l[len(l)-n:]
	}
	return strings.Join(l, " ¦ ")
}

func firstLines(s string, n int) string {
	l := strings.Split(strings.TrimSpace(s), "\n")
	if len(l) > n {
		l = l[:n]
	}
	return strings.Join(l, " ¦ ")
}
