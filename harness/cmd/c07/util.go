package main

import (
	"context"
	"time"
)

var ctxBg = context.Background()

// returnsWithin runs f on its own goroutine and reports whether it came back within the given number of seconds.
// Used only when every other thread of the scenario is finished or parked for good, so nothing can change the answer.
func returnsWithin(f func(), seconds int) bool {
	done := make(chan struct{})
	go func() { f(); close(done) }()
	select {
	case <-done:
		return true
	case <-time.After(time.Duration(seconds) * time.Second):
		return false
	}
}
