package main

import (
	"context"
	"encoding/binary"
	"time"

	"github.com/ozontech/seq-db/bytespool"
)

// dirtyPool leaves recycled buffers full of non-zero residue in the small size classes of the global bytes pool, as
// earlier searches, rotations and meta blocks do in a running store: every 8-byte word reads as the int 1 (a valid
// sorted position of any non-empty fraction).  Code that takes a pooled buffer must not assume it is zeroed.
func dirtyPool() {
	for k := 0; k < 9; k++ { // 256 B .. 64 KiB
		var bufs []*bytespool.Buffer
		for n := 0; n < 6; n++ {
			b := bytespool.AcquireLen(256 << k)
			b.B = b.B[:cap(b.B)]
			for i := 0; i+8 <= len(b.B); i += 8 {
				binary.LittleEndian.PutUint64(b.B[i:], 1)
			}
			bufs = append(bufs, b)
		}
		for _, b := range bufs {
			bytespool.Release(b)
		}
	}
}

var ctxBg = context.Background()

// returnsWithin runs f on its own goroutine and reports whether it came back within the given number of seconds.
// Used only when every other thread of the scenario is finished or parked for good, so nothing can change the answer.
func returnsWithin(f func(), seconds int) bool {
	done := make(chan struct{})
	go func() { f(); close(done) }()
	select {
	case <-done:
		return true
	case <-time.After(time.Duration(seconds) * time.Second):
		return false
	}
}
