package main

// A world = one real proxyFrac (Active -> Sealed) with real index workers, driven step by step through the
// scheduler.  It records the pfrac / aconc label traces for the Lean driver and checks the property itself on the
// real answers (oracle).

import (
	"context"
	"fmt"
	"os"
	"path/filepath"
	"sort"
	"strconv"
	"strings"
	"time"

	"github.com/ozontech/seq-db/conf"
	"github.com/ozontech/seq-db/disk"
	"github.com/ozontech/seq-db/frac"
	"github.com/ozontech/seq-db/frac/processor"
	"github.com/ozontech/seq-db/fracmanager"
	"github.com/ozontech/seq-db/parser"
	"github.com/ozontech/seq-db/seq"
	"github.com/ozontech/seq-db/verifhook"
)

type doc struct {
	mid, rid uint64
	toks     []int
	body     []byte
}

func (d doc) id() seq.ID    { return seq.ID{MID: seq.MID(d.mid), RID: seq.RID(d.rid)} }
func (d doc) idStr() string { return fmt.Sprintf("%d.%d", d.mid, d.rid) }
func (d doc) has(t int) bool {
	for _, x := range d.toks {
		if x == t {
			return true
		}
	}
	return false
}

type bulk struct {
	docs         []doc
	docsB, metaB []byte
	pos          int64 // offset of the docs block in the docs file (identifies the index task)
	started      bool
	acked        bool
	kept         int
	indexed      bool
}

func (b *bulk) spec() string {
	var ds []string
	for _, d := range b.docs {
		var ts []string
		for _, t := range d.toks {
			ts = append(ts, strconv.Itoa(t))
		}
		ds = append(ds, fmt.Sprintf("%d.%d.%s", d.mid, d.rid, strings.Join(ts, "+")))
	}
	return strings.Join(ds, ";")
}

// query in prefix form, "."-separated: T<n> | A q q | O q q | N q
type query struct {
	op   byte // 'T','A','O','N'
	tok  int
	a, b *query
}

func parseQuery(toks []string) (*query, []string, error) {
	if len(toks) == 0 {
		return nil, nil, fmt.Errorf("empty query")
	}
	t, rest := toks[0], toks[1:]
	switch t {
	case "A", "O":
		a, r1, err := parseQuery(rest)
		if err != nil {
			return nil, nil, err
		}
		b, r2, err := parseQuery(r1)
		if err != nil {
			return nil, nil, err
		}
		return &query{op: t[0], a: a, b: b}, r2, nil
	case "N":
		a, r1, err := parseQuery(rest)
		if err != nil {
			return nil, nil, err
		}
		return &query{op: 'N', a: a}, r1, nil
	}
	if strings.HasPrefix(t, "T") {
		n, err := strconv.Atoi(t[1:])
		if err != nil {
			return nil, nil, err
		}
		return &query{op: 'T', tok: n}, rest, nil
	}
	return nil, nil, fmt.Errorf("bad query token %q", t)
}

func (q *query) sat(d doc) bool {
	switch q.op {
	case 'T':
		return d.has(q.tok)
	case 'A':
		return q.a.sat(d) && q.b.sat(d)
	case 'O':
		return q.a.sat(d) || q.b.sat(d)
	}
	return !q.a.sat(d)
}

func (q *query) leaves() []int {
	switch q.op {
	case 'T':
		return []int{q.tok}
	case 'N':
		return q.a.leaves()
	}
	return append(q.a.leaves(), q.b.leaves()...)
}

func (q *query) hasNot() bool {
	switch q.op {
	case 'T':
		return false
	case 'N':
		return true
	}
	return q.a.hasNot() || q.b.hasNot()
}

func (q *query) ast() (*parser.ASTNode, error) {
	switch q.op {
	case 'T':
		r, err := parser.ParseSeqQL(fmt.Sprintf("service:t%d", q.tok), seq.TestMapping)
		if err != nil {
			return nil, err
		}
		return r.Root, nil
	case 'N':
		a, err := q.a.ast()
		if err != nil {
			return nil, err
		}
		return &parser.ASTNode{Value: &parser.Logical{Operator: parser.LogicalNot}, Children: []*parser.ASTNode{a}}, nil
	}
	a, err := q.a.ast()
	if err != nil {
		return nil, err
	}
	b, err := q.b.ast()
	if err != nil {
		return nil, err
	}
	op := parser.LogicalAnd
	if q.op == 'O' {
		op = parser.LogicalOr
	}
	return &parser.ASTNode{Value: &parser.Logical{Operator: op}, Children: []*parser.ASTNode{a, b}}, nil
}

type reader struct {
	idx           int
	t             *thread
	search        bool
	qs            string
	q             *query
	from, to      uint64
	ids           []doc // fetch targets
	kind          int   // 0 empty 1 active 2 sealed
	inAc          bool  // its steps are part of the aconc trace
	leafSeen      int   // query leaves already reported
	fieldsSeen    int   // dictionary reads started (one per leaf)
	result        []seq.ID
	searchErr     string
	fetched       []string     // F N P per id
	fetchBad      []string     // description of wrong bytes
	acquiredAfter map[int]bool // bulks whose AppendIDs had happened when the provider was created
}

type world struct {
	s       *sched
	dir     string
	fm      *fracmanager.FracManager
	p       *fracmanager.VerifC07Proxy
	active0 *frac.Active
	sealed  *frac.Sealed
	workers int
	bulks   []*bulk
	threads map[string]*thread
	order   []string // thread names in creation order
	readers []*reader
	pf      []string
	ac      []string
	acObs   []int64
	acDead  bool // the Active was released / suicided: no more aconc labels
	ops     []string
	// mirror of the counters that decide whether a thread may be woken without blocking
	wg, pendW, inflight int
	aReaders, sReaders  int
	sealWgDone          bool
	sealStarted         bool
	suStarted           bool
	idsDone             map[int]bool // bulks past AppendIDs
	idAtSeal            int
	sealBuiltSeen       bool
	faultNext           bool
	failedW             int   // appends whose write failed (their indexWg.Add is given back only by repaired code)
	leak                *bool // does the real WaitGroup keep those counts? (asked once, when nothing else is in flight)
	notes               []string
}

func mkBulk(docs []doc) *bulk {
	dp := frac.NewDocProvider()
	for i := range docs {
		d := &docs[i]
		toks := []string{"_all_:"}
		for _, t := range d.toks {
			toks = append(toks, fmt.Sprintf("service:t%d", t))
		}
		dp.Append(d.body, nil, d.id(), seq.Tokens(toks...))
	}
	dm, mm := dp.Provide()
	return &bulk{docs: docs, docsB: append([]byte(nil), dm...), metaB: append([]byte(nil), mm...), pos: -1}
}

func newWorld(root string, workers int, bulks [][]doc) (*world, error) {
	dir, err := os.MkdirTemp(root, "w")
	if err != nil {
		return nil, err
	}
	conf.IndexWorkers = workers
	conf.SkipFsync = true
	fm := fracmanager.NewFracManager(&fracmanager.Config{DataDir: dir, FracSize: 1 << 30, TotalSize: 1 << 40, CacheSize: 1 << 26,
		ShouldReplay: false, MaintenanceDelay: time.Hour})
	if err := fm.Load(context.Background()); err != nil {
		return nil, err
	}
	w := &world{s: newSched(), dir: dir, fm: fm, workers: workers, threads: map[string]*thread{}, idsDone: map[int]bool{}}
	for _, ds := range bulks {
		w.bulks = append(w.bulks, mkBulk(ds))
	}
	w.s.posToIx = func(pos int64) int {
		for i, b := range w.bulks {
			if b.pos == pos && b.started && !b.indexed {
				return i
			}
		}
		return -1
	}
	verifhook.Set(w.s.handler)
	w.p = fracmanager.VerifC07NewProxy(fm, filepath.Join(dir, "seq-db-C07"))
	w.active0, _, _ = w.p.State()
	return w, nil
}

func (w *world) close() {
	verifhook.Set(nil)
	// threads that can never finish (a sealer behind a leaked WaitGroup) stay parked; everything else is done
	os.RemoveAll(w.dir)
}

func (w *world) addThread(t *thread) {
	w.threads[t.name] = t
	w.order = append(w.order, t.name)
}

func (w *world) acLabel(l string, obs int64) {
	if w.acDead {
		return
	}
	w.ac = append(w.ac, l)
	w.acObs = append(w.acObs, obs)
}

// ---------------------------------------------------------------- spawning

func (w *world) newAppender(k int) {
	b := w.bulks[k]
	t := &thread{name: fmt.Sprintf("app%d", k), kind: "app", idx: k, noPark: map[string]bool{"c07.pf.append.enter": true}}
	w.s.spawn(t, func() any {
		err := w.p.Append(b.docsB, b.metaB)
		if err != nil {
			return err.Error()
		}
		return ""
	})
	w.addThread(t)
}

func (w *world) newSealer() {
	t := &thread{name: "seal", kind: "seal"}
	w.s.spawn(t, func() any {
		sealed, err := w.p.Seal(fracmanager.VerifC07SealParams(w.fm))
		if err != nil {
			return err.Error()
		}
		return sealed
	})
	w.sealStarted = true
	w.addThread(t)
}

func (w *world) newSuicider() {
	t := &thread{name: "su", kind: "su"}
	w.s.spawn(t, func() any { w.p.Suicide(); return nil })
	w.suStarted = true
	w.addThread(t)
}

func (w *world) newReader(r *reader) error {
	r.idx = len(w.readers)
	t := &thread{name: fmt.Sprintf("rdr%d", r.idx), kind: "rdr", idx: r.idx, noPark: map[string]bool{"c07.dp.created": true}}
	r.t = t
	var params processor.SearchParams
	if r.search {
		ast, err := r.q.ast()
		if err != nil {
			return err
		}
		params = processor.SearchParams{AST: ast, From: seq.MID(r.from), To: seq.MID(r.to), Limit: 1 << 20, Order: seq.DocsOrderDesc}
	}
	w.s.spawn(t, func() any {
		dp, release := w.p.DataProvider(context.Background())
		w.s.park(t, "rdr.acquired", int64(frac.VerifC07DPKind(dp)))
		if r.search {
			func() {
				defer func() {
					if p := recover(); p != nil {
						r.searchErr = fmt.Sprint("panic: ", p)
					}
				}()
				dirtyPool()
				qpr, err := dp.Search(params)
				if err != nil {
					r.searchErr = err.Error()
					return
				}
				for _, x := range qpr.IDs {
					r.result = append(r.result, x.ID)
				}
			}()
			w.s.park(t, "rdr.searched")
		} else {
			for _, d := range r.ids {
				out := "N"
				func() {
					defer func() {
						if p := recover(); p != nil {
							out = "P"
							w.notes = append(w.notes, fmt.Sprint("fetch panic: ", p))
						}
					}()
					docs, err := dp.Fetch([]seq.ID{d.id()})
					switch {
					case err != nil:
						out = "P"
					case len(docs) == 1 && docs[0] != nil:
						out = "F"
						if string(docs[0]) != string(d.body) {
							r.fetchBad = append(r.fetchBad, d.idStr())
						}
					}
				}()
				r.fetched = append(r.fetched, out)
				w.s.park(t, "rdr.fetched")
			}
		}
		release()
		return nil
	})
	w.readers = append(w.readers, r)
	w.addThread(t)
	return nil
}

// ---------------------------------------------------------------- enabledness (mirror; a mistake here = watchdog, never a verdict)

func (w *world) stateBits() (a, s, g bool) {
	act, sld, ro := w.p.State()
	return act != nil, sld != nil, act != nil && sld == nil && ro
}

func (w *world) enabled(t *thread) bool {
	if t.fin {
		return false
	}
	switch t.kind {
	case "app":
		if t.at == "start" {
			return w.inflight+w.pendW < w.workers
		}
		return true
	case "idx":
		if tlLock && t.at == "c07.aidx.ids" { // next is TokenList.Append: it takes appendMu, held by a writer parked inside Append
			for _, n := range w.order {
				if o := w.threads[n]; o.kind == "idx" && !o.fin && o.at == "c07.tl.got" {
					return false
				}
			}
		}
		return true
	case "seal":
		switch t.at {
		case "c07.pf.seal.begin":
			return w.wgDrained()
		case "c07.pf.seal.wgdone":
			return w.aReaders == 0
		}
		return true
	case "su":
		switch t.at {
		case "start":
			a, s, g := w.stateBits()
			if a && !s && !g { // suiciding a writable fraction with appends in flight crashes the index workers: tried in a child only
				return w.wg == 0 && w.pendW == 0
			}
			return true
		case "c07.pf.su.try":
			if t.bits[2] == 1 { // it saw "sealing": next is sealWg.Wait()
				return w.sealWgDone
			}
			return w.suNextOK(t)
		case "c07.pf.su.retry", "c07.pf.su.active":
			return w.suNextOK(t)
		}
		return true
	}
	return true
}

// wgDrained: would indexWg.Wait() return?  The counts of failed writes are only known to the implementation.
func (w *world) wgDrained() bool {
	if w.wg-w.failedW != 0 {
		return false
	}
	if w.failedW == 0 {
		return true
	}
	if w.leak == nil {
		l := !returnsWithin(w.p.WaitWriteIdle, 1)
		w.leak = &l
	}
	return !*w.leak
}

// next action of the suicider that holds (gotA, gotS) in t.args[0..1]
func (w *world) suNextOK(t *thread) bool {
	if t.bits[0] == 1 {
		return w.aReaders == 0
	}
	if t.bits[1] == 1 {
		return w.sReaders == 0
	}
	return true
}

// ---------------------------------------------------------------- one step

func b2i(b bool) int64 {
	if b {
		return 1
	}
	return 0
}

// tlLock: TokenList.Append is one critical section in the code under test (asked from the Lean driver, which reads
// it off the extracted facts); only the scheduler's blocking mirror uses it
var tlLock bool

var errNotEnabled = fmt.Errorf("thread is not enabled")

func (w *world) step(name string) error {
	t := w.threads[name]
	if t == nil {
		return fmt.Errorf("no thread %s: %w", name, errNotEnabled)
	}
	if !w.enabled(t) {
		return fmt.Errorf("thread %s at %q: %w", name, t.at, errNotEnabled)
	}
	w.ops = append(w.ops, "go "+name)
	switch t.kind {
	case "app":
		return w.stepApp(t)
	case "idx":
		return w.stepIdx(t)
	case "seal":
		return w.stepSeal(t)
	case "su":
		return w.stepSu(t)
	case "rdr":
		return w.stepRdr(t)
	}
	return nil
}

func (w *world) stepApp(t *thread) error {
	b := w.bulks[t.idx]
	if t.at == "start" {
		ev, err := w.s.resume(t)
		if err != nil {
			return err
		}
		switch ev.name {
		case "c07.pf.append.begin":
			w.pf = append(w.pf, "ab")
			w.wg++
			w.pendW++
			b.started = true
		case "c07.pf.append.fail":
			w.pf = append(w.pf, "af")
			if _, err := w.s.resume(t); err != nil {
				return err
			}
		default:
			return fmt.Errorf("appender stopped at %q", ev.name)
		}
		return nil
	}
	// at append.begin: active.Append runs now
	if w.faultNext {
		w.faultNext = false
		if err := frac.VerifC07CloseDocsFile(w.active0); err != nil {
			return err
		}
	}
	// the offset the writer will give this block: what has been written so far
	b.pos = 0
	for _, o := range w.bulks {
		if o != b && o.acked {
			b.pos += int64(len(o.docsB))
		}
	}
	if _, err := w.s.resume(t); err != nil {
		return err
	}
	w.pendW--
	if t.val.(string) != "" {
		w.pf = append(w.pf, "ae")
		w.failedW++
		return nil
	}
	if got := int64(disk.DocBlock(b.metaB).GetExt2()); got != b.pos {
		return fmt.Errorf("harness: docs offset %d, expected %d", got, b.pos)
	}
	b.acked = true
	w.pf = append(w.pf, "aw")
	w.inflight++
	ev, err := w.s.wait(func(e evt) bool { return e.t.kind == "idx" && e.name == "c07.aidx.start" && e.t.idx == t.idx })
	if err != nil {
		return err
	}
	w.addThread(ev.t)
	w.acLabel(fmt.Sprintf("wn/%d/%s", t.idx, b.spec()), 0)
	return nil
}

func (w *world) stepIdx(t *thread) error {
	b := w.bulks[t.idx]
	ev, err := w.s.resume(t)
	if err != nil {
		return err
	}
	k := t.idx
	switch ev.name {
	case "c07.aidx.block":
		w.acLabel(fmt.Sprintf("wb/%d", k), ev.args[0])
	case "c07.aidx.pos":
		b.kept = int(ev.args[0])
		w.acLabel(fmt.Sprintf("wp/%d", k), ev.args[0])
	case "c07.aidx.ids":
		w.idsDone[k] = true
		w.acLabel(fmt.Sprintf("wi/%d", k), ev.args[0])
	case "c07.tl.got":
		w.acLabel(fmt.Sprintf("wg/%d", k), ev.args[0])
	case "c07.aidx.toks":
		w.acLabel(fmt.Sprintf("wt/%d", k), ev.args[0])
	case "c07.aidx.queue":
		w.acLabel(fmt.Sprintf("wq/%d", k), ev.args[1])
	case "c07.aidx.stats":
		w.acLabel(fmt.Sprintf("ws/%d", k), 0)
	case "c07.aidx.done":
		w.acLabel(fmt.Sprintf("wd/%d", k), 0)
		w.pf = append(w.pf, "id")
		w.wg--
		w.inflight--
		b.indexed = true
		w.s.release(t) // the worker goes back to its task channel; nothing of this bulk is left to do
	default:
		return fmt.Errorf("index worker stopped at %q", ev.name)
	}
	return nil
}

func (w *world) stepSeal(t *thread) error {
	ev, err := w.s.resume(t)
	if err != nil {
		return err
	}
	if ev.fin {
		if s, ok := t.val.(*frac.Sealed); ok {
			w.sealed = s
		}
		return nil
	}
	switch ev.name {
	case "c07.pf.seal.fail":
		w.pf = append(w.pf, fmt.Sprintf("sf%d", ev.args[0]))
		_, err = w.s.resume(t)
		return err
	case "c07.pf.seal.begin":
		w.pf = append(w.pf, "sb")
	case "c07.pf.seal.idle":
		w.pf = append(w.pf, "si")
	case "c07.pf.seal.built":
		w.pf = append(w.pf, "sbt")
		w.sealBuiltSeen = true
		for _, b := range w.bulks {
			if b.indexed {
				w.idAtSeal++
			}
		}
	case "c07.pf.seal.publish":
		w.pf = append(w.pf, "sp")
		_, w.sealed, _ = w.p.State()
	case "c07.pf.seal.wgdone":
		w.pf = append(w.pf, "sd")
		w.sealWgDone = true
	case "c07.pf.seal.release":
		w.pf = append(w.pf, "sr")
		w.acDead = true
	default:
		return fmt.Errorf("sealer stopped at %q", ev.name)
	}
	return nil
}

func (w *world) stepSu(t *thread) error {
	a, s, g := w.stateBits()
	from := t.at
	ev, err := w.s.resume(t)
	if err != nil {
		return err
	}
	if ev.fin {
		return nil
	}
	switch ev.name {
	case "c07.pf.su.try":
		if from != "start" {
			return fmt.Errorf("su.try after %q", from)
		}
		w.pf = append(w.pf, fmt.Sprintf("st%d%d%d", b2i(a), b2i(s), b2i(g)))
		t.bits = [3]int64{b2i(a), b2i(s), b2i(g)}
		if g {
			t.bits[0], t.bits[1] = 0, 0 // nothing taken while sealing
		}
	case "c07.pf.su.woken":
		w.pf = append(w.pf, "sw")
	case "c07.pf.su.retry":
		w.pf = append(w.pf, fmt.Sprintf("sy%d%d%d", b2i(a), b2i(s), b2i(g)))
		t.bits = [3]int64{b2i(a), b2i(s), 0}
	case "c07.pf.su.active":
		w.pf = append(w.pf, "sa")
		w.acDead = true
		t.bits[0] = 0
	case "c07.pf.su.sealed":
		w.pf = append(w.pf, "ss")
		t.bits[1] = 0
	default:
		return fmt.Errorf("suicider stopped at %q", ev.name)
	}
	return nil
}

var dpLetter = []string{"e", "a", "s"}

func (w *world) tokenOfTID(tid uint32) int {
	v := string(w.active0.TokenList.GetValByTID(tid))
	n, err := strconv.Atoi(strings.TrimPrefix(v, "t"))
	if err != nil {
		return -1
	}
	return n
}

// report the query leaves up to (and including) the one that was just read; leaves whose token does not exist in the
// fraction produce no GetLIDs call at all - the model reads an empty list for them in the same uninterrupted segment
func (w *world) leavesUpTo(r *reader, tok int, n int64) {
	ls := r.q.leaves()
	for r.leafSeen < len(ls) {
		cur := ls[r.leafSeen]
		r.leafSeen++
		if cur == tok {
			w.acLabel(fmt.Sprintf("rl/%d", r.idx), n)
			return
		}
		w.acLabel(fmt.Sprintf("rl/%d", r.idx), 0)
	}
}

func (w *world) stepRdr(t *thread) error {
	r := w.readers[t.idx]
	from := t.at
	ev, err := w.s.resume(t)
	if err != nil {
		return err
	}
	if ev.fin {
		w.pf = append(w.pf, "r"+dpLetter[r.kind])
		switch r.kind {
		case 1:
			w.aReaders--
		case 2:
			w.sReaders--
		}
		if r.inAc && !r.search && r.kind == 1 {
			w.acLabel(fmt.Sprintf("rc/%d", r.idx), 0)
		}
		return nil
	}
	switch ev.name {
	case "rdr.acquired":
		r.kind = int(ev.args[0])
		w.pf = append(w.pf, "d"+dpLetter[r.kind])
		switch r.kind {
		case 1:
			w.aReaders++
		case 2:
			w.sReaders++
		}
		a, _, _ := w.stateBits()
		rel, _ := frac.VerifC07ActiveFlags(w.active0)
		if !w.acDead && a && !rel && r.kind != 2 {
			r.inAc = true
			qs := "T0"
			if r.search {
				qs = r.qs
			}
			w.acLabel(fmt.Sprintf("rn/%d/%s/%d/%d", r.idx, qs, r.from, r.to), 0)
			w.acLabel(fmt.Sprintf("ri/%d", r.idx), 0)
			if r.kind == 1 {
				w.acLabel(fmt.Sprintf("rb/%d", r.idx), 0)
			}
		}
		r.acquiredAfter = map[int]bool{}
		for k, v := range w.idsDone {
			r.acquiredAfter[k] = v
		}
	case "c07.rdr.mapping":
		if r.inAc {
			w.acLabel(fmt.Sprintf("rm/%d", r.idx), ev.args[0])
		}
	case "c07.rdr.mids":
		if r.inAc {
			w.acLabel(fmt.Sprintf("rM/%d", r.idx), ev.args[0]-1) // LID 0 is the system entry
		}
	case "c07.rdr.rids":
		if r.inAc {
			w.acLabel(fmt.Sprintf("rR/%d", r.idx), ev.args[0]-1)
		}
	case "c07.rdr.fields":
		// a scheduling point in front of the leaf's dictionary read (GetTIDsByField); the leaf itself (dictionary read,
		// token lookup, GetLIDs, inverseLIDs) is the uninterrupted segment up to c07.rdr.leaf / the end of Search.
		// Leaves before this one whose token did not exist produced no c07.rdr.leaf: they were read (as empty) in the
		// segment that just ended, so they are reported now.
		if r.inAc {
			for r.leafSeen < r.fieldsSeen {
				r.leafSeen++
				w.acLabel(fmt.Sprintf("rl/%d", r.idx), 0)
			}
		}
		r.fieldsSeen++
	case "c07.rdr.leaf":
		if r.inAc {
			w.leavesUpTo(r, w.tokenOfTID(uint32(ev.args[0])), ev.args[1])
		}
	case "rdr.searched":
		if r.inAc && r.kind == 1 {
			w.leavesUpTo(r, -2, 0)
			w.acLabel(fmt.Sprintf("re/%d", r.idx), 0)
		}
	case "rdr.fetched":
		if r.inAc && r.kind == 1 {
			d := r.ids[len(r.fetched)-1]
			w.acLabel(fmt.Sprintf("rf/%d/%s", r.idx, d.idStr()), 0)
		}
	default:
		return fmt.Errorf("reader stopped at %q (from %q)", ev.name, from)
	}
	return nil
}

// ---------------------------------------------------------------- canonical answers of the implementation

func (w *world) pfImpl() string {
	act, sld, ro := w.p.State()
	rel, asu := frac.VerifC07ActiveFlags(w.active0)
	ssu := false
	if w.sealed != nil {
		ssu = frac.VerifC07SealedSuicided(w.sealed)
	}
	begun, indexed := 0, 0
	for _, l := range w.pf {
		switch l {
		case "ab":
			begun++
		case "id":
			indexed++
		}
	}
	sealedBulks := "0"
	if w.sealBuiltSeen {
		sealedBulks = strconv.Itoa(w.idAtSeal)
		if w.sealed != nil {
			want := 0
			for _, b := range w.bulks {
				if b.indexed {
					want += b.kept
				}
			}
			if got := int(w.sealed.Info().DocsTotal); got != want {
				sealedBulks = fmt.Sprintf("docs:%d/%d", got, want)
			}
		}
	}
	return fmt.Sprintf("ok a=%d s=%d ro=%d rel=%d asu=%d ssu=%d begun=%d indexed=%d sealed=%s lost=0",
		b2i(act != nil), b2i(sld != nil), b2i(ro), b2i(rel), b2i(asu), b2i(ssu), begun, indexed, sealedBulks)
}

func sortIDs(ids []seq.ID) []string {
	sort.Slice(ids, func(i, j int) bool {
		if ids[i].MID != ids[j].MID {
			return ids[i].MID < ids[j].MID
		}
		return ids[i].RID < ids[j].RID
	})
	var out []string
	for _, id := range ids {
		out = append(out, fmt.Sprintf("%d.%d", uint64(id.MID), uint64(id.RID)))
	}
	return out
}

func (w *world) acImpl() string {
	var sb strings.Builder
	sb.WriteString("ok obs=")
	if len(w.acObs) == 0 {
		sb.WriteString("-")
	}
	for i, o := range w.acObs {
		if i > 0 {
			sb.WriteByte(',')
		}
		fmt.Fprintf(&sb, "%d", o)
	}
	for _, r := range w.readers {
		if !r.inAc {
			continue
		}
		ids := "-"
		if len(r.result) > 0 {
			ids = strings.Join(sortIDs(append([]seq.ID(nil), r.result...)), "+")
		}
		f := "-"
		if len(r.fetched) > 0 && r.kind == 1 {
			f = strings.Join(r.fetched, "")
		}
		fmt.Fprintf(&sb, " r%d=%s/%s", r.idx, ids, f)
	}
	return sb.String()
}
