package main

// Controlled scheduler: every thread of a scenario (appenders, index workers, sealer, suicider, readers) stops at
// the c07.* observation points of the real code (and at a few harness-level points around calls); the scenario
// driver wakes exactly one thread at a time and waits until it stops again, so the critical sections of different
// threads never overlap and the recorded label sequence IS the execution order.

import (
	"bytes"
	"fmt"
	"runtime"
	"strconv"
	"strings"
	"sync"
	"time"
)

func goid() int64 {
	var buf [64]byte
	n := runtime.Stack(buf[:], false)
	f := bytes.Fields(buf[:n])
	if len(f) < 2 {
		return -1
	}
	id, _ := strconv.ParseInt(string(f[1]), 10, 64)
	return id
}

type thread struct {
	name   string
	kind   string // "app" "idx" "seal" "su" "rdr"
	idx    int    // bulk index (app, idx) or reader index
	wake   chan struct{}
	at     string  // point the thread is parked at ("" = running / finished)
	args   []int64 // arguments of that point
	fin    bool
	val    any // result of the thread's call when finished
	noPark map[string]bool
	bits   [3]int64 // suicider: pointers it holds (active, sealed) and whether it saw "sealing"
}

type evt struct {
	t    *thread
	name string
	args []int64
	fin  bool
}

type sched struct {
	mu      sync.Mutex
	byG     map[int64]*thread
	events  chan evt
	pending []evt // events of threads other than the one being resumed (new index workers)
	posToIx func(pos int64) int
}

func newSched() *sched { return &sched{byG: map[int64]*thread{}, events: make(chan evt, 256)} }

// handler is installed with verifhook.Set.
func (s *sched) handler(name, _ string, args []int64) {
	if !strings.HasPrefix(name, "c07.") {
		return
	}
	g := goid()
	s.mu.Lock()
	t := s.byG[g]
	if name == "c07.aidx.start" { // an index worker took a task: a new logical writer thread on this goroutine
		ix := -1
		if s.posToIx != nil {
			ix = s.posToIx(args[0])
		}
		t = &thread{name: fmt.Sprintf("idx%d", ix), kind: "idx", idx: ix, wake: make(chan struct{})}
		s.byG[g] = t
	}
	s.mu.Unlock()
	if t == nil || t.noPark[name] {
		return
	}
	s.events <- evt{t: t, name: name, args: append([]int64(nil), args...)}
	<-t.wake
}

// park is a harness-level point inside a harness goroutine.
func (s *sched) park(t *thread, name string, args ...int64) {
	s.events <- evt{t: t, name: name, args: args}
	<-t.wake
}

// spawn starts f on a new goroutine bound to t; the thread is born parked at "start".
func (s *sched) spawn(t *thread, f func() any) {
	t.wake = make(chan struct{})
	t.at = "start"
	ready := make(chan struct{})
	go func() {
		s.mu.Lock()
		s.byG[goid()] = t
		s.mu.Unlock()
		close(ready)
		<-t.wake
		v := f()
		s.mu.Lock()
		t.val = v
		s.mu.Unlock()
		s.events <- evt{t: t, fin: true}
	}()
	<-ready
}

var errStuck = fmt.Errorf("scheduler: thread did not reach its next point")

// resume wakes t and waits for its next stop (or its end).  Stops of other threads (index workers that take a
// freshly queued task) are kept in s.pending.
func (s *sched) resume(t *thread) (evt, error) {
	t.at = ""
	t.wake <- struct{}{}
	return s.wait(func(e evt) bool { return e.t == t })
}

// release wakes t without waiting (index worker after its last point: it goes back to the task channel).
func (s *sched) release(t *thread) {
	t.at = ""
	t.fin = true
	t.wake <- struct{}{}
}

func (s *sched) wait(match func(evt) bool) (evt, error) {
	for i, e := range s.pending {
		if match(e) {
			s.pending = append(s.pending[:i], s.pending[i+1:]...)
			return e, nil
		}
	}
	timeout := time.After(20 * time.Second) // watchdog for harness mistakes only (a correct schedule never waits)
	for {
		select {
		case e := <-s.events:
			if e.fin {
				e.t.fin = true
				e.t.at = ""
			} else {
				e.t.at = e.name
				e.t.args = e.args
			}
			if match(e) {
				return e, nil
			}
			s.pending = append(s.pending, e)
		case <-timeout:
			return evt{}, errStuck
		}
	}
}
