package main

// Two directed scenarios on a real FracManager (each in its own child process):
//
//	rot         a writer is held between fm.Writer() and the state check of proxyFrac.Append (point
//	            c07.pf.append.enter) while the fraction is rotated out and its sealer has made it read-only (point
//	            c07.pf.seal.begin); released, FracManager.Append must retry on the new active fraction: the bulk is
//	            acknowledged and findable, never an error to the client
//	sealedpool  several sealed fractions; a search that fails (cancelled context) on one of them, then two sealed
//	            data providers alive at once, searched alternately and in parallel: every returned id must be a
//	            document of the fraction that was searched and satisfy the query (the providers' pooled unpack
//	            caches must not be shared)

import (
	"context"
	"fmt"
	"runtime/debug"
	"strings"
	"sync"
	"time"

	"github.com/ozontech/seq-db/conf"
	"github.com/ozontech/seq-db/disk"
	"github.com/ozontech/seq-db/frac"
	"github.com/ozontech/seq-db/frac/processor"
	"github.com/ozontech/seq-db/fracmanager"
	"github.com/ozontech/seq-db/mappingprovider"
	pbapi "github.com/ozontech/seq-db/pkg/storeapi"
	"github.com/ozontech/seq-db/seq"
	sapi "github.com/ozontech/seq-db/storeapi"
	"github.com/ozontech/seq-db/verifhook"

	"verifharness/internal/vh"
)

type gate struct {
	mu      sync.Mutex
	byG     map[int64]string // goroutine -> the point name it stops at
	arrived chan string
	wake    map[int64]chan struct{}
}

func newGate() *gate {
	return &gate{byG: map[int64]string{}, arrived: make(chan string, 16), wake: map[int64]chan struct{}{}}
}

func (g *gate) handler(name, _ string, _ []int64) {
	id := goid()
	g.mu.Lock()
	want, ok := g.byG[id]
	ch := g.wake[id]
	g.mu.Unlock()
	if !ok || want != name {
		return
	}
	g.arrived <- name
	<-ch
}

// run starts f on a goroutine that stops at point `at` (every time it passes it) and returns its wake channel
func (g *gate) run(at string, f func()) (wake chan struct{}, done chan struct{}) {
	wake, done = make(chan struct{}), make(chan struct{})
	ready := make(chan struct{})
	go func() {
		g.mu.Lock()
		g.byG[goid()] = at
		g.wake[goid()] = wake
		g.mu.Unlock()
		close(ready)
		f()
		close(done)
	}()
	<-ready
	return wake, done
}

func waitArrive(g *gate, done chan struct{}, secs int) (arrived bool, finished bool) {
	select {
	case <-g.arrived:
		return true, false
	case <-done:
		return false, true
	case <-time.After(time.Duration(secs) * time.Second):
		return false, false
	}
}

func searchAll(fm *fracmanager.FracManager, qs string) (map[seq.ID]bool, error) {
	q, _, _ := parseQuery(strings.Split(qs, "."))
	ast, _ := q.ast()
	s := fracmanager.NewSearcher(4, fracmanager.SearcherCfg{})
	qpr, err := s.SearchDocs(context.Background(), fm.GetAllFracs(), processor.SearchParams{AST: ast, From: 0, To: 1 << 40, Limit: 1 << 20, Order: seq.DocsOrderDesc})
	if err != nil {
		return nil, err
	}
	got := map[seq.ID]bool{}
	for _, x := range qpr.IDs {
		got[x.ID] = true
	}
	return got, nil
}

func waitIndexed(fm *fracmanager.FracManager, want int) {
	deadline := time.Now().Add(20 * time.Second)
	for time.Now().Before(deadline) {
		total := 0
		for _, f := range fm.GetAllFracs() {
			total += int(f.Info().DocsTotal)
		}
		if total >= want {
			return
		}
		time.Sleep(2 * time.Millisecond)
	}
}

func newPlainFM(dir string) (*fracmanager.FracManager, error) {
	conf.IndexWorkers = 2
	conf.SkipFsync = true
	fm := fracmanager.NewFracManager(&fracmanager.Config{DataDir: dir, FracSize: 1 << 30, TotalSize: 1 << 40, CacheSize: 1 << 26,
		ShouldReplay: false, MaintenanceDelay: time.Hour})
	if err := fm.Load(context.Background()); err != nil {
		return nil, err
	}
	fm.Start()
	return fm, nil
}

func rotChild(seed int64, dir string) (out raceOut) {
	add := func(class, what string) { out.Findings = append(out.Findings, finding2{class, what}) }
	fm, err := newPlainFM(dir)
	if err != nil {
		add("harness", err.Error())
		return
	}
	rng := vh.NewRNG(seed)
	mk := func(k int) *bulk {
		var ds []doc
		for j := 0; j < rng.Range(1, 4); j++ {
			ds = append(ds, mkDoc(k, j, uint64(1000+k), uint64(k*1000+j+1), []int{0, k % 3}))
		}
		return mkBulk(ds)
	}
	first := mk(0)
	if err := fm.Append(context.Background(), first.docsB, first.metaB); err != nil {
		add("append-error", err.Error())
		return
	}
	fm.WaitIdle() // the fraction that will be rotated out is not empty
	g := newGate()
	verifhook.Set(g.handler)
	defer verifhook.Set(nil)
	total := len(first.docs)
	for round := 1; round <= 3; round++ {
		b := mk(round)
		var appendErr error
		wWake, wDone := g.run("c07.pf.append.enter", func() { appendErr = fm.Append(context.Background(), b.docsB, b.metaB) })
		if ok, _ := waitArrive(g, wDone, 20); !ok {
			add("harness", "the writer did not reach c07.pf.append.enter")
			return
		}
		// the writer holds the pointer of the current fraction; rotate it out and let its sealer make it read-only
		sWake, sDone := g.run("c07.pf.seal.begin", fm.SealForcedForTests)
		if ok, fin := waitArrive(g, sDone, 20); !ok {
			if !fin {
				add("harness", "the sealer did not reach c07.pf.seal.begin")
			}
			return
		}
		// release the writer: its first attempt meets the read-only fraction, every further attempt a writable one
		for stops := 0; ; stops++ {
			wWake <- struct{}{}
			arrived, finished := waitArrive(g, wDone, 20)
			if finished {
				break
			}
			if !arrived || stops > 10 {
				add("deadlock", "FracManager.Append neither returned nor retried after the rotation")
				return
			}
		}
		out.Bulks++
		if appendErr != nil {
			add("append-error-under-rotation", fmt.Sprintf("a bulk whose writer had taken fm.Writer() just before the rotation was refused instead of retried on the new active fraction: %v", appendErr))
			sWake <- struct{}{}
			<-sDone
			return
		} else {
			total += len(b.docs)
		}
		sWake <- struct{}{}
		<-sDone
		if appendErr == nil {
			waitIndexed(fm, total)
			got, err := searchAll(fm, "T0")
			out.Searches++
			if err != nil {
				add("search-error", err.Error())
			} else {
				for _, d := range b.docs {
					if !got[d.id()] {
						add("lost-append", fmt.Sprintf("acknowledged document %s (bulk appended across a rotation) is not found", d.idStr()))
						break
					}
				}
			}
		}
	}
	out.Fractions = len(fm.GetAllFracs())
	verifhook.Set(nil)
	fm.Stop()
	return
}

// fsyncChild: ONE fsync of the active fraction's docs (or meta) file fails, later ones succeed.  The writers of that
// batch must get the error (not an acknowledgement); every later bulk must be acknowledged within a bound and become
// visible - a transient I/O error must not stop ingestion for good.
func fsyncChild(seed int64, dir string) (out raceOut) {
	add := func(class, what string) { out.Findings = append(out.Findings, finding2{class, what}) }
	conf.IndexWorkers = 2
	conf.SkipFsync = false // the group-commit path of FileWriter
	fm := fracmanager.NewFracManager(&fracmanager.Config{DataDir: dir, FracSize: 1 << 30, TotalSize: 1 << 40, CacheSize: 1 << 26,
		ShouldReplay: false, MaintenanceDelay: time.Hour})
	if err := fm.Load(context.Background()); err != nil {
		add("harness", err.Error())
		return
	}
	fm.Start()
	rng := vh.NewRNG(seed)
	k := 0
	var acked []doc
	mk := func() *bulk {
		k++
		var ds []doc
		for j := 0; j < rng.Range(1, 4); j++ {
			ds = append(ds, mkDoc(k, j, uint64(1000+k), uint64(k*1000+j+1), []int{0, k % 3}))
		}
		return mkBulk(ds)
	}
	appendBounded := func(b *bulk, what string) bool {
		ctx, cancel := context.WithTimeout(context.Background(), 8*time.Second)
		defer cancel()
		err := fm.Append(ctx, b.docsB, b.metaB)
		out.Bulks++
		if err != nil {
			add("ingest-stuck-after-transient-fsync-error", fmt.Sprintf("%s: FracManager.Append did not get the bulk acknowledged within 8s (%v) although only ONE earlier fsync had failed", what, err))
			return false
		}
		acked = append(acked, b.docs...)
		return true
	}
	for _, meta := range []bool{false, true} {
		name := map[bool]string{false: "docs", true: "meta"}[meta]
		if !appendBounded(mk(), "before the fault") {
			return
		}
		fm.WaitIdle()
		a := fracmanager.VerifC07ActiveOf(fm)
		if a == nil {
			add("harness", "no active fraction")
			return
		}
		frac.VerifC07FailOneSync(a, meta, 1)
		fb := mk()
		if err := fracmanager.VerifC07WriterAppend(fm, fb.docsB, fb.metaB); err == nil {
			add("ack-after-failed-fsync", fmt.Sprintf("the fsync of the %s file failed but the writer of that batch was acknowledged", name))
		}
		for i := 0; i < 3; i++ {
			if !appendBounded(mk(), fmt.Sprintf("bulk %d after the %s fsync fault", i+1, name)) {
				return
			}
		}
	}
	waitIndexed(fm, len(acked))
	got, err := searchAll(fm, "T0")
	out.Searches++
	if err != nil {
		add("search-error", err.Error())
	} else {
		for _, d := range acked {
			if !got[d.id()] {
				add("lost-append", fmt.Sprintf("acknowledged document %s (after a transient fsync error) is not found", d.idStr()))
				break
			}
		}
	}
	out.Fractions = len(fm.GetAllFracs())
	fm.Stop()
	return
}

// bigFetchChild: one fetch request through the real storeapi GrpcV1.Fetch stream (in-memory client) with more than one
// id batch (> 1000 ids) over three fractions, the oldest fraction's ids last: every acknowledged id must come back with
// exactly its bytes.  The request is repeated while another fraction is rotated out and sealed.
func bigFetchChild(seed int64, dir string) (out raceOut) {
	add := func(class, what string) {
		if len(out.Findings) < 10 {
			out.Findings = append(out.Findings, finding2{class, what})
		}
	}
	fm, err := newPlainFM(dir)
	if err != nil {
		add("harness", err.Error())
		return
	}
	mp, err := mappingprovider.New("", mappingprovider.WithMapping(seq.TestMapping))
	if err != nil {
		add("harness", err.Error())
		return
	}
	client := sapi.VerifC07InMemoryClient(fm, mp, dir+"/async")
	rng := vh.NewRNG(seed)
	var perFrac [][]doc
	total := 0
	nfr := 3
	for fr := 0; fr < nfr; fr++ {
		var mine []doc
		for k := 0; k < 6; k++ {
			var ds []doc
			for j := 0; j < 90+rng.Intn(10); j++ {
				ds = append(ds, mkDoc(fr*10+k, j, uint64(10000*(fr+1)+k*100+j), uint64(fr*1000000+k*1000+j+1), []int{0}))
			}
			b := mkBulk(ds)
			if err := fm.Append(context.Background(), b.docsB, b.metaB); err != nil {
				add("append-error", err.Error())
				return
			}
			mine = append(mine, ds...)
			out.Bulks++
		}
		total += len(mine)
		perFrac = append(perFrac, mine)
		fm.WaitIdle()
		if fr < nfr-1 {
			fm.SealForcedForTests()
		}
	}
	waitIndexed(fm, total)
	out.Fractions = len(fm.GetAllFracs())
	fetchAll := func(when string) {
		var want []doc
		for fr := nfr - 1; fr >= 0; fr-- { // newest fraction first, the oldest fraction's ids last
			want = append(want, perFrac[fr]...)
		}
		req := &pbapi.FetchRequest{}
		for _, d := range want {
			req.Ids = append(req.Ids, d.id().String())
		}
		stream, err := client.Fetch(context.Background(), req)
		out.Fetches++
		if err != nil {
			add("fetch-error", fmt.Sprintf("%s: fetch of %d ids through the store API: %v", when, len(want), err))
			return
		}
		for i, d := range want {
			msg, err := stream.Recv()
			if err != nil {
				add("fetch-error", fmt.Sprintf("%s: stream ended after %d of %d documents: %v", when, i, len(want), err))
				return
			}
			block := disk.DocBlock(msg.Data)
			if block.GetExt1() != d.mid || block.GetExt2() != d.rid || string(block.Payload()) != string(d.body) {
				add("fetch-multi-batch", fmt.Sprintf("%s: document %d of %d (%s, fraction %d of 3) of one store-API fetch request came back empty or foreign (%d bytes)",
					when, i+1, len(want), d.idStr(), int(d.mid/10000), len(block.Payload())))
				return
			}
		}
	}
	fetchAll("three fractions, writers idle")
	// the same request while the third fraction is rotated out and sealed
	var wg sync.WaitGroup
	wg.Add(1)
	go func() { defer wg.Done(); fm.SealForcedForTests() }()
	for i := 0; i < 3 && len(out.Findings) == 0; i++ {
		fetchAll("during rotate+seal of the third fraction")
	}
	wg.Wait()
	fetchAll("all fractions sealed")
	fm.Stop()
	return
}

// lateDocsChild: sparse LATE documents (much older than the fraction, so that sealing builds a minute distribution
// aligned to the oldest timestamp), among them pairs inside one wall-clock minute on both sides of a bucket boundary.
// Every acknowledged document must be found by a narrow-range search and fetched by its bare id, before the fraction
// is sealed, while it is rotated out, and after.
func lateDocsChild(seed int64, dir string) (out raceOut) {
	add := func(class, what string) {
		if len(out.Findings) < 10 {
			out.Findings = append(out.Findings, finding2{class, what})
		}
	}
	fm, err := newPlainFM(dir)
	if err != nil {
		add("harness", err.Error())
		return
	}
	rng := vh.NewRNG(seed)
	const minute = 60000
	base := uint64(time.Now().Add(-3*time.Hour).UnixMilli())/minute*minute + uint64(20000+rng.Intn(20000)) // oldest timestamp: not on a minute, inside the 24h the distribution covers
	var mids []uint64
	mids = append(mids, base)
	for k := 2; k < 40; k += 3 + rng.Intn(3) {
		boundary := base + uint64(k)*minute // a bucket boundary; base is 20-40 s into its wall-clock minute
		wallStart := boundary / minute * minute
		if boundary-wallStart < 2000 || wallStart+minute-boundary < 2000 {
			continue
		}
		// two documents of ONE wall-clock minute, on both sides of the bucket boundary, nothing else near
		mids = append(mids, boundary-uint64(1+rng.Intn(int(boundary-wallStart-1))), boundary+uint64(rng.Intn(int(wallStart+minute-boundary-1))))
	}
	var all []doc
	searcher := fracmanager.NewSearcher(4, fracmanager.SearcherCfg{})
	fetcher := fracmanager.NewFetcher(4)
	checkAll := func(when string) {
		for _, d := range all {
			q, _, _ := parseQuery([]string{"T0"})
			ast, _ := q.ast()
			qpr, err := searcher.SearchDocs(context.Background(), fm.GetAllFracs(), processor.SearchParams{AST: ast, From: seq.MID(d.mid), To: seq.MID(d.mid), Limit: 100, Order: seq.DocsOrderDesc})
			out.Searches++
			if err != nil {
				add("search-error", fmt.Sprintf("%s: %v", when, err))
				return
			}
			found := false
			for _, x := range qpr.IDs {
				found = found || x.ID == d.id()
			}
			if !found {
				add("late-doc-invisible", fmt.Sprintf("%s: acknowledged document %s is not returned by a search over exactly its millisecond", when, d.idStr()))
				return
			}
			bodies, err := fetcher.FetchDocs(context.Background(), fm.GetAllFracs(), []seq.IDSource{{ID: d.id()}})
			out.Fetches++
			if err != nil || len(bodies) != 1 || string(bodies[0]) != string(d.body) {
				add("late-doc-invisible", fmt.Sprintf("%s: acknowledged document %s, just returned by a search, cannot be fetched by its id (err=%v)", when, d.idStr(), err))
				return
			}
		}
	}
	for i := 0; i < len(mids); i += 4 {
		var ds []doc
		for j, m := range mids[i:min(i+4, len(mids))] {
			ds = append(ds, mkDoc(i, j, m, uint64(i*100+j+1), []int{0}))
		}
		b := mkBulk(ds)
		if err := fm.Append(context.Background(), b.docsB, b.metaB); err != nil {
			add("append-error", err.Error())
			return
		}
		all = append(all, ds...)
		out.Bulks++
	}
	fm.WaitIdle()
	waitIndexed(fm, len(all))
	checkAll("active fraction")
	var wg sync.WaitGroup
	wg.Add(1)
	go func() { defer wg.Done(); fm.SealForcedForTests() }()
	if len(out.Findings) == 0 {
		checkAll("while the fraction is rotated out and sealed")
	}
	wg.Wait()
	if len(out.Findings) == 0 {
		checkAll("sealed fraction")
	}
	out.Fractions = len(fm.GetAllFracs())
	fm.Stop()
	return
}

// coldSealedChild: one sealed fraction with many tokens; rounds of "drop every cache, then 12 searches+fetches for
// different tokens in parallel": all of them miss the index caches at the same time and read through the fraction's
// one disk.IndexReader.  Every search must return exactly the documents of its token, every fetch their bytes.
func coldSealedChild(seed int64, dir string) (out raceOut) {
	var mu sync.Mutex
	add := func(class, what string) {
		mu.Lock()
		if len(out.Findings) < 10 {
			out.Findings = append(out.Findings, finding2{class, what})
		}
		mu.Unlock()
	}
	// no fm.Start(): ResetCacheForTests is a test helper that is not meant to run next to the cache clean loop
	conf.IndexWorkers = 2
	conf.SkipFsync = true
	fm := fracmanager.NewFracManager(&fracmanager.Config{DataDir: dir, FracSize: 1 << 30, TotalSize: 1 << 40, CacheSize: 1 << 26,
		ShouldReplay: false, MaintenanceDelay: time.Hour})
	if err := fm.Load(context.Background()); err != nil {
		add("harness", err.Error())
		return
	}
	const ntok = 240
	byTok := map[int][]doc{}
	byID := map[seq.ID]doc{}
	n := 0
	for k := 0; k < 24; k++ {
		var ds []doc
		for j := 0; j < 500; j++ {
			t := (k*500 + j) % ntok
			d := mkDoc(k, j, uint64(100000+k*500+j), uint64(k*100000+j+1), []int{t, ntok + (k*500+j)%7})
			ds = append(ds, d)
			byTok[t] = append(byTok[t], d)
			byID[d.id()] = d
		}
		b := mkBulk(ds)
		if err := fm.Append(context.Background(), b.docsB, b.metaB); err != nil {
			add("append-error", err.Error())
			return
		}
		n += len(ds)
		out.Bulks++
	}
	fm.WaitIdle()
	waitIndexed(fm, n)
	fm.SealForcedForTests()
	out.Fractions = len(fm.GetAllFracs())
	searcher := fracmanager.NewSearcher(16, fracmanager.SearcherCfg{})
	fetcher := fracmanager.NewFetcher(16)
	rng := vh.NewRNG(seed)
	for round := 0; round < 10; round++ {
		fm.ResetCacheForTests()
		var wg sync.WaitGroup
		for g := 0; g < 12; g++ {
			tok := rng.Intn(ntok)
			wg.Add(1)
			go func(tok int) {
				defer wg.Done()
				defer func() {
					if p := recover(); p != nil {
						add("search-error", fmt.Sprintf("cold sealed fraction, token %d: panic %v", tok, p))
					}
				}()
				q := &query{op: 'T', tok: tok}
				ast, _ := q.ast()
				qpr, err := searcher.SearchDocs(context.Background(), fm.GetAllFracs(), processor.SearchParams{AST: ast, From: 0, To: 1 << 40, Limit: 1 << 20, Order: seq.DocsOrderDesc})
				mu.Lock()
				out.Searches++
				mu.Unlock()
				if err != nil {
					add("search-error", fmt.Sprintf("cold sealed fraction, token %d: %v", tok, err))
					return
				}
				got := map[seq.ID]bool{}
				for _, x := range qpr.IDs {
					got[x.ID] = true
					if d, ok := byID[x.ID]; !ok || !d.has(tok) {
						add("sealed-foreign-id", fmt.Sprintf("cold sealed fraction: search for token %d returned %v which does not carry it", tok, x.ID))
						return
					}
				}
				for _, d := range byTok[tok] {
					if !got[d.id()] {
						add("sealed-missing-id", fmt.Sprintf("cold sealed fraction: search for token %d did not return %s", tok, d.idStr()))
						return
					}
				}
				bodies, err := fetcher.FetchDocs(context.Background(), fm.GetAllFracs(), qpr.IDs)
				mu.Lock()
				out.Fetches++
				mu.Unlock()
				if err != nil {
					add("fetch-error", fmt.Sprintf("cold sealed fraction, token %d: %v", tok, err))
					return
				}
				for i, x := range qpr.IDs {
					if i >= len(bodies) || string(bodies[i]) != string(byID[x.ID].body) {
						add("fetch-after-search", fmt.Sprintf("cold sealed fraction: id %s returned by a search could not be fetched with its bytes", byID[x.ID].idStr()))
						return
					}
				}
			}(tok)
		}
		wg.Wait()
		mu.Lock()
		stop := len(out.Findings) > 0
		mu.Unlock()
		if stop {
			break
		}
	}
	return
}

// sealWindowChild: the sealer is parked at each of its points - after it made the fraction read-only, after it published
// the sealed fraction, and after active.Release() but BEFORE FracManager.seal swaps the list entry - and at every one of
// those moments a reader going through FracManager.GetAllFracs must see every acknowledged document (search + fetch).
func sealWindowChild(seed int64, dir string) (out raceOut) {
	add := func(class, what string) {
		if len(out.Findings) < 10 {
			out.Findings = append(out.Findings, finding2{class, what})
		}
	}
	fm, err := newPlainFM(dir)
	if err != nil {
		add("harness", err.Error())
		return
	}
	rng := vh.NewRNG(seed)
	var all []doc
	for k := 0; k < 4; k++ {
		var ds []doc
		for j := 0; j < rng.Range(2, 6); j++ {
			ds = append(ds, mkDoc(k, j, uint64(1000+k*10+j), uint64(k*1000+j+1), []int{0, k % 3}))
		}
		b := mkBulk(ds)
		if err := fm.Append(context.Background(), b.docsB, b.metaB); err != nil {
			add("append-error", err.Error())
			return
		}
		all = append(all, ds...)
		out.Bulks++
	}
	fm.WaitIdle()
	waitIndexed(fm, len(all))
	fetcher := fracmanager.NewFetcher(4)
	checkAll := func(when string) {
		got, err := searchAll(fm, "T0")
		out.Searches++
		if err != nil {
			add("search-error", when+": "+err.Error())
			return
		}
		var ids []seq.IDSource
		for _, d := range all {
			if !got[d.id()] {
				add("invisible-during-seal", fmt.Sprintf("%s: acknowledged document %s is not returned by a search although the writers are idle", when, d.idStr()))
				return
			}
			ids = append(ids, seq.IDSource{ID: d.id()})
		}
		bodies, err := fetcher.FetchDocs(context.Background(), fm.GetAllFracs(), ids)
		out.Fetches++
		if err != nil {
			add("fetch-error", when+": "+err.Error())
			return
		}
		for i, d := range all {
			if i >= len(bodies) || string(bodies[i]) != string(d.body) {
				add("invisible-during-seal", fmt.Sprintf("%s: acknowledged document %s cannot be fetched", when, d.idStr()))
				return
			}
		}
	}
	checkAll("before sealing")
	for _, at := range []string{"c07.pf.seal.begin", "c07.pf.seal.publish", "c07.pf.seal.release"} {
		if len(out.Findings) > 0 {
			break
		}
		g := newGate()
		verifhook.Set(g.handler)
		// a bulk for the next round goes to the new active fraction; the one being sealed holds `all` so far
		sWake, sDone := g.run(at, fm.SealForcedForTests)
		if ok, fin := waitArrive(g, sDone, 30); !ok {
			verifhook.Set(nil)
			if !fin {
				add("harness", "the sealer did not reach "+at)
			}
			return
		}
		checkAll("sealer parked at " + at)
		sWake <- struct{}{}
		<-sDone
		verifhook.Set(nil)
		checkAll("after the seal that was parked at " + at)
		// something to seal in the next round
		var ds []doc
		k := 10 + len(all)
		for j := 0; j < 3; j++ {
			ds = append(ds, mkDoc(k, j, uint64(2000+k*10+j), uint64(k*1000+j+1), []int{0}))
		}
		b := mkBulk(ds)
		if err := fm.Append(context.Background(), b.docsB, b.metaB); err != nil {
			add("append-error", err.Error())
			return
		}
		all = append(all, ds...)
		fm.WaitIdle()
		waitIndexed(fm, len(all))
	}
	out.Fractions = len(fm.GetAllFracs())
	fm.Stop()
	return
}

func sealedPoolChild(seed int64, dir string) (out raceOut) {
	debug.SetGCPercent(-1) // a GC would empty the pools between the failed search and the next providers
	add := func(class, what string) {
		if len(out.Findings) < 10 {
			out.Findings = append(out.Findings, finding2{class, what})
		}
	}
	fm, err := newPlainFM(dir)
	if err != nil {
		add("harness", err.Error())
		return
	}
	rng := vh.NewRNG(seed)
	owner := map[seq.ID]int{}
	byID := map[seq.ID]doc{}
	nfr := 3
	for fr := 0; fr < nfr; fr++ {
		total := 0
		for k := 0; k < 3; k++ {
			var ds []doc
			for j := 0; j < rng.Range(2, 6); j++ {
				var toks []int
				for t := 0; t < 3; t++ {
					if rng.Chance(1, 2) {
						toks = append(toks, t)
					}
				}
				d := mkDoc(fr*10+k, j, uint64(1000+fr*37+k*5+j), uint64(fr*100000+k*100+j+1), toks)
				ds = append(ds, d)
				owner[d.id()] = fr
				byID[d.id()] = d
			}
			b := mkBulk(ds)
			if err := fm.Append(context.Background(), b.docsB, b.metaB); err != nil {
				add("append-error", err.Error())
				return
			}
			total += len(ds)
			out.Bulks++
		}
		fm.WaitIdle()
		fm.SealForcedForTests()
	}
	fracs := fm.GetAllFracs()
	if len(fracs) < nfr {
		add("harness", "fractions missing")
		return
	}
	out.Fractions = len(fracs)
	queries := []string{"T0", "T1", "N.T2", "O.T0.T1"}
	params := func(qs string) (processor.SearchParams, *query) {
		q, _, _ := parseQuery(strings.Split(qs, "."))
		ast, _ := q.ast()
		return processor.SearchParams{AST: ast, From: 0, To: 1 << 40, Limit: 1 << 20, Order: seq.DocsOrderDesc}, q
	}
	searchOn := func(dp frac.DataProvider, fr int, qs string) {
		defer func() {
			if p := recover(); p != nil {
				add("search-error", fmt.Sprintf("search on sealed fraction %d panicked: %v", fr, p))
			}
		}()
		p, q := params(qs)
		qpr, err := dp.Search(p)
		out.Searches++
		if err != nil {
			add("search-error", fmt.Sprintf("search on sealed fraction %d: %v", fr, err))
			return
		}
		got := map[seq.ID]bool{}
		for _, x := range qpr.IDs {
			got[x.ID] = true
			d, ok := byID[x.ID]
			switch {
			case !ok:
				add("search-unknown-id", fmt.Sprintf("sealed fraction %d, query %s returned %v which nobody submitted", fr, qs, x.ID))
			case owner[x.ID] != fr:
				add("sealed-foreign-id", fmt.Sprintf("sealed fraction %d, query %s returned %s, a document of fraction %d", fr, qs, d.idStr(), owner[x.ID]))
			case !q.sat(d):
				add("sealed-foreign-id", fmt.Sprintf("sealed fraction %d, query %s returned %s with tokens %v", fr, qs, d.idStr(), d.toks))
			}
		}
		for id, o := range owner {
			if o == fr && q.sat(byID[id]) && !got[id] {
				add("sealed-missing-id", fmt.Sprintf("sealed fraction %d, query %s did not return its document %s", fr, qs, byID[id].idStr()))
				break
			}
		}
	}
	for round := 0; round < 12 && len(out.Findings) == 0; round++ {
		a, b := round%nfr, (round+1)%nfr
		// a search that fails: its context is cancelled
		cctx, cancel := context.WithCancel(context.Background())
		cancel()
		dpF, relF := fracs[a].DataProvider(cctx)
		p, _ := params("T0")
		if _, err := dpF.Search(p); err == nil {
			add("harness", "a search with a cancelled context succeeded")
		}
		relF()
		// two sealed providers alive at once, searched alternately ...
		dpA, relA := fracs[a].DataProvider(context.Background())
		dpB, relB := fracs[b].DataProvider(context.Background())
		for _, qs := range queries {
			searchOn(dpA, a, qs)
			searchOn(dpB, b, qs)
		}
		// ... and in parallel
		var wg sync.WaitGroup
		var mu sync.Mutex
		par := func(dp frac.DataProvider, fr int) {
			defer wg.Done()
			for _, qs := range queries {
				mu.Lock() // the bookkeeping of this harness is not concurrent; the searches of the two providers still alternate
				searchOn(dp, fr, qs)
				mu.Unlock()
			}
		}
		wg.Add(2)
		go par(dpA, a)
		go par(dpB, b)
		wg.Wait()
		relA()
		relB()
	}
	fm.Stop()
	return
}
