// C17 harness: re-delivering a bulk does not duplicate documents.
//
// Correspondence channels (implementation vs Lean model through drv_c17):
//
//	collector.filter           metaDataCollector (Init/AppendMeta/Filter/GroupLIDsByToken) through frac.VerifCollectorC17
//	docspositions.setmultiple  DocsPositions.SetMultiple
//	active.history             a real frac.Active fed with histories of bulks (repeats, partial overlaps, nested metas):
//	                           MIDs/RIDs, Info, DocsPositions, token LIDs, fetched documents vs SV.Collector.run
//	qpr.repetitions            seq.removeRepetitionsAdvanced
//	qpr.merge                  seq.MergeQPRs (ids, total, histogram)
//
// System oracle (property on the implementation, no model involved):
//
//	redelivery.system          a real FracManager + Searcher + Fetcher: histories with whole / partial / repeated /
//	                           concurrent re-deliveries, seal, restart; ids listed once, totals / histogram / aggregation /
//	                           DocsTotal counted once, every document fetchable with its original bytes.
//	                           Runs in a child process (indexer panics and sealing Fatal are observations).
package main

import (
	"bufio"
	"bytes"
	"context"
	"encoding/binary"
	"encoding/hex"
	"fmt"
	"math"
	"os"
	"os/exec"
	"path/filepath"
	"sort"
	"strconv"
	"strings"
	"sync"
	"time"

	"go.uber.org/zap"

	"github.com/ozontech/seq-db/cache"
	"github.com/ozontech/seq-db/conf"
	"github.com/ozontech/seq-db/disk"
	"github.com/ozontech/seq-db/frac"
	"github.com/ozontech/seq-db/frac/processor"
	"github.com/ozontech/seq-db/fracmanager"
	"github.com/ozontech/seq-db/logger"
	"github.com/ozontech/seq-db/mappingprovider"
	"github.com/ozontech/seq-db/parser"
	pbapi "github.com/ozontech/seq-db/pkg/storeapi"
	"github.com/ozontech/seq-db/seq"
	sapi "github.com/ozontech/seq-db/storeapi"
	"github.com/ozontech/seq-db/verifhook"

	"verifharness/internal/vh"
)

// ---------------------------------------------------------------- bulks

type tok struct{ k, v []byte }

type meta struct {
	mid, rid uint64
	size     uint32
	doc      int // payload identity (0 for nested metas)
	toks     []tok
}

func (m meta) id() seq.ID { return seq.ID{MID: seq.MID(m.mid), RID: seq.RID(m.rid)} }

// idLess is the specification's order on ids (MID, then RID) - the harness never borrows the comparator under test
func idLess(a, b seq.ID) bool {
	if a.MID != b.MID {
		return a.MID < b.MID
	}
	return a.RID < b.RID
}

func fmtID(id seq.ID) string { return fmt.Sprintf("%d.%d", uint64(id.MID), uint64(id.RID)) }

func fmtIDs(ids []seq.ID) string {
	if len(ids) == 0 {
		return "-"
	}
	s := make([]string, len(ids))
	for i, id := range ids {
		s[i] = fmtID(id)
	}
	return strings.Join(s, ",")
}

func (m meta) String() string {
	ts := "-"
	if len(m.toks) > 0 {
		p := make([]string, len(m.toks))
		for i, t := range m.toks {
			p[i] = hex.EncodeToString(t.k) + "=" + hex.EncodeToString(t.v)
		}
		ts = strings.Join(p, ",")
	}
	return fmt.Sprintf("%d.%d/%d/%d/%s", m.mid, m.rid, m.size, m.doc, ts)
}

func fmtBulk(ms []meta) string {
	if len(ms) == 0 {
		return "-"
	}
	p := make([]string, len(ms))
	for i, m := range ms {
		p[i] = m.String()
	}
	return strings.Join(p, ";")
}

func fmtHistory(h [][]meta) string {
	if len(h) == 0 {
		return "_"
	}
	p := make([]string, len(h))
	for i, b := range h {
		p[i] = fmtBulk(b)
	}
	return strings.Join(p, "|")
}

func parseID(s string) (seq.ID, error) {
	p := strings.Split(s, ".")
	if len(p) != 2 {
		return seq.ID{}, fmt.Errorf("bad id %q", s)
	}
	a, e1 := strconv.ParseUint(p[0], 10, 64)
	b, e2 := strconv.ParseUint(p[1], 10, 64)
	if e1 != nil || e2 != nil {
		return seq.ID{}, fmt.Errorf("bad id %q", s)
	}
	return seq.ID{MID: seq.MID(a), RID: seq.RID(b)}, nil
}

func parseIDs(s string) ([]seq.ID, error) {
	if s == "-" || s == "" {
		return []seq.ID{}, nil
	}
	var res []seq.ID
	for _, p := range strings.Split(s, ",") {
		id, err := parseID(p)
		if err != nil {
			return nil, err
		}
		res = append(res, id)
	}
	return res, nil
}

func parseMeta(s string) (meta, error) {
	var m meta
	p := strings.Split(s, "/")
	if len(p) != 4 {
		return m, fmt.Errorf("bad meta %q", s)
	}
	id, err := parseID(p[0])
	if err != nil {
		return m, err
	}
	m.mid, m.rid = uint64(id.MID), uint64(id.RID)
	sz, e1 := strconv.ParseUint(p[1], 10, 32)
	d, e2 := strconv.Atoi(p[2])
	if e1 != nil || e2 != nil {
		return m, fmt.Errorf("bad meta %q", s)
	}
	m.size, m.doc = uint32(sz), d
	if p[3] != "-" {
		for _, t := range strings.Split(p[3], ",") {
			kv := strings.Split(t, "=")
			if len(kv) != 2 {
				return m, fmt.Errorf("bad token %q", t)
			}
			k, e1 := hex.DecodeString(kv[0])
			v, e2 := hex.DecodeString(kv[1])
			if e1 != nil || e2 != nil {
				return m, fmt.Errorf("bad token %q", t)
			}
			m.toks = append(m.toks, tok{k, v})
		}
	}
	return m, nil
}

func parseBulk(s string) ([]meta, error) {
	if s == "-" || s == "" {
		return nil, nil
	}
	var res []meta
	for _, p := range strings.Split(s, ";") {
		m, err := parseMeta(p)
		if err != nil {
			return nil, err
		}
		res = append(res, m)
	}
	return res, nil
}

func parseHistory(s string) ([][]meta, error) {
	if s == "_" || s == "" {
		return nil, nil
	}
	var res [][]meta
	for _, p := range strings.Split(s, "|") {
		b, err := parseBulk(p)
		if err != nil {
			return nil, err
		}
		res = append(res, b)
	}
	return res, nil
}

func (m meta) metaData() frac.MetaData {
	md := frac.MetaData{ID: m.id(), Size: m.size}
	for _, t := range m.toks {
		md.Tokens = append(md.Tokens, frac.MetaToken{Key: t.k, Value: t.v})
	}
	return md
}

// payload of a document: its identity is recoverable from the bytes, its length is exactly size
func payload(doc int, size uint32) []byte {
	head := fmt.Sprintf(`{"d":%d,"p":"`, doc)
	n := int(size) - len(head) - 2
	if n < 0 {
		panic(fmt.Sprintf("size %d too small for payload of doc %d", size, doc))
	}
	return []byte(head + strings.Repeat("x", n) + `"}`)
}

func payloadDoc(b []byte) string {
	if b == nil {
		return "n"
	}
	s := string(b)
	if !strings.HasPrefix(s, `{"d":`) {
		return "garbage"
	}
	s = s[5:]
	i := strings.IndexByte(s, ',')
	if i < 0 {
		return "garbage"
	}
	return s[:i]
}

const minPayload = 20 // len(`{"d":NNNN,"p":""}`) fits

// blocks builds the compressed docs and metas blocks of a bulk exactly as frac.DocProvider does
// ([len][doc] per document, [len][binary meta] per meta); nested metas (size 0) carry no document.
func blocks(ms []meta) ([]byte, []byte) {
	var docs, metas []byte
	for _, m := range ms {
		if m.size > 0 {
			p := payload(m.doc, m.size)
			docs = binary.LittleEndian.AppendUint32(docs, uint32(len(p)))
			docs = append(docs, p...)
		}
		md := m.metaData()
		b := md.MarshalBinaryTo(nil)
		metas = binary.LittleEndian.AppendUint32(metas, uint32(len(b)))
		metas = append(metas, b...)
	}
	c := frac.GetDocsMetasCompressor(-1, -1)
	c.CompressDocsAndMetas(docs, metas)
	d, m := c.DocsMetas()
	d, m = append([]byte(nil), d...), append([]byte(nil), m...)
	frac.PutDocMetasCompressor(c)
	return d, m
}

// ---------------------------------------------------------------- channel: collector

func hexList(bs [][]byte) string {
	if len(bs) == 0 {
		return "-"
	}
	p := make([]string, len(bs))
	for i, b := range bs {
		p[i] = hex.EncodeToString(b)
	}
	return strings.Join(p, ",")
}

// runCollector drives the real collector as appendWorker does; app == nil: no Filter; lids == nil: no grouping
func runCollector(block uint32, ms []meta, app []seq.ID, lids []uint32) (res string) {
	defer func() {
		if r := recover(); r != nil {
			if len(ms) > 0 && ms[0].size == 0 {
				res = "panic nested-first"
			} else {
				res = "panic other" // the model never panics here: shows up as a disagreement
			}
		}
	}()
	c := frac.VerifNewCollectorC17()
	c.Init(block)
	for _, m := range ms {
		c.AppendMeta(m.metaData())
	}
	if app != nil {
		c.Filter(app)
	}
	groups := "*"
	if lids != nil {
		gs := c.GroupLIDsByToken(lids)
		p := make([]string, len(gs))
		for i, g := range gs {
			p[i] = vh.JoinInts(g)
		}
		groups = vh.JoinStrs(p, ";")
	}
	s := c.State()
	pos := make([]uint64, len(s.Positions))
	for i, p := range s.Positions {
		pos[i] = uint64(p)
	}
	return fmt.Sprintf("ok min=%d max=%d docs=%d size=%d tv=%s fl=%s ids=%s tid=%s ti=%s pos=%s groups=%s",
		uint64(s.MinMID), uint64(s.MaxMID), s.DocsCounter, s.SizeCounter, hexList(s.TokensValues), vh.JoinInts(s.FieldsLengths),
		fmtIDs(s.IDs), vh.JoinInts(s.TokensInDocs), vh.JoinInts(s.TokensIndex), vh.JoinInts(pos), groups)
}

func collReq(block uint32, ms []meta, app []seq.ID, lids []uint32) string {
	a, l := "*", "*"
	if app != nil {
		a = fmtIDs(app)
	}
	if lids != nil {
		l = vh.JoinInts(lids)
	}
	return fmt.Sprintf("coll %d %s %s %s", block, fmtBulk(ms), a, l)
}

// keptCount: number of metas whose id is in app (what Filter keeps)
func keptCount(ms []meta, app []seq.ID) int {
	if app == nil {
		return len(ms)
	}
	set := map[seq.ID]bool{}
	for _, id := range app {
		set[id] = true
	}
	n := 0
	for _, m := range ms {
		if set[m.id()] {
			n++
		}
	}
	return n
}

func seqLIDs(start, n int) []uint32 {
	l := make([]uint32, n)
	for i := range l {
		l[i] = uint32(start + i)
	}
	return l
}

var tokChoices = [][]tok{
	{},
	{{[]byte("a"), []byte("1")}},
	{{[]byte("a"), []byte("1")}, {[]byte("b"), []byte("")}},
	{{[]byte("b"), []byte("")}, {[]byte("b"), []byte("")}},
	{{[]byte("c"), []byte("x:y")}, {[]byte("a"), []byte("1")}, {[]byte("_all_"), []byte("")}},
}

func addCollCase(ch *vh.Channel, block uint32, ms []meta, app []seq.ID, lids []uint32, tags ...string) {
	req := collReq(block, ms, app, lids)
	impl := runCollector(block, ms, app, lids)
	kept := keptCount(ms, app)
	nt := app != nil && kept > 0 && kept < len(ms)
	tags = append(tags, fmt.Sprintf("docs=%d", len(ms)), fmt.Sprintf("kept=%d", kept))
	if app == nil {
		tags = append(tags, "filter=no")
	} else {
		tags = append(tags, "filter=yes")
	}
	if strings.HasPrefix(impl, "panic") {
		tags = append(tags, "panic")
	}
	ch.Add(req, impl, nt, tags...)
}

// exhaustive small scope: n metas, every token choice per meta, every nested pattern, every subset of ids as `appended`
func collectorExhaustive(ch *vh.Channel, n int, sampleMod, sampleRes int) {
	nc := len(tokChoices)
	total := 1
	for i := 0; i < n; i++ {
		total *= nc
	}
	cnt := 0
	for tc := 0; tc < total; tc++ {
		for nested := 0; nested < 1<<(n-1); nested++ {
			ms := make([]meta, n)
			x := tc
			var distinct []seq.ID
			for i := 0; i < n; i++ {
				ms[i] = meta{mid: uint64(50 - 7*i + 20*(i%2)), rid: uint64(i + 1), size: uint32(minPayload + 3*i), doc: i + 1, toks: tokChoices[x%nc]}
				x /= nc
				if i > 0 && nested>>(i-1)&1 == 1 {
					ms[i].mid, ms[i].rid, ms[i].size, ms[i].doc = ms[i-1].mid, ms[i-1].rid, 0, 0
				} else {
					distinct = append(distinct, ms[i].id())
				}
			}
			for sub := 0; sub <= 1<<len(distinct); sub++ {
				cnt++
				if sampleMod > 1 && cnt%sampleMod != sampleRes {
					continue
				}
				var app []seq.ID
				if sub < 1<<len(distinct) {
					app = []seq.ID{}
					for i, id := range distinct {
						if sub>>i&1 == 1 {
							app = append(app, id)
						}
					}
				}
				lids := seqLIDs(5, keptCount(ms, app))
				addCollCase(ch, uint32(tc%3), ms, app, lids, "gen=exhaustive")
			}
		}
	}
}

func randToks(r *vh.RNG, maxN int) []tok {
	n := r.Intn(maxN + 1)
	var ts []tok
	for i := 0; i < n; i++ {
		k := []string{"a", "b", "service", "k8s_pod", ""}[r.Intn(5)]
		v := []string{"", "1", "2", "x:y", "zz"}[r.Intn(5)]
		ts = append(ts, tok{[]byte(k), []byte(v)})
	}
	return ts
}

func collectorRandom(ch *vh.Channel, r *vh.RNG, n int) {
	for i := 0; i < n; i++ {
		nd := r.Range(1, 12)
		var ms []meta
		var distinct []seq.ID
		for j := 0; j < nd; j++ {
			m := meta{mid: uint64(r.Range(1, 40)), rid: uint64(j + 1), size: uint32(r.Range(minPayload, 300)), doc: j + 1, toks: randToks(r, 4)}
			if j > 0 && r.Chance(1, 5) {
				m.mid, m.rid, m.size, m.doc = ms[j-1].mid, ms[j-1].rid, 0, 0
			} else {
				distinct = append(distinct, m.id())
			}
			ms = append(ms, m)
		}
		var app []seq.ID
		if !r.Chance(1, 6) {
			app = []seq.ID{}
			keepPct := []int{0, 30, 60, 90, 100}[r.Intn(5)]
			for _, id := range distinct {
				if r.Chance(keepPct, 100) {
					app = append(app, id)
				}
			}
		}
		if r.Chance(1, 40) { // first meta nested: Go panics
			ms[0].size = 0
		}
		addCollCase(ch, uint32(r.Intn(5)), ms, app, seqLIDs(r.Range(1, 100), keptCount(ms, app)), "gen=random")
	}
}

// ---------------------------------------------------------------- channel: ONE collector reused over many bulks

type reuseStep struct {
	block uint32
	ms    []meta
	app   []seq.ID // nil: no Filter
}

// runReuse drives ONE real collector through all steps, as an index worker does, and returns the per-step states
// plus how often the capacity of TokensValues / IDs dropped (= the ReallocSolver re-allocated).
func runReuse(steps []reuseStep) (res string, tvRealloc, idsRealloc int) {
	defer func() {
		if r := recover(); r != nil {
			res = fmt.Sprintf("panic %v", r)
		}
	}()
	c := frac.VerifNewCollectorC17()
	var parts []string
	prevIDs, _, prevTV := c.Caps()
	for _, st := range steps {
		c.Init(st.block)
		ci, _, ct := c.Caps()
		if ct < prevTV {
			tvRealloc++
		}
		if ci < prevIDs {
			idsRealloc++
		}
		for _, m := range st.ms {
			c.AppendMeta(m.metaData())
		}
		if st.app != nil {
			c.Filter(st.app)
		}
		s := c.State()
		gs := c.GroupLIDsByToken(seqLIDs(1, len(s.IDs)))
		p := make([]string, len(gs))
		for i, g := range gs {
			p[i] = vh.JoinInts(g)
		}
		pos := make([]uint64, len(s.Positions))
		for i, x := range s.Positions {
			pos[i] = uint64(x)
		}
		parts = append(parts, fmt.Sprintf("min=%d max=%d docs=%d size=%d tv=%s fl=%s ids=%s tid=%s ti=%s pos=%s groups=%s",
			uint64(s.MinMID), uint64(s.MaxMID), s.DocsCounter, s.SizeCounter, hexList(s.TokensValues), vh.JoinInts(s.FieldsLengths),
			fmtIDs(s.IDs), vh.JoinInts(s.TokensInDocs), vh.JoinInts(s.TokensIndex), vh.JoinInts(pos), vh.JoinStrs(p, ";")))
		prevIDs, _, prevTV = c.Caps()
	}
	return "ok " + strings.Join(parts, "#"), tvRealloc, idsRealloc
}

func reuseReq(r *vh.RNG, steps []reuseStep) string {
	p := make([]string, len(steps))
	prevHadTokens := false
	for i, st := range steps {
		// the model's theorem holds for every solver decision; pick them pseudo-randomly (re-allocating TokensValues
		// while it is empty divides by zero in Init - never asked for)
		dec := []byte("kkkk")
		for j := range dec {
			if r.Chance(1, 3) && (j != 3 || prevHadTokens) {
				dec[j] = 'r'
			}
		}
		app := "*"
		if st.app != nil {
			app = fmtIDs(st.app)
		}
		p[i] = fmt.Sprintf("%s@%d@%s@%s", dec, st.block, fmtBulk(st.ms), app)
		prevHadTokens = false
		for _, m := range st.ms {
			prevHadTokens = prevHadTokens || len(m.toks) > 0
		}
	}
	return "reuse " + strings.Join(p, "#")
}

// reuseDoc: document n of a long history; every fatEvery-th one carries fat extra distinct tokens
func reuseDoc(n, fatEvery, fat int) meta {
	m := meta{mid: uint64(100000 + n), rid: uint64(7000 + n), size: uint32(minPayload + n%7), doc: n}
	m.toks = []tok{{[]byte("_all_"), nil}, {[]byte("service"), []byte("long")}, {[]byte("n"), []byte(strconv.Itoa(n))}}
	if fatEvery > 0 && n%fatEvery == 0 {
		for k := 0; k < fat; k++ {
			m.toks = append(m.toks, tok{[]byte("tag"), []byte(fmt.Sprintf("t%d_%d", n, k))})
		}
	}
	return m
}

func addReuseCase(ch *vh.Channel, r *vh.RNG, steps []reuseStep, tags ...string) {
	req := reuseReq(r, steps)
	impl, tv, ids := runReuse(steps)
	filtered := 0
	for _, st := range steps {
		if st.app != nil {
			filtered++
		}
	}
	tags = append(tags, fmt.Sprintf("steps=%d", len(steps)), fmt.Sprintf("tv-reallocs=%d", tv), fmt.Sprintf("ids-reallocs=%d", ids))
	ch.Add(req, impl, tv > 0 && filtered > 0, tags...)
}

func reuseCases(ch *vh.Channel, r *vh.RNG, thorough bool) {
	n := 270
	if thorough {
		n = 450
	}
	// A. sliding retries: bulk n = [doc n-1 (already indexed), doc n (new)], Filter keeps doc n; every 15th document fat
	for _, fat := range []int{120, 400} {
		var steps []reuseStep
		for i := 1; i <= n; i++ {
			st := reuseStep{block: uint32(i - 1)}
			if i > 1 {
				st.ms = append(st.ms, reuseDoc(i-1, 15, fat))
			}
			st.ms = append(st.ms, reuseDoc(i, 15, fat))
			if i > 1 {
				st.app = []seq.ID{reuseDoc(i, 15, fat).id()}
			}
			steps = append(steps, st)
		}
		addReuseCase(ch, r, steps, "shape=sliding-retries", fmt.Sprintf("fat=%d", fat))
		if !thorough {
			break
		}
	}
	// B. one huge bulk (many ids, many tokens) first, then small ones with random re-deliveries and Filter subsets
	for rep := 0; rep < map[bool]int{false: 1, true: 3}[thorough]; rep++ {
		var steps []reuseStep
		next := 1
		var sent []int
		for i := 0; i < n; i++ {
			st := reuseStep{block: uint32(i)}
			cnt := r.Range(1, 3)
			if i == 0 || i == 230 {
				cnt = 150
			}
			var fresh []seq.ID
			for j := 0; j < cnt; j++ {
				if len(sent) > 0 && cnt < 10 && r.Chance(2, 5) {
					d := sent[len(sent)-1-r.Intn(min(len(sent), 4))]
					dup := false
					for _, m := range st.ms {
						dup = dup || m.doc == d
					}
					if !dup {
						st.ms = append(st.ms, reuseDoc(d, 40, 200))
						continue
					}
				}
				st.ms = append(st.ms, reuseDoc(next, 40, 200))
				fresh = append(fresh, reuseDoc(next, 40, 200).id())
				sent = append(sent, next)
				next++
			}
			if len(fresh) != len(st.ms) {
				st.app = fresh
				if st.app == nil {
					st.app = []seq.ID{}
				}
			}
			steps = append(steps, st)
		}
		addReuseCase(ch, r, steps, "shape=huge-then-small")
	}
}

// ---------------------------------------------------------------- channel: SetMultiple

func setMultipleCases(ch *vh.Channel, r *vh.RNG, n int) {
	for i := 0; i < n; i++ {
		dp := frac.NewSyncDocsPositions()
		nOld := r.Intn(5)
		var oldIDs []seq.ID
		var oldPos []seq.DocPos
		var dpS []string
		for j := 0; j < nOld; j++ {
			id := seq.ID{MID: seq.MID(r.Range(1, 6)), RID: seq.RID(r.Range(1, 2))}
			dup := false
			for _, o := range oldIDs {
				dup = dup || o == id
			}
			if dup {
				continue
			}
			b, off := uint32(r.Intn(2)), uint64(r.Intn(3)*10)
			oldIDs = append(oldIDs, id)
			oldPos = append(oldPos, seq.PackDocPos(b, off))
			dpS = append(dpS, fmt.Sprintf("%s@%d:%d", fmtID(id), b, off))
		}
		dp.SetMultiple(oldIDs, oldPos)
		nNew := r.Intn(7)
		var ids []seq.ID
		var pos []seq.DocPos
		var posS []string
		for j := 0; j < nNew; j++ {
			ids = append(ids, seq.ID{MID: seq.MID(r.Range(1, 6)), RID: seq.RID(r.Range(1, 2))})
			b, off := uint32(r.Intn(2)), uint64(r.Intn(3)*10)
			pos = append(pos, seq.PackDocPos(b, off))
			posS = append(posS, fmt.Sprintf("%d:%d", b, off))
		}
		app := dp.SetMultiple(ids, pos)
		// resulting map, sorted by id
		seen := map[seq.ID]bool{}
		var all []seq.ID
		for _, id := range append(append([]seq.ID{}, oldIDs...), ids...) {
			if !seen[id] {
				seen[id] = true
				all = append(all, id)
			}
		}
		sort.Slice(all, func(a, b int) bool { return idLess(all[a], all[b]) })
		var ents []string
		for _, id := range all {
			if p := dp.Get(id); p != seq.DocPosNotFound {
				ents = append(ents, fmt.Sprintf("%s@%d", fmtID(id), uint64(p)))
			}
		}
		req := fmt.Sprintf("setm %s %s %s", vh.JoinStrs(dpS, ","), fmtIDs(ids), vh.JoinStrs(posS, ","))
		impl := fmt.Sprintf("ok appended=%s dp=%s", fmtIDs(app), vh.JoinStrs(ents, ","))
		ch.Add(req, impl, len(app) > 0 && len(app) < len(ids), fmt.Sprintf("rejected=%d", len(ids)-len(app)))
	}
}

// ---------------------------------------------------------------- channel: real active fraction

type activeEnv struct {
	dir     string
	indexer *frac.ActiveIndexer
	limiter *disk.ReadLimiter
	n       int
}

func newActiveEnv() *activeEnv {
	dir, err := os.MkdirTemp("", "c17-active-")
	if err != nil {
		panic(err)
	}
	ai := frac.NewActiveIndexer(4, 4)
	ai.Start()
	return &activeEnv{dir: dir, indexer: ai, limiter: disk.NewReadLimiter(2, nil)}
}

func (e *activeEnv) close() {
	e.indexer.Stop()
	os.RemoveAll(e.dir)
}

func (e *activeEnv) newActive() *frac.Active {
	e.n++
	return frac.NewActive(filepath.Join(e.dir, fmt.Sprintf("f%d", e.n)), e.indexer, e.limiter,
		cache.NewCache[[]byte](nil, nil), cache.NewCache[[]byte](nil, nil), &frac.Config{})
}

// runActive feeds the history into a fresh real active fraction, bulk by bulk (each bulk fully indexed before the
// next one is sent: the linearisation the model describes) and prints the state the model talks about.
func runActive(e *activeEnv, h [][]meta, toks []tok, ids []seq.ID) string {
	a := e.newActive()
	defer a.Suicide()
	for _, b := range h {
		docs, metas := blocks(b)
		var wg sync.WaitGroup
		wg.Add(1)
		if err := a.Append(docs, metas, &wg); err != nil {
			return "err append"
		}
		wg.Wait()
	}
	return activeState(a, toks, ids)
}

func activeState(a *frac.Active, toks []tok, ids []seq.ID) string {
	mids, rids := a.MIDs.GetVals(), a.RIDs.GetVals()
	all := make([]seq.ID, len(mids))
	for i := range mids {
		all[i] = seq.ID{MID: seq.MID(mids[i]), RID: seq.RID(rids[i])}
	}
	info := a.Info()
	var q []string
	for _, t := range toks {
		l := a.VerifTokenLIDsC17(string(t.k), t.v)
		sort.Slice(l, func(i, j int) bool { return l[i] < l[j] })
		q = append(q, vh.JoinInts(l))
	}
	var pos, fe []string
	for _, id := range ids {
		if p := a.DocsPositions.GetSync(id); p == seq.DocPosNotFound {
			pos = append(pos, "n")
		} else {
			pos = append(pos, strconv.FormatUint(uint64(p), 10))
		}
	}
	if info.DocsTotal == 0 {
		for range ids {
			fe = append(fe, "n")
		}
	} else {
		dp, release := a.DataProvider(context.Background())
		docs, err := dp.Fetch(ids)
		release()
		if err != nil {
			return "err fetch"
		}
		for _, d := range docs {
			fe = append(fe, payloadDoc(d))
		}
	}
	return fmt.Sprintf("ok ids=%s total=%d raw=%d from=%d to=%d blocks=%d q=%s pos=%s fetch=%s", fmtIDs(all), info.DocsTotal, info.DocsRaw,
		uint64(info.From), uint64(info.To), a.DocBlocks.Len(), vh.JoinStrs(q, ";"), vh.JoinStrs(pos, ","), vh.JoinStrs(fe, ","))
}

// universe of documents with a fixed content per id (same id -> same content, as a retried bulk has)
type udoc struct {
	parent meta
	nested []meta
}

func genUniverse(r *vh.RNG, k int) []udoc {
	var u []udoc
	for i := 0; i < k; i++ {
		p := meta{mid: uint64(1000 + r.Intn(60)), rid: uint64(100 + i), size: uint32(r.Range(minPayload, 90)), doc: i + 1}
		p.toks = append(p.toks, tok{[]byte("_all_"), nil}, tok{[]byte("service"), []byte(fmt.Sprintf("s%d", r.Intn(3)))})
		if r.Bool() {
			p.toks = append(p.toks, tok{[]byte("level"), []byte(fmt.Sprintf("%d", r.Intn(2)))})
		}
		if r.Chance(1, 4) {
			p.toks = append(p.toks, p.toks[1]) // the same token twice in one document
		}
		d := udoc{parent: p}
		if r.Chance(1, 5) {
			for j := r.Range(1, 2); j > 0; j-- {
				d.nested = append(d.nested, meta{mid: p.mid, rid: p.rid, size: 0, doc: 0,
					toks: []tok{{[]byte("_all_"), nil}, {[]byte("spans.k"), []byte(fmt.Sprintf("n%d", r.Intn(3)))}}})
			}
		}
		u = append(u, d)
	}
	return u
}

func bulkOf(u []udoc, idx []int) []meta {
	var b []meta
	for _, i := range idx {
		b = append(b, u[i].parent)
		b = append(b, u[i].nested...)
	}
	return b
}

// genHistory: bulks of distinct documents; later bulks re-send arbitrary subsets of earlier documents
func genHistory(r *vh.RNG, k, nb int) ([][]int, string) {
	var h [][]int
	var sent []int
	kind := "mixed"
	for b := 0; b < nb; b++ {
		var idx []int
		switch {
		case len(h) > 0 && r.Chance(1, 4): // whole-bulk repeat
			idx = append(idx, h[r.Intn(len(h))]...)
			kind = "with-whole-repeat"
		default:
			perm := r.Perm(k)
			n := r.Range(0, min(k, 5))
			for _, i := range perm[:n] {
				idx = append(idx, i)
			}
		}
		h = append(h, idx)
		sent = append(sent, idx...)
	}
	return h, kind
}

func histTags(h [][]int) (repeats int, tags []string) {
	seen := map[int]int{}
	partial := false
	for _, b := range h {
		dup, fresh := 0, 0
		for _, i := range b {
			if seen[i] > 0 {
				dup++
			} else {
				fresh++
			}
		}
		for _, i := range b {
			seen[i]++
		}
		repeats += dup
		if dup > 0 && fresh > 0 {
			partial = true
		}
		if dup > 0 && fresh == 0 {
			tags = append(tags, "bulk=all-known")
		}
	}
	if partial {
		tags = append(tags, "bulk=partial-overlap")
	}
	for _, c := range seen {
		if c > 2 {
			tags = append(tags, "doc-sent-3+-times")
			break
		}
	}
	return repeats, tags
}

// active cases are queued and executed in a child process: a panic inside an index worker goroutine must be an
// observation, not the end of the harness
type activeCase struct {
	ch         *vh.Channel
	req        string
	nontrivial bool
	tags       []string
}

var activeQueue []activeCase

func activeCases(ch *vh.Channel, e *activeEnv, r *vh.RNG, n int) {
	for i := 0; i < n; i++ {
		k := r.Range(1, 7)
		u := genUniverse(r, k)
		hi, kind := genHistory(r, k, r.Range(1, 5))
		var h [][]meta
		for _, idx := range hi {
			h = append(h, bulkOf(u, idx))
		}
		addActiveCase(ch, e, h, kind, hi)
	}
}

func addActiveCase(ch *vh.Channel, e *activeEnv, h [][]meta, kind string, hi [][]int) {
	// query every token and id that occurs, plus an unknown one of each
	var toks []tok
	var ids []seq.ID
	seenT, seenI := map[string]bool{}, map[seq.ID]bool{}
	for _, b := range h {
		for _, m := range b {
			if !seenI[m.id()] {
				seenI[m.id()] = true
				ids = append(ids, m.id())
			}
			for _, t := range m.toks {
				key := string(t.k) + ":" + string(t.v)
				if !seenT[key] {
					seenT[key] = true
					toks = append(toks, t)
				}
			}
		}
	}
	toks = append(toks, tok{[]byte("nosuch"), []byte("token")})
	ids = append(ids, seq.ID{MID: 7, RID: 7})
	var tq []string
	for _, t := range toks {
		tq = append(tq, hex.EncodeToString(append(append(append([]byte{}, t.k...), ':'), t.v...)))
	}
	req := fmt.Sprintf("hist %s %s %s", fmtHistory(h), strings.Join(tq, ","), fmtIDs(ids))
	rep, tags := 0, []string{"kind=" + kind}
	if hi != nil {
		var t2 []string
		rep, t2 = histTags(hi)
		tags = append(tags, t2...)
	} else {
		rep = 1
	}
	tags = append(tags, fmt.Sprintf("bulks=%d", len(h)))
	activeQueue = append(activeQueue, activeCase{ch, req, rep > 0, tags})
}

// queryOf: every token and id of the bulks plus an unknown one of each, as driver arguments
func queryOf(h [][]meta) (string, string) {
	var tq []string
	var ids []seq.ID
	seenT, seenI := map[string]bool{}, map[seq.ID]bool{}
	for _, b := range h {
		for _, m := range b {
			if !seenI[m.id()] {
				seenI[m.id()] = true
				ids = append(ids, m.id())
			}
			for _, t := range m.toks {
				key := string(t.k) + ":" + string(t.v)
				if !seenT[key] {
					seenT[key] = true
					tq = append(tq, hex.EncodeToString([]byte(key)))
				}
			}
		}
	}
	tq = append(tq, hex.EncodeToString([]byte("nosuch:token")))
	ids = append(ids, seq.ID{MID: 7, RID: 7})
	return strings.Join(tq, ","), fmtIDs(ids)
}

// concurrent schedules: the bulks of a history are started in order, up to 3 index workers are held after
// SetMultiple/Filter and published in a random order
func concCases(ch *vh.Channel, r *vh.RNG, n int) {
	for i := 0; i < n; i++ {
		k := r.Range(1, 6)
		u := genUniverse(r, k)
		hi, kind := genHistory(r, k, r.Range(1, 5))
		var h [][]meta
		for _, idx := range hi {
			if len(idx) == 0 {
				continue // an empty bulk has no metas: the worker still passes the point, keep schedules simple
			}
			h = append(h, bulkOf(u, idx))
		}
		if len(h) == 0 {
			continue
		}
		var evs []cev
		pending, next, reordered := 0, 0, false
		for next < len(h) || pending > 0 {
			if next < len(h) && pending < 3 && (pending == 0 || r.Bool()) {
				evs = append(evs, cev{start: true, bulk: h[next]})
				next++
				pending++
			} else {
				kk := r.Intn(pending)
				if kk > 0 {
					reordered = true
				}
				evs = append(evs, cev{k: kk})
				pending--
			}
		}
		tq, ids := queryOf(h)
		rep, tags := histTags(hi)
		tags = append(tags, "kind="+kind, fmt.Sprintf("bulks=%d", len(h)), fmt.Sprintf("reordered=%v", reordered))
		activeQueue = append(activeQueue, activeCase{ch, fmt.Sprintf("conc %s %s %s", fmtEvs(evs), tq, ids), rep > 0 && reordered, tags})
	}
}

// activeChildLine: "hist <history> <tokens> <ids>" -> state line of a real active fraction
func activeChildLine(e *activeEnv, line string) string {
	f := strings.Fields(line)
	if len(f) != 4 || (f[0] != "hist" && f[0] != "conc") {
		return "bad-op"
	}
	var h [][]meta
	var evs []cev
	var err error
	if f[0] == "hist" {
		if h, err = parseHistory(f[1]); err != nil {
			return "bad-op"
		}
	} else {
		for _, p := range strings.Split(f[1], "|") {
			switch {
			case strings.HasPrefix(p, "S"):
				b, err := parseBulk(p[1:])
				if err != nil {
					return "bad-op"
				}
				evs = append(evs, cev{start: true, bulk: b})
			case strings.HasPrefix(p, "F"):
				k, err := strconv.Atoi(p[1:])
				if err != nil {
					return "bad-op"
				}
				evs = append(evs, cev{k: k})
			default:
				return "bad-op"
			}
		}
	}
	var toks []tok
	for _, hx := range strings.Split(f[2], ",") {
		b, err := hex.DecodeString(hx)
		if err != nil {
			return "bad-op"
		}
		i := bytes.IndexByte(b, ':')
		if i < 0 {
			return "bad-op"
		}
		toks = append(toks, tok{b[:i], b[i+1:]})
	}
	ids, err := parseIDs(f[3])
	if err != nil {
		return "bad-op"
	}
	if f[0] == "conc" {
		return runActiveConc(e, evs, toks, ids)
	}
	return runActive(e, h, toks, ids)
}

// one event of a concurrent schedule: start a bulk (its index worker is held right after SetMultiple / Filter, at
// the observation point c07.aidx.pos) or let the k-th held worker publish its collector
type cev struct {
	start bool
	bulk  []meta
	k     int
}

func fmtEvs(evs []cev) string {
	p := make([]string, len(evs))
	for i, e := range evs {
		if e.start {
			p[i] = "S" + fmtBulk(e.bulk)
		} else {
			p[i] = fmt.Sprintf("F%d", e.k)
		}
	}
	return strings.Join(p, "|")
}

// runActiveConc forces the schedule on a real active fraction: bulks are started one at a time, each worker blocks at
// the point after SetMultiple/Filter until the schedule publishes it.
func runActiveConc(e *activeEnv, evs []cev, toks []tok, ids []seq.ID) string {
	a := e.newActive()
	defer a.Suicide()
	arrive := make(chan chan struct{}, 16)
	done := make(chan struct{}, 16)
	verifhook.Set(func(name, _ string, _ []int64) {
		switch name {
		case "c07.aidx.pos":
			rel := make(chan struct{})
			arrive <- rel
			<-rel
		case "c07.aidx.done":
			done <- struct{}{}
		}
	})
	defer verifhook.Set(nil)
	var pending []chan struct{}
	var wg sync.WaitGroup
	for _, ev := range evs {
		if ev.start {
			docs, metas := blocks(ev.bulk)
			wg.Add(1)
			if err := a.Append(docs, metas, &wg); err != nil {
				return "err append"
			}
			select {
			case rel := <-arrive:
				pending = append(pending, rel)
			case <-time.After(20 * time.Second):
				return "err worker did not reach the point after SetMultiple"
			}
		} else if ev.k < len(pending) {
			close(pending[ev.k])
			pending = append(pending[:ev.k:ev.k], pending[ev.k+1:]...)
			select {
			case <-done:
			case <-time.After(20 * time.Second):
				return "err worker did not finish"
			}
		}
	}
	left := len(pending)
	if left > 0 {
		return "err schedule leaves workers blocked" // generator never does this
	}
	wg.Wait()
	return strings.Replace(activeState(a, toks, ids), "ok ", fmt.Sprintf("ok pending=%d ", left), 1)
}

// flushActive runs the queued cases in a child process and feeds the channel; a history on which the child dies
// twice is an implementation answer "died" (and, when it re-delivers documents, a violation of the property)
func flushActive(rep *vh.Report) {
	pending := activeQueue
	activeQueue = nil
	for len(pending) > 0 {
		lines := make([]string, len(pending))
		for i, c := range pending {
			lines[i] = c.req
		}
		res, errTail := runChild("active", lines, time.Duration(60+len(lines)/5)*time.Second)
		died := -1
		for i, r := range res {
			if r == "" {
				died = i
				break
			}
			pending[i].ch.Add(pending[i].req, r, pending[i].nontrivial, pending[i].tags...)
		}
		if died < 0 {
			return
		}
		c := pending[died]
		r2, tail2 := runChild("active", []string{c.req}, 60*time.Second)
		if r2[0] == "" {
			c.ch.Add(c.req, "died", c.nontrivial, append(c.tags, "child-died")...)
			if c.nontrivial {
				rep.Violate(vh.Violation{Site: "frac/active_indexer.go:appendWorker", Class: "crash-on-redelivery",
					What: "indexing this history kills the process (twice): " + strings.ReplaceAll(tail2+errTail, "\n", " "), Replay: []string{c.req}})
			}
		} else {
			c.ch.Add(c.req, r2[0], c.nontrivial, c.tags...)
		}
		pending = pending[died+1:]
	}
}

// ---------------------------------------------------------------- channel: repetitions / MergeQPRs

func fmtSrcs(ids seq.IDSources) string {
	if len(ids) == 0 {
		return "-"
	}
	p := make([]string, len(ids))
	for i, s := range ids {
		p[i] = fmt.Sprintf("%s:%d", fmtID(s.ID), s.Source)
	}
	return strings.Join(p, ",")
}

func fmtHist(h map[seq.MID]uint64) string {
	if len(h) == 0 {
		return "-"
	}
	ks := make([]uint64, 0, len(h))
	for k := range h {
		ks = append(ks, uint64(k))
	}
	sort.Slice(ks, func(i, j int) bool { return ks[i] < ks[j] })
	p := make([]string, len(ks))
	for i, k := range ks {
		p[i] = fmt.Sprintf("%d:%d", k, h[seq.MID(k)])
	}
	return strings.Join(p, ",")
}

func repCase(ch *vh.Channel, ids seq.IDSources, hist map[seq.MID]uint64, iv uint64, tags ...string) {
	req := fmt.Sprintf("rep %d %s %s", iv, fmtSrcs(ids), fmtHist(hist))
	in := append(seq.IDSources{}, ids...)
	h := map[seq.MID]uint64{}
	for k, v := range hist {
		h[k] = v
	}
	out, removed := seq.VerifRemoveRepetitionsAdvancedC17(in, h, seq.MID(iv))
	// the model prints the buckets of the input histogram and of every id (interval > 0)
	if iv > 0 {
		for _, s := range ids {
			b := s.ID.MID - s.ID.MID%seq.MID(iv)
			if _, ok := h[b]; !ok {
				h[b] = 0
			}
		}
	}
	impl := fmt.Sprintf("ok ids=%s removed=%d hist=%s", fmtSrcs(out), removed, fmtHist(h))
	ch.Add(req, impl, removed > 0, append(tags, fmt.Sprintf("removed=%d", removed))...)
}

func repetitionCases(ch *vh.Channel, r *vh.RNG, maxLen int, nRandom int) {
	// exhaustive: every non-decreasing sequence over 3 ids (two of them in the same bucket) up to maxLen, intervals 0 and 10
	pool := []seq.ID{{MID: 12, RID: 1}, {MID: 12, RID: 2}, {MID: 25, RID: 1}}
	var rec func(cur []int)
	rec = func(cur []int) {
		if len(cur) > 0 || true {
			for _, iv := range []uint64{0, 10} {
				var ids seq.IDSources
				hist := map[seq.MID]uint64{}
				for i, c := range cur {
					ids = append(ids, seq.IDSource{ID: pool[c], Source: uint64(i)})
					hist[pool[c].MID-pool[c].MID%10]++
				}
				repCase(ch, ids, hist, iv, "gen=exhaustive")
			}
		}
		if len(cur) == maxLen {
			return
		}
		lo := 0
		if len(cur) > 0 {
			lo = cur[len(cur)-1]
		}
		for c := lo; c < len(pool); c++ {
			rec(append(append([]int{}, cur...), c))
		}
	}
	rec(nil)
	for i := 0; i < nRandom; i++ {
		n := r.Intn(12)
		var ids seq.IDSources
		hist := map[seq.MID]uint64{}
		iv := uint64([]int{0, 1, 7, 10, 100}[r.Intn(5)])
		for j := 0; j < n; j++ {
			id := seq.ID{MID: seq.MID(r.Range(1, 30)), RID: seq.RID(r.Range(1, 2))}
			ids = append(ids, seq.IDSource{ID: id, Source: uint64(r.Intn(3))})
			if iv > 0 {
				hist[id.MID-id.MID%seq.MID(iv)] += uint64(r.Range(1, 2))
			}
		}
		if r.Bool() {
			sort.Sort(ids)
		} else {
			sort.Sort(sort.Reverse(ids))
		}
		repCase(ch, ids, hist, iv, "gen=random")
	}
}

func mergeCases(ch *vh.Channel, r *vh.RNG, n int) {
	for i := 0; i < n; i++ {
		nq := r.Range(1, 4)
		iv := uint64([]int{0, 10, 10, 25}[r.Intn(4)])
		limit := []int{0, 1, 3, 100}[r.Intn(4)]
		asc := r.Bool()
		withTotal := r.Chance(3, 4)
		var qprs []*seq.QPR
		var qs []string
		overlap := false
		seen := map[seq.ID]bool{}
		for q := 0; q < nq; q++ {
			qpr := &seq.QPR{}
			if iv > 0 {
				qpr.Histogram = map[seq.MID]uint64{}
			}
			nid := r.Intn(6)
			own := map[seq.ID]bool{}
			for j := 0; j < nid; j++ {
				id := seq.ID{MID: seq.MID(r.Range(1, 40)), RID: seq.RID(r.Range(1, 2))}
				if own[id] {
					continue // a fraction lists an id once (c17_ids_nodup)
				}
				own[id] = true
				if seen[id] {
					overlap = true
				}
				qpr.IDs = append(qpr.IDs, seq.IDSource{ID: id, Source: uint64(q)})
				if iv > 0 {
					qpr.Histogram[id.MID-id.MID%seq.MID(iv)]++
				}
			}
			for id := range own {
				seen[id] = true
			}
			if withTotal {
				qpr.Total = uint64(len(qpr.IDs))
			}
			qs = append(qs, fmt.Sprintf("%d/%s/%s", qpr.Total, fmtSrcs(qpr.IDs), fmtHist(qpr.Histogram)))
			qprs = append(qprs, qpr)
		}
		dst := &seq.QPR{}
		order := seq.DocsOrderDesc
		if asc {
			order = seq.DocsOrderAsc
		}
		seq.MergeQPRs(dst, qprs, limit, seq.MID(iv), order)
		h := map[seq.MID]uint64{}
		for k, v := range dst.Histogram {
			h[k] = v
		}
		req := fmt.Sprintf("merge %s %d %d %s", vh.B(asc), limit, iv, strings.Join(qs, "|"))
		impl := fmt.Sprintf("ok ids=%s total=%d hist=%s", fmtIDs(dst.IDs.IDs()), dst.Total, fmtHist(h))
		ch.Add(req, impl, overlap, fmt.Sprintf("overlap=%v", overlap), fmt.Sprintf("limit=%d", limit), fmt.Sprintf("interval=%d", iv))
	}
}

// ---------------------------------------------------------------- system oracle (child process)

type sysCase struct {
	k   int      // number of documents in the universe
	ops []string // B<i.j.k>  C<n>:<i.j.k>  S  R
	// long histories (`sysl`): ONE index worker (its collector is reused for every bulk, the ReallocSolvers fire after
	// 200 bulks), every fat-th document carries fatToks extra tokens, checks only after S / R / every 60th op / the end
	long bool
	fat  int
	// real-time ids (`sysr`): MIDs around the wall clock of the run - pairs of documents share a millisecond (several
	// RIDs per MID), every third pair is a LATE delivery 20..120 minutes older than the fraction that receives it (such
	// a fraction gets a time-occupancy map when sealed); ids found by search are also fetched WITH the search's hints
	rt bool
	// big fetch (`sysb`): documents of `big` bytes; op `F` = ONE store-API Fetch request (real GrpcV1.Fetch, its docs
	// stream and batch loader) with all delivered ids; only the F ops are checked
	big int
}

const fatToks = 400

var sysFatEvery = 0  // set by runSys for the case at hand
var sysBigSize = 0   // != 0: size of every document (set by runSys)
var sysRTBase uint64 // != 0: real-time ids relative to this wall-clock millisecond (set by runSys)

func (c sysCase) String() string {
	if c.long {
		return fmt.Sprintf("sysl docs=%d fat=%d ops=%s", c.k, c.fat, strings.Join(c.ops, ";"))
	}
	if c.rt {
		return fmt.Sprintf("sysr docs=%d ops=%s", c.k, strings.Join(c.ops, ";"))
	}
	if c.big > 0 {
		return fmt.Sprintf("sysb docs=%d size=%d ops=%s", c.k, c.big, strings.Join(c.ops, ";"))
	}
	return fmt.Sprintf("sys docs=%d ops=%s", c.k, strings.Join(c.ops, ";"))
}

func parseSys(line string) (sysCase, error) {
	var c sysCase
	var ops string
	if strings.HasPrefix(line, "sysl ") {
		c.long = true
		if _, err := fmt.Sscanf(line, "sysl docs=%d fat=%d ops=%s", &c.k, &c.fat, &ops); err != nil {
			return c, err
		}
		c.ops = strings.Split(ops, ";")
		return c, nil
	}
	if strings.HasPrefix(line, "sysb ") {
		if _, err := fmt.Sscanf(line, "sysb docs=%d size=%d ops=%s", &c.k, &c.big, &ops); err != nil {
			return c, err
		}
		c.ops = strings.Split(ops, ";")
		return c, nil
	}
	if strings.HasPrefix(line, "sysr ") {
		c.rt = true
		if _, err := fmt.Sscanf(line, "sysr docs=%d ops=%s", &c.k, &ops); err != nil {
			return c, err
		}
		c.ops = strings.Split(ops, ";")
		return c, nil
	}
	if _, err := fmt.Sscanf(line, "sys docs=%d ops=%s", &c.k, &ops); err != nil {
		return c, err
	}
	c.ops = strings.Split(ops, ";")
	return c, nil
}

func idxList(s string) []int {
	var r []int
	if s == "" || s == "-" {
		return r
	}
	for _, p := range strings.Split(s, ".") {
		if ab := strings.SplitN(p, "-", 2); len(ab) == 2 { // a-b: the range a..b
			a, _ := strconv.Atoi(ab[0])
			b, _ := strconv.Atoi(ab[1])
			for v := a; v <= b; v++ {
				r = append(r, v)
			}
			continue
		}
		v, _ := strconv.Atoi(p)
		r = append(r, v)
	}
	return r
}

func joinIdx(idx []int) string {
	if len(idx) == 0 {
		return "-"
	}
	p := make([]string, len(idx))
	for i, v := range idx {
		p[i] = strconv.Itoa(v)
	}
	return strings.Join(p, ".")
}

// document i of the system oracle's universe
func sysDoc(i int) meta {
	m := meta{mid: uint64(1000 + 3*i), rid: uint64(500 + i), doc: i + 1, size: uint32(minPayload + 4 + 5*(i%4))}
	if sysBigSize != 0 {
		m.size = uint32(sysBigSize + i%7)
	}
	if sysRTBase != 0 {
		g := uint64(i / 2) // documents 2g and 2g+1 share their millisecond
		switch g % 3 {
		case 0:
			m.mid = sysRTBase - 5*g
		case 1: // late delivery: 20..119 minutes old
			m.mid = sysRTBase - (20+(g*37)%100)*60_000 - g
		default:
			m.mid = sysRTBase - 1 - 3*g
		}
	}
	m.toks = []tok{{[]byte("_all_"), nil}, {[]byte("service"), []byte(fmt.Sprintf("s%d", i%3))},
		{[]byte("level"), []byte(fmt.Sprintf("%d", i%2))}, {[]byte("k8s_pod"), []byte(fmt.Sprintf("p%d", i))}}
	if sysFatEvery > 0 && i%sysFatEvery == sysFatEvery-1 {
		for k := 0; k < fatToks; k++ {
			m.toks = append(m.toks, tok{[]byte("traceID"), []byte(fmt.Sprintf("t%d_%d", i, k))})
		}
	}
	return m
}

func genSys(r *vh.RNG, maxDocs int) (sysCase, []string) {
	c := sysCase{k: r.Range(2, maxDocs)}
	nops := r.Range(2, 7)
	var sent [][]int
	tags := []string{}
	sealed := false
	for o := 0; o < nops; o++ {
		x := r.Intn(20)
		switch {
		case x < 2 && len(sent) > 0:
			c.ops = append(c.ops, "S")
			sealed = true
			tags = append(tags, "op=seal")
		case x < 4 && len(sent) > 0:
			c.ops = append(c.ops, "R")
			tags = append(tags, "op=restart")
		case x < 8 && len(sent) > 0: // whole repeat
			b := sent[r.Intn(len(sent))]
			if r.Chance(1, 3) {
				c.ops = append(c.ops, fmt.Sprintf("C%d:%s", r.Range(2, 4), joinIdx(b)))
				tags = append(tags, "op=concurrent-repeat")
			} else {
				c.ops = append(c.ops, "B"+joinIdx(b))
				tags = append(tags, "op=whole-repeat")
			}
			sent = append(sent, b)
		default:
			perm := r.Perm(c.k)
			b := perm[:r.Range(1, min(c.k, 6))]
			c.ops = append(c.ops, "B"+joinIdx(b))
			sent = append(sent, append([]int{}, b...))
		}
	}
	if r.Chance(2, 3) {
		c.ops = append(c.ops, "S")
		tags = append(tags, "op=seal")
		if r.Bool() {
			c.ops = append(c.ops, "R")
			tags = append(tags, "op=restart")
		}
	}
	_ = sealed
	return c, tags
}

type sysStore struct {
	dir      string
	fm       *fracmanager.FracManager
	searcher *fracmanager.Searcher
	pager    *fracmanager.Searcher // one fraction per iteration: the limit is re-computed between fractions
	fetcher  *fracmanager.Fetcher
	fetch1   *fracmanager.Fetcher // ONE fetch worker: fractions are asked one after the other
	fetchN   *fracmanager.Fetcher // more workers than fractions
}

// sorted doc blocks of a sealed fraction hold about two documents: every sealed fraction has several blocks
const sysDocBlockSize = 64

func openStore(dir string) (*sysStore, error) {
	fm := fracmanager.NewFracManager(&fracmanager.Config{
		FracSize: 1 << 30, TotalSize: 1 << 34, ShouldReplay: true, DataDir: dir,
		MaintenanceDelay: time.Hour,
		SealParams:       frac.SealParams{DocBlockSize: sysDocBlockSize},
	})
	if err := fm.Load(context.Background()); err != nil {
		return nil, err
	}
	fm.Start()
	return &sysStore{dir: dir, fm: fm, searcher: fracmanager.NewSearcher(2, fracmanager.SearcherCfg{}),
		pager: fracmanager.NewSearcher(2, fracmanager.SearcherCfg{FractionsPerIteration: 1}), fetcher: fracmanager.NewFetcher(2),
		fetch1: fracmanager.NewFetcher(1), fetchN: fracmanager.NewFetcher(64)}, nil
}

type sysViolation struct{ class, what string }

const sysInterval = 10

// checkStore compares every observation with the set-semantics reference for the delivered set `have`.
// crossFraction: some repeat landed in a fraction other than the one holding the document - then only listing
// and fetch are required to be exact (and total / histogram, which MergeQPRs corrects for listed ids); the
// aggregation and the per-fraction DocsTotal are not.
func checkStore(s *sysStore, k int, have map[int]bool, crossFraction bool, stage string) *sysViolation {
	ctx := context.Background()
	fracs := s.fm.GetAllFracs()
	queries := []struct {
		q     string
		match func(i int) bool
	}{
		{"service:s0", func(i int) bool { return i%3 == 0 }},
		{"level:1", func(i int) bool { return i%2 == 1 }},
		{"service:s1 or service:s2", func(i int) bool { return i%3 != 0 }},
	}
	for _, qu := range queries {
		ast, err := parser.ParseQuery(qu.q, seq.TestMapping)
		if err != nil {
			return &sysViolation{"harness", "cannot parse " + qu.q + ": " + err.Error()}
		}
		for _, asc := range []bool{false, true} {
			order := seq.DocsOrderDesc
			if asc {
				order = seq.DocsOrderAsc
			}
			params := processor.SearchParams{AST: ast, From: 0, To: seq.MID(math.MaxInt64), Limit: 1000, WithTotal: true, Order: order,
				HistInterval: sysInterval,
				AggQ:         []processor.AggQuery{{GroupBy: &parser.Literal{Field: "service", Terms: []parser.Term{{Kind: parser.TermSymbol, Data: "*"}}}, Func: seq.AggFuncCount}}}
			qpr, err := s.searcher.SearchDocs(ctx, fracs, params)
			if err != nil {
				return &sysViolation{"search-error", fmt.Sprintf("%s: query %q: %v", stage, qu.q, err)}
			}
			var exp []seq.ID
			expHist := map[uint64]uint64{}
			expAgg := map[string]int64{}
			for i := 0; i < k; i++ {
				if have[i] && qu.match(i) {
					d := sysDoc(i)
					exp = append(exp, d.id())
					expHist[d.mid-d.mid%sysInterval]++
					expAgg[fmt.Sprintf("s%d", i%3)]++
				}
			}
			sort.Slice(exp, func(a, b int) bool {
				if asc {
					return idLess(exp[a], exp[b])
				}
				return idLess(exp[b], exp[a])
			})
			got := qpr.IDs.IDs()
			if fmtIDs(got) != fmtIDs(exp) {
				cnt := map[seq.ID]int{}
				cls := "listing-wrong"
				for _, id := range got {
					cnt[id]++
					if cnt[id] > 1 {
						cls = "listed-twice"
					}
				}
				return &sysViolation{cls, fmt.Sprintf("%s: query %q asc=%v lists %s, expected %s", stage, qu.q, asc, fmtIDs(got), fmtIDs(exp))}
			}
			if qpr.Total != uint64(len(exp)) {
				return &sysViolation{"total-counts-repeats", fmt.Sprintf("%s: query %q total %d, expected %d", stage, qu.q, qpr.Total, len(exp))}
			}
			gh := map[uint64]uint64{}
			for b, c := range qpr.Histogram {
				if c != 0 {
					gh[uint64(b)] = c
				}
			}
			if fmt.Sprint(gh) != fmt.Sprint(expHist) {
				return &sysViolation{"histogram-counts-repeats", fmt.Sprintf("%s: query %q histogram %v, expected %v", stage, qu.q, gh, expHist)}
			}
			if !crossFraction {
				ga := map[string]int64{}
				if len(qpr.Aggs) == 1 {
					for bin, sc := range qpr.Aggs[0].SamplesByBin {
						if sc.Total != 0 {
							ga[bin.Token] += sc.Total
						}
					}
				}
				if fmt.Sprint(ga) != fmt.Sprint(expAgg) {
					return &sysViolation{"aggregation-counts-repeats", fmt.Sprintf("%s: query %q aggregation %v, expected %v", stage, qu.q, ga, expAgg)}
				}
			}
		}
	}
	// paged listing (no total / histogram / aggregation: the searcher stops as soon as the page is ensured), one
	// fraction per iteration, every page size, both orders: the page is the top-k of the de-duplicated union
	{
		ast, err := parser.ParseQuery("service:s0 or service:s1 or service:s2", seq.TestMapping)
		if err != nil {
			return &sysViolation{"harness", "cannot parse paging query: " + err.Error()}
		}
		var all []seq.ID
		for i := 0; i < k; i++ {
			if have[i] {
				all = append(all, sysDoc(i).id())
			}
		}
		sizes := []int{}
		for sz := 1; sz <= len(all)+1 && sz <= 14; sz++ {
			sizes = append(sizes, sz)
		}
		if len(all) > 14 {
			sizes = append(sizes, len(all)/2, len(all)-1, len(all), len(all)+1)
		}
		for _, asc := range []bool{false, true} {
			order := seq.DocsOrderDesc
			if asc {
				order = seq.DocsOrderAsc
			}
			sort.Slice(all, func(a, b int) bool {
				if asc {
					return idLess(all[a], all[b])
				}
				return idLess(all[b], all[a])
			})
			for _, sz := range sizes {
				for pi, sr := range []*fracmanager.Searcher{s.pager, s.searcher} {
					qpr, err := sr.SearchDocs(ctx, fracs, processor.SearchParams{AST: ast, From: 0, To: seq.MID(math.MaxInt64), Limit: sz, Order: order})
					if err != nil {
						return &sysViolation{"search-error", fmt.Sprintf("%s: paged search size %d: %v", stage, sz, err)}
					}
					exp := all[:min(sz, len(all))]
					if got := qpr.IDs.IDs(); fmtIDs(got) != fmtIDs(exp) {
						return &sysViolation{"page-wrong", fmt.Sprintf("%s: page of size %d asc=%v (fractions per iteration: %s) lists %s, expected %s",
							stage, sz, asc, []string{"1", "all"}[pi], fmtIDs(got), fmtIDs(exp))}
					}
				}
			}
		}
	}
	// fetch WITH the hints of a wide search: every listed id is fetched from the fraction the search named
	{
		ast, err := parser.ParseQuery("service:s0 or service:s1 or service:s2", seq.TestMapping)
		if err != nil {
			return &sysViolation{"harness", "cannot parse query: " + err.Error()}
		}
		for _, sr := range []*fracmanager.Searcher{s.pager, s.searcher} {
			qpr, err := sr.SearchDocs(ctx, fracs, processor.SearchParams{AST: ast, From: 0, To: seq.MID(math.MaxInt64), Limit: 100000, Order: seq.DocsOrderDesc})
			if err != nil {
				return &sysViolation{"search-error", fmt.Sprintf("%s: wide search: %v", stage, err)}
			}
			if len(qpr.IDs) == 0 {
				continue
			}
			byID := map[seq.ID]int{}
			for i := 0; i < k; i++ {
				byID[sysDoc(i).id()] = i
			}
			for _, ft := range []*fracmanager.Fetcher{s.fetch1, s.fetchN} {
				got, err := ft.FetchDocs(ctx, fracs, qpr.IDs)
				if err != nil {
					return &sysViolation{"fetch-error", fmt.Sprintf("%s: fetch with the hints of the search: %v", stage, err)}
				}
				for j, src := range qpr.IDs {
					i, ok := byID[src.ID]
					if !ok {
						return &sysViolation{"listing-wrong", fmt.Sprintf("%s: search lists unknown id %s", stage, fmtID(src.ID))}
					}
					d := sysDoc(i)
					if exp := payload(d.doc, d.size); !bytes.Equal(got[j], exp) {
						return &sysViolation{"fetch-with-hint-fails", fmt.Sprintf("%s: document %d (%s), listed with hint %q, fetched with that hint returned %q, expected %q",
							stage, i, fmtID(src.ID), src.Hint, got[j], exp)}
					}
				}
			}
		}
	}
	// fetch every document of the universe
	var ids []seq.IDSource
	for i := 0; i < k; i++ {
		ids = append(ids, seq.IDSource{ID: sysDoc(i).id()})
	}
	docs, err := s.fetcher.FetchDocs(ctx, fracs, ids)
	if err != nil {
		return &sysViolation{"fetch-error", fmt.Sprintf("%s: %v", stage, err)}
	}
	for i := 0; i < k; i++ {
		d := sysDoc(i)
		var exp []byte
		if have[i] {
			exp = payload(d.doc, d.size)
		}
		if !bytes.Equal(docs[i], exp) {
			return &sysViolation{"fetch-wrong-bytes", fmt.Sprintf("%s: fetch of document %d (%s) returned %q, expected %q", stage, i, fmtID(d.id()), docs[i], exp)}
		}
	}
	// fetch by BARE ids (no hints) of exactly the delivered documents - in one request the ids that were re-delivered
	// (possibly into another fraction) together with ids that live in one fraction only - and of every second one, in
	// both request orders, with one fetch worker and with many: every delivered id comes back once, with its own bytes
	{
		var del []int
		for i := 0; i < k; i++ {
			if have[i] {
				del = append(del, i)
			}
		}
		var every2 []int
		for j := 0; j < len(del); j += 2 {
			every2 = append(every2, del[j])
		}
		rev := func(x []int) []int {
			r := make([]int, len(x))
			for i, v := range x {
				r[len(x)-1-i] = v
			}
			return r
		}
		for ri, req := range [][]int{del, rev(del), every2} {
			if len(req) == 0 || (len(del) > 40 && ri == 1) {
				continue
			}
			var idsrc []seq.IDSource
			for _, i := range req {
				idsrc = append(idsrc, seq.IDSource{ID: sysDoc(i).id()})
			}
			for fi, ft := range []*fracmanager.Fetcher{s.fetch1, s.fetchN} {
				got, err := ft.FetchDocs(ctx, fracs, idsrc)
				if err != nil {
					return &sysViolation{"fetch-error", fmt.Sprintf("%s: fetch of the delivered ids: %v", stage, err)}
				}
				for j, i := range req {
					d := sysDoc(i)
					if exp := payload(d.doc, d.size); !bytes.Equal(got[j], exp) {
						cls := "fetch-wrong-bytes"
						if got[j] == nil {
							cls = "fetch-delivered-not-found"
						}
						return &sysViolation{cls, fmt.Sprintf("%s: fetch of %d delivered ids in one request (%s fetch workers): document %d (%s) returned %q, expected %q",
							stage, len(req), []string{"1", "64"}[fi], i, fmtID(d.id()), got[j], exp)}
					}
				}
			}
		}
	}
	if !crossFraction {
		total := uint32(0)
		for _, f := range fracs {
			total += f.Info().DocsTotal
		}
		if int(total) != len(have) {
			return &sysViolation{"docs-total-counts-repeats", fmt.Sprintf("%s: sum of DocsTotal %d, expected %d", stage, total, len(have))}
		}
	}
	return nil
}

// apiFetchAll: ONE Fetch request through the store API (real GrpcV1.Fetch: docs stream, batch loader, Fetcher) with the
// bare ids of all delivered documents, newest first; every answer must carry its id and that document's own bytes
func apiFetchAll(s *sysStore, k int, have map[int]bool, stage string) *sysViolation {
	mp, err := mappingprovider.New("", mappingprovider.WithMapping(seq.TestMapping))
	if err != nil {
		return &sysViolation{"harness", err.Error()}
	}
	client := sapi.VerifC17InMemoryClient(s.fm, mp, filepath.Join(s.dir, "async"))
	var want []int
	for i := k - 1; i >= 0; i-- {
		if have[i] {
			want = append(want, i)
		}
	}
	req := &pbapi.FetchRequest{}
	for _, i := range want {
		req.Ids = append(req.Ids, sysDoc(i).id().String())
	}
	stream, err := client.Fetch(context.Background(), req)
	if err != nil {
		return &sysViolation{"fetch-error", fmt.Sprintf("%s: store-API fetch of %d ids: %v", stage, len(want), err)}
	}
	for n, i := range want {
		msg, err := stream.Recv()
		if err != nil {
			return &sysViolation{"fetch-error", fmt.Sprintf("%s: store-API fetch stream ended after %d of %d documents: %v", stage, n, len(want), err)}
		}
		d := sysDoc(i)
		block := disk.DocBlock(msg.Data)
		if block.GetExt1() != d.mid || block.GetExt2() != d.rid || !bytes.Equal(block.Payload(), payload(d.doc, d.size)) {
			return &sysViolation{"api-fetch-wrong-bytes", fmt.Sprintf("%s: answer %d of %d of one store-API fetch request: asked for document %d (%s), got id %d.%d with the body of document %s (%d bytes)",
				stage, n+1, len(want), i, fmtID(d.id()), block.GetExt1(), block.GetExt2(), payloadDoc(block.Payload()), len(block.Payload()))}
		}
	}
	return nil
}

// runSys executes one history on a real store; returns nil when every check passed
func runSys(c sysCase) *sysViolation {
	sysFatEvery = 0
	sysBigSize = c.big
	sysRTBase = 0
	if c.rt {
		sysRTBase = uint64(time.Now().UnixMilli())
	}
	if c.long {
		sysFatEvery = c.fat
		old := conf.IndexWorkers
		conf.IndexWorkers = 1
		defer func() { conf.IndexWorkers = old }()
	}
	dir, err := os.MkdirTemp("", "c17-sys-")
	if err != nil {
		return &sysViolation{"harness", err.Error()}
	}
	defer os.RemoveAll(dir)
	s, err := openStore(dir)
	if err != nil {
		return &sysViolation{"harness", "open: " + err.Error()}
	}
	defer func() {
		if s != nil {
			s.fm.Stop()
		}
	}()
	have := map[int]bool{}
	inActive := map[int]bool{} // documents held by the current active fraction
	cross := false
	deliver := func(idx []int, times int) error {
		var ms []meta
		for _, i := range idx {
			ms = append(ms, sysDoc(i))
		}
		docs, metas := blocks(ms)
		var wg sync.WaitGroup
		errs := make([]error, times)
		for t := 0; t < times; t++ {
			wg.Add(1)
			go func(t int) {
				defer wg.Done()
				errs[t] = s.fm.Append(context.Background(), append([]byte(nil), docs...), append([]byte(nil), metas...))
			}(t)
		}
		wg.Wait()
		s.fm.WaitIdle()
		for _, e := range errs {
			if e != nil {
				return e
			}
		}
		for _, i := range idx {
			if have[i] && !inActive[i] {
				cross = true
			}
			have[i] = true
			inActive[i] = true
		}
		return nil
	}
	for n, op := range c.ops {
		stage := fmt.Sprintf("after op %d (%s)", n, op)
		switch {
		case strings.HasPrefix(op, "B"):
			if err := deliver(idxList(op[1:]), 1); err != nil {
				return &sysViolation{"bulk-error", stage + ": " + err.Error()}
			}
		case strings.HasPrefix(op, "C"):
			p := strings.SplitN(op[1:], ":", 2)
			t, _ := strconv.Atoi(p[0])
			if err := deliver(idxList(p[1]), t); err != nil {
				return &sysViolation{"bulk-error", stage + ": " + err.Error()}
			}
		case op == "F":
			s.fm.WaitIdle()
			if v := apiFetchAll(s, c.k, have, stage); v != nil {
				return v
			}
		case strings.HasPrefix(op, "W"):
			p := strings.SplitN(op[1:], ":", 2)
			if len(p) != 2 {
				return &sysViolation{"harness", "bad op " + op}
			}
			x, y := idxList(p[0]), idxList(p[1])
			if err := deliverInverted(s, x, y); err != nil {
				return &sysViolation{"bulk-error", stage + ": " + err.Error()}
			}
			for _, i := range append(append([]int{}, x...), y...) {
				if have[i] && !inActive[i] {
					cross = true
				}
				have[i] = true
				inActive[i] = true
			}
		case op == "S":
			s.fm.WaitIdle()
			s.fm.SealForcedForTests()
			inActive = map[int]bool{}
		case op == "R":
			s.fm.WaitIdle()
			s.fm.Stop()
			s = nil
			if s, err = openStore(dir); err != nil {
				return &sysViolation{"restart-error", stage + ": " + err.Error()}
			}
			s.fm.WaitIdle()
		default:
			return &sysViolation{"harness", "unknown op " + op}
		}
		if len(have) == 0 {
			continue
		}
		if c.long && op != "S" && op != "R" && n != len(c.ops)-1 && n%60 != 59 {
			continue
		}
		if c.big > 0 {
			continue
		}
		if v := checkStore(s, c.k, have, cross, stage); v != nil {
			return v
		}
	}
	return nil
}

// deliverInverted sends bulks X and Y from two goroutines and tries to force docs(X) < docs(Y), meta(Y) < meta(X):
// the writer of X is parked at the observation point aw.docs (docs block written, meta block not yet) until the writer
// of Y has reached the same point, then Y goes first.  With the ActiveWriter mutex Y cannot get there while X is
// parked: after a grace period X is let go and the two bulks are written one after the other (what the property
// expects; nothing compared here depends on which of the two happens).
func deliverInverted(s *sysStore, x, y []int) error {
	type arrival struct{ rel chan struct{} }
	arrive := make(chan arrival, 8)
	ended := make(chan struct{}, 8)
	verifhook.Set(func(name, _ string, _ []int64) {
		switch name {
		case "aw.docs":
			a := arrival{make(chan struct{})}
			arrive <- a
			<-a.rel
		case "aw.end":
			ended <- struct{}{}
		}
	})
	defer verifhook.Set(nil)
	errs := make(chan error, 2)
	send := func(idx []int) {
		var ms []meta
		for _, i := range idx {
			ms = append(ms, sysDoc(i))
		}
		docs, metas := blocks(ms)
		errs <- s.fm.Append(context.Background(), docs, metas)
	}
	go send(x)
	var first arrival
	select {
	case first = <-arrive:
	case <-time.After(20 * time.Second):
		return fmt.Errorf("writer did not reach aw.docs")
	}
	go send(y)
	select {
	case second := <-arrive: // both docs blocks are written: let Y write its meta block first
		close(second.rel)
		select {
		case <-ended:
		case <-time.After(20 * time.Second):
			return fmt.Errorf("second writer did not finish")
		}
		close(first.rel)
	case <-time.After(250 * time.Millisecond): // serialised writers
		close(first.rel)
		select {
		case second := <-arrive:
			close(second.rel)
		case <-time.After(20 * time.Second):
			return fmt.Errorf("second writer did not reach aw.docs")
		}
	}
	for i := 0; i < 2; i++ {
		if err := <-errs; err != nil {
			return err
		}
	}
	s.fm.WaitIdle()
	return nil
}

func childMain(mode string) {
	logger.SetLevel(zap.FatalLevel)
	sc := bufio.NewScanner(os.Stdin)
	sc.Buffer(make([]byte, 1<<20), 1<<26)
	out := bufio.NewWriter(os.Stdout)
	n := 0
	var env *activeEnv
	if mode == "active" {
		env = newActiveEnv()
		defer env.close()
	}
	for sc.Scan() {
		line := strings.TrimSpace(sc.Text())
		if line == "" {
			continue
		}
		if mode == "active" {
			fmt.Fprintf(out, "RES %d %s\n", n, activeChildLine(env, line))
			out.Flush()
			n++
			continue
		}
		c, err := parseSys(line)
		if err != nil {
			fmt.Fprintf(out, "RES %d viol harness bad case line\n", n)
		} else if v := runSys(c); v != nil {
			fmt.Fprintf(out, "RES %d viol %s %s\n", n, v.class, strings.ReplaceAll(v.what, "\n", " "))
		} else {
			fmt.Fprintf(out, "RES %d ok\n", n)
		}
		out.Flush()
		n++
	}
}

// runChild runs the cases in a child process; returns per case "ok" / "viol class what" / "" (no answer: child died)
func runChild(mode string, cases []string, timeout time.Duration) ([]string, string) {
	res := make([]string, len(cases))
	ctx, cancel := context.WithTimeout(context.Background(), timeout)
	defer cancel()
	cmd := exec.CommandContext(ctx, os.Args[0])
	cmd.Env = append(os.Environ(), "C17_CHILD="+mode)
	cmd.Stdin = strings.NewReader(strings.Join(cases, "\n") + "\n")
	var stderr bytes.Buffer
	cmd.Stderr = &stderr
	outb, _ := cmd.Output()
	for _, l := range strings.Split(string(outb), "\n") {
		if !strings.HasPrefix(l, "RES ") {
			continue
		}
		p := strings.SplitN(l, " ", 3)
		i, err := strconv.Atoi(p[1])
		if err == nil && i < len(res) && len(p) == 3 {
			res[i] = p[2]
		}
	}
	tail := stderr.String()
	if len(tail) > 600 {
		tail = tail[len(tail)-600:]
	}
	return res, tail
}

func systemOracle(rep *vh.Report, orc *vh.Oracle, cases []sysCase, tags [][]string) {
	lines := make([]string, len(cases))
	for i, c := range cases {
		lines[i] = c.String()
	}
	pending := make([]int, len(cases))
	for i := range pending {
		pending[i] = i
	}
	report := func(i int, r string) {
		c := cases[i]
		nontrivial := false
		for _, t := range tags[i] {
			if strings.Contains(t, "repeat") {
				nontrivial = true
			}
		}
		orc.Case(lines[i], nontrivial, tags[i]...)
		if strings.HasPrefix(r, "viol ") {
			p := strings.SplitN(r, " ", 3)
			what := ""
			if len(p) == 3 {
				what = p[2]
			}
			if p[1] == "harness" {
				orc.Error = "harness problem: " + what
				return
			}
			rep.Violate(vh.Violation{Site: "frac/active_indexer.go:appendWorker", Class: p[1], What: what, Replay: []string{c.String()}})
		}
	}
	for len(pending) > 0 {
		batch := make([]string, len(pending))
		for j, i := range pending {
			batch[j] = lines[i]
		}
		res, errTail := runChild("sys", batch, time.Duration(60+2*len(batch))*time.Second)
		died := -1
		for j, r := range res {
			if r == "" {
				died = j
				break
			}
			report(pending[j], r)
		}
		if died < 0 {
			return
		}
		// the child died on case `died`: re-run it alone before reporting the death
		i := pending[died]
		r2, tail2 := runChild("sys", []string{lines[i]}, 90*time.Second)
		if r2[0] == "" {
			orc.Case(lines[i], true, append(tags[i], "child-died")...)
			rep.Violate(vh.Violation{Site: "frac/active_indexer.go:appendWorker", Class: "crash-on-redelivery",
				What: "store process died or hung on this history (twice): " + strings.ReplaceAll(tail2+errTail, "\n", " "), Replay: []string{lines[i]}})
		} else {
			report(i, r2[0])
		}
		pending = pending[died+1:]
	}
}

// ---------------------------------------------------------------- main

func main() {
	if m := os.Getenv("C17_CHILD"); m != "" {
		childMain(m)
		return
	}
	o := vh.ParseFlags()
	logger.SetLevel(zap.FatalLevel)
	rep := vh.NewReport("C17", o)
	rng := vh.NewRNG(o.Seed)

	chColl := vh.NewChannel("collector.filter", "real metaDataCollector (Init, AppendMeta, Filter(appended), GroupLIDsByToken) vs SV.Collector.collect/filter/groupLIDsByToken: stats, TokensValues, FieldsLengths, IDs, tokensInDocs, tokensIndex, packed positions, groups; non-trivial = Filter keeps some but not all metas")
	chReuse := vh.NewChannel("collector.reuse", "ONE real metaDataCollector driven through 270+ bulks as an index worker drives it (Init with its real ReallocSolvers, AppendMeta, Filter, GroupLIDsByToken), shaped so that the solvers re-allocate (fat bulks between small ones, sliding re-deliveries) vs SV.Collector.reuseRun (solver decisions = oracle): the collector state after every bulk; non-trivial = TokensValues was re-allocated at least once and Filter ran")
	chSet := vh.NewChannel("docspositions.setmultiple", "DocsPositions.SetMultiple vs SV.Collector.setMultiple: appended slice and resulting map; non-trivial = some but not all ids rejected")
	chAct := vh.NewChannel("active.history", "a real frac.Active fed bulk by bulk vs SV.Collector.run: MIDs/RIDs in LID order, DocsTotal/DocsRaw/From/To, DocBlocks, sorted LIDs of every token, DocsPositions and fetched payload of every id; non-trivial = the history re-delivers at least one document")
	chConc := vh.NewChannel("active.concurrent", "a real frac.Active under a forced schedule (bulks started one by one, each index worker held at the point after SetMultiple/Filter, then published in the scheduled order) vs SV.Collector.crun: same observations as active.history; non-trivial = a re-delivery whose collectors are published out of start order")
	chRep := vh.NewChannel("qpr.repetitions", "seq.removeRepetitionsAdvanced vs SV.Repetitions.removeRepetitions on sorted id lists: kept entries, removed count, corrected histogram; non-trivial = something removed")
	chMerge := vh.NewChannel("qpr.merge", "seq.MergeQPRs vs SV.Repetitions.mergeQPRs: merged ids (sources not compared: sort.Sort is unstable), total, histogram; non-trivial = an id occurs in two partial results")
	orc := vh.NewOracle("redelivery.system", "real FracManager/Searcher/Fetcher: after every op of a history (bulks, whole/partial/concurrent repeats, seal, restart) each id is listed once in both orders, total/histogram (and aggregation, DocsTotal when all repeats hit the holding fraction) count it once, every document is fetched with its original bytes; non-trivial = history with a re-delivery")

	var sysCases []sysCase
	var sysTags [][]string
	var env *activeEnv // the real fractions live in the child process

	if o.Replay != "" {
		if _, err := os.Stat(o.Replay); err != nil && !filepath.IsAbs(o.Replay) { // the runner starts us in harness/
			o.Replay = filepath.Join(os.Getenv("VERIF_ROOT"), o.Replay)
		}
		lines, err := vh.ReadReplay(o.Replay)
		if err != nil {
			fmt.Fprintln(os.Stderr, err)
			os.Exit(3)
		}
		for _, l := range lines {
			f := strings.Fields(l)
			switch {
			case len(f) > 0 && (f[0] == "sys" || f[0] == "sysl" || f[0] == "sysr" || f[0] == "sysb"):
				if c, err := parseSys(l); err == nil {
					sysCases = append(sysCases, c)
					sysTags = append(sysTags, []string{"replay", "repeat"})
				}
			case len(f) == 5 && f[0] == "coll":
				b, _ := strconv.Atoi(f[1])
				ms, err := parseBulk(f[2])
				if err != nil {
					continue
				}
				var app []seq.ID
				if f[3] != "*" {
					app, _ = parseIDs(f[3])
				}
				var lids []uint32
				if f[4] != "*" {
					lids = []uint32{}
					if f[4] != "-" {
						for _, x := range strings.Split(f[4], ",") {
							v, _ := strconv.Atoi(x)
							lids = append(lids, uint32(v))
						}
					}
				}
				addCollCase(chColl, uint32(b), ms, app, lids, "replay")
			case len(f) == 4 && f[0] == "conc":
				activeQueue = append(activeQueue, activeCase{chConc, l, true, []string{"replay"}})
			case len(f) == 4 && f[0] == "hist":
				if h, err := parseHistory(f[1]); err == nil {
					addActiveCase(chAct, env, h, "replay", nil)
				}
			}
		}
	} else {
		// collector: exhaustive small scope + random
		collectorExhaustive(chColl, 1, 1, 0)
		collectorExhaustive(chColl, 2, 1, 0)
		collectorExhaustive(chColl, 3, 1, 0)
		if o.Thorough() {
			collectorExhaustive(chColl, 4, 3, int(o.Seed%3))
		} else {
			collectorExhaustive(chColl, 4, 40, int(o.Seed%40))
		}
		collectorRandom(chColl, rng.Fork(), o.Pick(2000, 20000))
		reuseCases(chReuse, rng.Fork(), o.Thorough())
		setMultipleCases(chSet, rng.Fork(), o.Pick(2000, 20000))
		activeCases(chAct, env, rng.Fork(), o.Pick(1500, 8000))
		concCases(chConc, rng.Fork(), o.Pick(400, 3000))
		repetitionCases(chRep, rng.Fork(), o.Pick(6, 8), o.Pick(1500, 15000))
		mergeCases(chMerge, rng.Fork(), o.Pick(2000, 20000))

		// system oracle: directed histories first, then random ones
		directed := []sysCase{
			{k: 4, ops: []string{"B0.1", "B0.1", "S", "R"}},                         // whole-bulk repeat
			{k: 6, ops: []string{"B0.1.2", "B1.3.2.4", "B5.0", "S", "R"}},           // partial overlaps at different positions
			{k: 5, ops: []string{"B0.1.2.3.4", "B4", "B0", "B2.1", "R", "B3", "S"}}, // single known documents, restart with replay
			{k: 4, ops: []string{"B0.1", "C4:0.1", "C3:2.3", "S"}},                  // concurrent repeats
			{k: 4, ops: []string{"B0.1.2", "S", "B1.2.3", "S", "R"}},                // repeat lands in another fraction
			{k: 3, ops: []string{"B0.1", "R", "B0.1.2", "R", "S"}},                  // repeat after restart (replayed positions)
			// several fractions sealed one after the other in one process, every document fetched after ALL sealings
			{k: 10, ops: []string{"B0.1.2.3", "S", "B4.5.6", "S", "B7.8.9.0", "S", "B1.2", "S"}},
			{k: 9, ops: []string{"B0.1.2.3.4.5", "S", "B6", "S", "B7.8", "S"}},
			// the retry lands in another fraction, its newest document is the repeated one, new documents right below it
			{k: 7, ops: []string{"B6.1.0", "S", "B6.5.4.3", "S", "B2"}},
			{k: 7, ops: []string{"B6.1.0", "S", "B6.5.4.3"}},
			{k: 8, ops: []string{"B7.2.0", "S", "B7.6.5", "S", "B7.4.3.1", "R"}},
			// a repeat crosses a rotation and later fractions hold documents of their own: fetch of all delivered ids at once
			{k: 8, ops: []string{"B0.1.2", "S", "B0.1.2.3", "S", "B4.5", "S", "B6", "R", "B7"}},
			{k: 6, ops: []string{"B0.1", "S", "B0.1", "S", "B2", "S", "B3.4.5"}},
			// real-time ids: same-millisecond pairs re-delivered across a rotation; late deliveries into the next fraction
			{k: 6, rt: true, ops: []string{"B0.1", "S", "B0.1.2.3.4.5", "S", "R"}},
			{k: 8, rt: true, ops: []string{"B0.1.4.5", "S", "B0.1.2.3.6", "S", "B7.4", "R", "S"}},
			{k: 6, rt: true, ops: []string{"B4.5.0", "B0.1", "S", "B4.5.1.2", "S", "R", "B3.2", "S"}},
			// two writers at once: a bulk and a partially overlapping repeat of other size, docs and meta order inverted if
			// the writer lets it happen; then a restart of the still active fraction and a fetch of everything
			{k: 6, ops: []string{"B5", "W0.1:0.2.3.4", "R", "S"}},
			{k: 7, ops: []string{"W0.1.2.3:1.4", "R", "B5", "W5.6:6.0", "R", "S", "R"}},
			{k: 4, ops: []string{"W0.1:0.1.2", "R"}},
		}
		for _, c := range directed {
			sysCases = append(sysCases, c)
			sysTags = append(sysTags, []string{"gen=directed", "repeat"})
		}
		// long histories through ONE index worker: sliding retries [doc n-1 (repeat), doc n (new)] for more bulks than
		// the solvers' 200-sample window, fat documents in between, then seal and restart
		for li := 0; li < o.Pick(1, 3); li++ {
			nb := 260 + 45*li
			lc := sysCase{k: nb, long: true, fat: []int{15, 11, 23}[li]}
			for b := 0; b < nb; b++ {
				if b == 0 {
					lc.ops = append(lc.ops, "B0")
				} else {
					lc.ops = append(lc.ops, fmt.Sprintf("B%d.%d", b-1, b))
				}
				if li == 1 && b == 215 {
					lc.ops = append(lc.ops, "R")
				}
			}
			lc.ops = append(lc.ops, "S", "R")
			sysCases = append(sysCases, lc)
			sysTags = append(sysTags, []string{"gen=long-one-worker", "repeat", "op=seal", "op=restart"})
		}
		// the shape of many retries through ONE index worker: 60 bulks of 4 documents, each delivered 4 times
		{
			lc := sysCase{k: 240, long: true, fat: 0}
			for b := 0; b < 60; b++ {
				for rep := 0; rep < 4; rep++ {
					lc.ops = append(lc.ops, fmt.Sprintf("B%d-%d", 4*b, 4*b+3))
				}
			}
			lc.ops = append(lc.ops, "S", "R")
			sysCases = append(sysCases, lc)
			sysTags = append(sysTags, []string{"gen=long-one-worker", "repeat", "op=whole-repeat", "op=seal", "op=restart"})
		}
		// one store-API fetch with 1600 ids of ~8 KiB documents: 16 bulks of 100, each delivered twice plus a partial overlap
		{
			bc := sysCase{k: 1600, big: 8000}
			for b := 0; b < 16; b++ {
				bc.ops = append(bc.ops, fmt.Sprintf("B%d-%d", 100*b, 100*b+99), fmt.Sprintf("B%d-%d", 100*b, 100*b+99))
				if b > 0 {
					bc.ops = append(bc.ops, fmt.Sprintf("B%d-%d", 100*b-30, 100*b+29))
				}
			}
			bc.ops = append(bc.ops, "F", "S", "F")
			sysCases = append(sysCases, bc)
			sysTags = append(sysTags, []string{"gen=big-api-fetch", "repeat", "op=whole-repeat", "op=seal"})
		}
		r := rng.Fork()
		for i := 0; i < o.Pick(250, 1500); i++ {
			c, tags := genSys(r, 10)
			if i%4 == 3 {
				c.rt = true
				tags = append(tags, "ids=real-time")
			}
			sysCases = append(sysCases, c)
			sysTags = append(sysTags, append(tags, "gen=random"))
		}
	}
	if len(sysCases) > 0 {
		systemOracle(rep, orc, sysCases, sysTags)
	}
	flushActive(rep)
	chColl.Exhaustive = o.Replay == ""
	rep.AddChannel(chColl, o.Driver)
	rep.AddChannel(chReuse, o.Driver)
	rep.AddChannel(chSet, o.Driver)
	rep.AddChannel(chAct, o.Driver)
	rep.AddChannel(chConc, o.Driver)
	rep.AddChannel(chRep, o.Driver)
	rep.AddChannel(chMerge, o.Driver)
	rep.AddOracle(orc)
	rep.Note("collector.filter is exhaustive for bulks of up to 3 metas over %d token patterns, every nested pattern and every subset of ids as `appended` (4 metas: every %d-th case)", len(tokChoices), o.Pick(40, 3))
	rep.Write(o.Out)
}
