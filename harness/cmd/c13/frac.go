package main

// frac.property: the property end to end on real fractions.  A generated dictionary for field "f" (larger than
// one 16 KiB token block) is ingested into a real frac.Active; the fraction is sealed (frac.Seal +
// NewSealedPreloaded) and re-opened from disk (NewSealed).  For every query token the values returned by
// GetTIDsByTokenExpr of each of the three forms must be exactly the dictionary values that match under the
// reference glob / range semantics.

import (
	"bytes"
	"context"
	"fmt"
	"os"
	"path/filepath"
	"sort"
	"strconv"
	"strings"
	"sync"

	"github.com/ozontech/seq-db/consts"
	"github.com/ozontech/seq-db/disk"
	"github.com/ozontech/seq-db/frac"
	"github.com/ozontech/seq-db/fracmanager"
	"github.com/ozontech/seq-db/parser"
	"github.com/ozontech/seq-db/seq"

	"verifharness/internal/vh"
)

var sealParams = frac.SealParams{IDsZstdLevel: -5, LIDsZstdLevel: -5, TokenListZstdLevel: -5, DocsPositionsZstdLevel: -5, TokenTableZstdLevel: -5, DocBlocksZstdLevel: -5, DocBlockSize: 1 << 20}

type fracEnv struct {
	dir     string
	cm      *fracmanager.CacheMaintainer
	indexer *frac.ActiveIndexer
	rl      *disk.ReadLimiter
	n       int
}

func newFracEnv() (*fracEnv, error) {
	d, err := os.MkdirTemp("", "verif-c13-")
	if err != nil {
		return nil, err
	}
	e := &fracEnv{dir: d, cm: fracmanager.NewCacheMaintainer(256*consts.MB, 64*consts.MB, nil), indexer: frac.NewActiveIndexer(2, 2), rl: disk.NewReadLimiter(2, nil)}
	e.indexer.Start()
	return e, nil
}

func (e *fracEnv) close() {
	e.indexer.Stop()
	os.RemoveAll(e.dir)
}

// fracDict: deterministic dictionary for (seed, n): words over {a,b,c} with shared prefixes, some numbers,
// the empty value, and long values so that n values span several token blocks.
func fracDict(seed int64, n int) [][]byte {
	r := vh.NewRNG(seed*7919 + int64(n))
	set := map[string]bool{"": true, "a": true, "ab": true, "b": true}
	stems := []string{"", "a", "ab", "abc", "b", "ba", "c", "cab", "abab", "zz"}
	if n >= 60 { // leading bytes spread over 0x20..0xFF next to the Latin ones (byte order, not rune or signed order)
		stems = append(stems, mixedStems...)
	}
	for len(set) < n {
		switch r.Intn(10) {
		case 0:
			set[strconv.Itoa(r.Range(-50, 2000))] = true
		case 1:
			set[strconv.FormatFloat(float64(r.Range(-400, 400))/8, 'g', -1, 64)] = true
		default:
			l := r.Range(0, 8)
			if r.Chance(1, 2) {
				l = r.Range(20, 70)
			}
			b := []byte(stems[r.Intn(len(stems))])
			for i := 0; i < l; i++ {
				b = append(b, "abc"[r.Intn(3)])
			}
			set[string(b)] = true
		}
	}
	keys := vh.SortedKeys(set)
	res := make([][]byte, len(keys))
	for i, k := range keys {
		res[i] = []byte(k)
	}
	return res
}

func (e *fracEnv) build(dict [][]byte, extra map[string][][]byte, seed int64) (*frac.Active, error) {
	e.n++
	base := filepath.Join(e.dir, fmt.Sprintf("seq-db-%04d", e.n))
	a := frac.NewActive(base, e.indexer, e.rl, e.cm.CreateDocBlockCache(), e.cm.CreateSortDocsCache(), &frac.Config{})
	dp := frac.NewDocProvider()
	flush := func() error {
		if dp.DocCount == 0 {
			return nil
		}
		d, m := dp.Provide()
		var wg sync.WaitGroup
		wg.Add(1)
		if err := a.Append(d, m, &wg); err != nil {
			return err
		}
		wg.Wait()
		dp.TryReset()
		return nil
	}
	// values arrive in shuffled order, several per document, several bulks
	r := vh.NewRNG(seed + 17)
	perm := r.Perm(len(dict))
	for i := 0; i < len(perm); {
		toks := []seq.Token{{Field: []byte("_all_"), Val: []byte{}}, {Field: []byte("g"), Val: []byte(fmt.Sprintf("g%d", i%37))}}
		for k := r.Range(1, 8); k > 0 && i < len(perm); k-- {
			toks = append(toks, seq.Token{Field: []byte("f"), Val: dict[perm[i]]})
			i++
		}
		dp.Append([]byte(fmt.Sprintf(`{"i":%d}`, i)), nil, seq.ID{MID: seq.MID(1000 + i), RID: seq.RID(i)}, toks)
		if dp.DocCount >= 200 {
			if err := flush(); err != nil {
				return nil, err
			}
		}
	}
	// the wide shape: one document per extra field carrying all its values
	for j, f := range vh.SortedKeys(extra) {
		toks := []seq.Token{{Field: []byte("_all_"), Val: []byte{}}}
		for _, v := range extra[f] {
			toks = append(toks, seq.Token{Field: []byte(f), Val: v})
		}
		dp.Append([]byte(fmt.Sprintf(`{"w":%d}`, j)), nil, seq.ID{MID: seq.MID(900000 + j), RID: seq.RID(j)}, toks)
		if dp.DocCount >= 200 {
			if err := flush(); err != nil {
				return nil, err
			}
		}
	}
	if err := flush(); err != nil {
		return nil, err
	}
	return a, nil
}

// wideFields: hundreds of small fields, so that the token TABLE itself spans several 16 KiB index blocks while many
// fields share one physical tokens block.
func wideFields(n int) map[string][][]byte {
	// names and values of VARIABLE length (a decoder that keeps views into a reused block buffer goes unnoticed when
	// every block has the same layout), 1..4 values per field
	m := map[string][][]byte{}
	for i := 0; i < n; i++ {
		f := fmt.Sprintf("w%04d_%s", i, strings.Repeat("x", 4+(i*7)%29))
		var vals [][]byte
		for k := 0; k <= (i*5)%4; k++ {
			vals = append(vals, []byte(fmt.Sprintf("v%04d-%c%s", i, 'a'+k, strings.Repeat("y", (i*11+k*3)%17))))
		}
		m[f] = vals
	}
	return m
}

func wideTokens(extra map[string][][]byte) []tok {
	fs := vh.SortedKeys(extra)
	var toks []tok
	str := func(s string) *string { return &s }
	pick := []int{}
	for k := 0; k < 24; k++ { // the first table blocks (decoded first, overwritten last) ...
		pick = append(pick, k*7%min(300, len(fs)))
	}
	for k := 0; k < 40; k++ { // ... and the whole table
		pick = append(pick, (k*len(fs))/40+(k*7)%max(1, len(fs)/40))
	}
	for k, fi := range pick {
		f := fs[fi%len(fs)]
		vals := extra[f]
		i := string(vals[0][1:5])
		last := vals[len(vals)-1]
		toks = append(toks,
			tok{field: f, lit: []term{{data: vals[k%len(vals)]}}},
			tok{field: f, lit: []term{{data: last}}},
			tok{field: f, lit: patTerms("v*")},
			tok{field: f, lit: patTerms("v" + i + "-*")},
			tok{field: f, lit: []term{{data: last[:len(last)-1]}, {star: true}}},
			tok{field: f, lit: []term{{star: true}, {data: last[len(last)-1:]}}},
			tok{field: f, r: &rng{from: str("v"), to: str("w"), incFrom: true}},
			tok{field: f, r: &rng{from: str(string(vals[0])), to: str(string(last)), incFrom: true, incTo: true}},
		)
	}
	return toks
}

func (e *fracEnv) seal(a *frac.Active, base string) (pre, re *frac.Sealed, err error) {
	p, err := frac.Seal(a, sealParams)
	if err != nil {
		return nil, nil, err
	}
	pre = frac.NewSealedPreloaded(base, p, e.rl, e.cm.CreateIndexCache(), e.cm.CreateDocBlockCache(), &frac.Config{})
	a.Release()
	re = frac.NewSealed(base, e.rl, e.cm.CreateIndexCache(), e.cm.CreateDocBlockCache(), nil, &frac.Config{})
	return pre, re, nil
}

// fracSession: ONE token index instance of the fraction (as a search request builds it) answering the tokens in order.
func fracSession(f frac.Fraction, toks []tok) (res []string) {
	dp, release := f.DataProvider(context.Background())
	defer release()
	sess, err := frac.VerifTokenValuesSession(dp)
	for _, t := range toks {
		if err != nil {
			res = append(res, "err: "+err.Error())
			continue
		}
		res = append(res, sessValues(sess, t))
	}
	return res
}

func sessValues(sess func(parser.Token) ([][]byte, error), t tok) (res string) {
	defer func() {
		if r := recover(); r != nil {
			res = fmt.Sprintf("panic: %v", r)
		}
	}()
	vals, err := sess(t.parserToken())
	if err != nil {
		return "err: " + err.Error()
	}
	ss := make([]string, len(vals))
	for i, v := range vals {
		ss[i] = hx(v)
	}
	sort.Strings(ss)
	return "ok " + vh.JoinStrs(ss, ",")
}

func refValues(dict [][]byte, t tok) string {
	var ss []string
	for _, v := range dict {
		if refMatch(t, v) {
			ss = append(ss, hx(v))
		}
	}
	sort.Strings(ss)
	return "ok " + vh.JoinStrs(ss, ",")
}

func short(s string) string {
	if len(s) > 300 {
		return s[:300] + fmt.Sprintf("...(%d bytes)", len(s))
	}
	return s
}

// fracTokens: the query tokens for one dictionary.
func (h *H) fracTokens(dict [][]byte, nRandom int) []tok {
	var toks []tok
	for _, p := range []string{"", "a", "ab", "zzz", "*", "a*", "ab*", "abc*", "c*", "zz*", "*a", "*abc", "*b*", "a*b", "ab*ba", "a*b*c", "*ab*ab*", "**", "a**b", "*cab*abc*", "1*", "-*", "*0", "b*c*a*b"} {
		toks = append(toks, tok{lit: patTerms(p)})
	}
	str := func(s string) *string { return &s }
	for _, r := range []*rng{
		{}, {from: str("a"), to: str("b"), incFrom: true}, {from: str("ab"), incFrom: false}, {to: str("abc"), incTo: true},
		{from: str("10"), to: str("100"), incFrom: true, incTo: true}, {from: str("-5"), to: str("5.5")}, {from: str("10")}, {to: str("0"), incTo: true},
		{from: str("10"), to: str("b")}, {from: str("1e2"), to: str("1e3"), incFrom: true}, {from: str(""), to: str("a"), incTo: true},
		{from: str("1.5"), to: str("1.9"), incFrom: true, incTo: true}, {from: str("1.5"), to: str("19.5")}, {from: str("-2.5"), to: str("-1.5"), incTo: true},
		{from: str("10000000000000000000"), to: str("1000000000000000000000"), incFrom: true, incTo: true}, {from: str("18446744073709551616")}, {to: str("9223372036854775808")},
		{from: str("2.25"), to: str("2.75"), incFrom: true}, {from: str("1e0"), to: str("1e1")}, {from: str("n1"), to: str("n2")}, {from: str("0.5"), to: nil},
	} {
		toks = append(toks, tok{r: r})
	}
	for i := 0; i < nRandom; i++ {
		switch h.rnd.Intn(4) {
		case 0: // an existing value, exact
			toks = append(toks, tok{lit: []term{{data: dict[h.rnd.Intn(len(dict))]}}})
		case 1: // prefix of an existing value + '*' (+ suffix)
			v := dict[h.rnd.Intn(len(dict))]
			k := h.rnd.Intn(len(v) + 1)
			ts := []term{{data: v[:k]}, {star: true}}
			if k == 0 {
				ts = ts[1:]
			}
			if h.rnd.Bool() && len(v)-k > 1 {
				ts = append(ts, term{data: v[len(v)-1:]})
			}
			toks = append(toks, tok{lit: ts})
		case 2:
			toks = append(toks, tok{lit: patTerms(string(h.randWord("abc*", 6)))})
		default:
			a, b := string(dict[h.rnd.Intn(len(dict))]), string(dict[h.rnd.Intn(len(dict))])
			r := &rng{incFrom: h.rnd.Bool(), incTo: h.rnd.Bool()}
			if h.rnd.Chance(4, 5) {
				r.from = &a
			}
			if h.rnd.Chance(4, 5) {
				r.to = &b
			}
			toks = append(toks, tok{r: r})
		}
	}
	return toks
}

// mixedStems: leading bytes spread over 0x20..0xFF: punctuation, digits, upper and lower Latin, Cyrillic, CJK, emoji,
// invalid UTF-8 and raw high bytes.  The sealed dictionary must be in bytes.Compare order whatever the alphabet.
var mixedStems = []string{"!", "#x", "0", "7", "A", "Zeta", "~", "привет", "Привет", "я", "日本語", "日", "😀", "😀x", "\x80", "\x80\x01", "\xc3\x28", "\xf4\x8f", "\xff", "\xff\xff"}

// fracDictMixed: a dictionary dominated by mixed-alphabet values
func fracDictMixed(seed int64, n int) [][]byte {
	r := vh.NewRNG(seed*65537 + int64(n))
	set := map[string]bool{"": true, "a": true}
	for _, s := range mixedStems {
		set[s] = true
	}
	tails := []string{"a", "b", "Z", "0", "я", "日", "😀", "\x80", "\xff", " "}
	for len(set) < n {
		b := []byte(mixedStems[r.Intn(len(mixedStems))])
		for l := r.Range(0, 6); l > 0; l-- {
			b = append(b, tails[r.Intn(len(tails))]...)
		}
		if r.Chance(1, 3) {
			b = append(b, bytes.Repeat([]byte("x"), r.Range(20, 60))...)
		}
		set[string(b)] = true
	}
	keys := vh.SortedKeys(set)
	res := make([][]byte, len(keys))
	for i, k := range keys {
		res[i] = []byte(k)
	}
	return res
}

func mixedTokens(dict [][]byte, r *vh.RNG) []tok {
	str := func(s string) *string { return &s }
	var toks []tok
	for _, p := range mixedStems {
		toks = append(toks, tok{lit: []term{{data: []byte(p)}}}, tok{lit: []term{{data: []byte(p)}, {star: true}}}, tok{lit: []term{{data: []byte(p)}, {star: true}, {data: []byte("x")}}})
	}
	toks = append(toks, tok{r: &rng{from: str("0"), to: str("я"), incFrom: true}}, tok{r: &rng{from: str("Z"), to: str("日"), incTo: true}},
		tok{r: &rng{from: str("\x80")}}, tok{r: &rng{to: str("😀"), incTo: true}}, tok{r: &rng{from: str("я"), to: str("\xff\xff"), incFrom: true, incTo: true}})
	for k := 0; k < 40; k++ {
		v := dict[r.Intn(len(dict))]
		toks = append(toks, tok{lit: []term{{data: v}}})
		if len(v) > 1 {
			toks = append(toks, tok{lit: []term{{data: v[:r.Range(1, len(v)-1)]}, {star: true}}})
		}
	}
	return toks
}

// fracDictHuge: ONE field whose dictionary needs more than 256 token blocks (hence > 256 token-table entries):
// n-4 unique values of ~3.9 KB.
func fracDictHuge(seed int64, n int) [][]byte {
	res := [][]byte{[]byte(""), []byte("a")}
	for i := 0; i < n-4; i++ {
		res = append(res, []byte(fmt.Sprintf("h%05d-%s", i*7, strings.Repeat(string(rune('a'+(i+int(seed))%26)), 3900+(i*13)%90))))
	}
	sort.Slice(res, func(i, j int) bool { return bytes.Compare(res[i], res[j]) < 0 })
	return res
}

func hugeTokens(dict [][]byte) []tok {
	first, last, mid := dict[2], dict[len(dict)-1], dict[len(dict)/2]
	return []tok{
		{lit: patTerms("*")}, {lit: patTerms("h*")}, {lit: []term{{data: first}}}, {lit: []term{{data: last}}}, {lit: []term{{data: mid}}},
		{lit: patTerms("h000*")}, {lit: patTerms("h0[0-9]*")}, {lit: []term{{data: mid[:9]}, {star: true}}}, {lit: []term{{data: last[:7]}, {star: true}, {data: last[len(last)-1:]}}},
		{lit: patTerms("a")}, {lit: patTerms("")}, {r: &rng{from: func() *string { s := string(first[:6]); return &s }(), to: func() *string { s := string(mid[:6]); return &s }(), incFrom: true}},
	}
}

// fracDictSkew: one field with many short ids plus a cluster of long values sharing a prefix (they sort together).
// The sealer cuts a field into runs of an EQUAL NUMBER of tokens, so the run holding the cluster is a physical tokens
// block far larger than the 16 KiB flush threshold (> 64 KiB here): offsets inside a block need their full width.
// n = 23006: 20000 short + 3000 values of 72 bytes; n = 100406: 100000 short + 400 values of 4000 bytes.
func fracDictSkew(seed int64, n int) [][]byte {
	short, long, size := 20000, 3000, 72
	if n > 50000 {
		short, long, size = 100000, 400, 4000
	}
	res := make([][]byte, 0, short+long+2)
	res = append(res, []byte(""), []byte("a"))
	for i := 0; i < short; i++ {
		res = append(res, []byte(fmt.Sprintf("id%06d", i*3+int(seed%3))))
	}
	for i := 0; i < long; i++ {
		v := fmt.Sprintf("trace-15%05d-", i*7)
		res = append(res, []byte(v+strings.Repeat(string(rune('a'+i%26)), size-len(v))))
	}
	sort.Slice(res, func(i, j int) bool { return bytes.Compare(res[i], res[j]) < 0 })
	return res
}

func skewTokens(dict [][]byte, r *vh.RNG) []tok {
	str := func(s string) *string { return &s }
	var long [][]byte
	for _, v := range dict {
		if len(v) > 40 {
			long = append(long, v)
		}
	}
	toks := []tok{
		{lit: patTerms("trace-15*")}, {lit: patTerms("trace-1500*")}, {lit: patTerms("trace-1520*")}, {lit: patTerms("trace-*z")}, {lit: patTerms("id0001*")},
		{lit: patTerms("id05999*")}, {lit: patTerms("*")}, {lit: patTerms("t*")}, {lit: []term{{data: long[0]}}}, {lit: []term{{data: long[len(long)-1]}}},
		{lit: []term{{data: long[len(long)/2]}}}, {lit: []term{{data: long[len(long)*9/10][:14]}, {star: true}}},
		{r: &rng{from: str("trace-1510"), to: str("trace-1519"), incFrom: true}}, {r: &rng{from: str("id059990"), to: str("trace-1500100")}}, {r: &rng{from: str("trace-152")}},
	}
	for k := 0; k < 30; k++ {
		v := long[r.Intn(len(long))]
		toks = append(toks, tok{lit: []term{{data: v}}}, tok{lit: []term{{data: v[:r.Range(9, 16)]}, {star: true}, {data: v[len(v)-1:]}}})
		w := dict[r.Intn(len(dict))]
		toks = append(toks, tok{lit: []term{{data: w}}})
	}
	return toks
}

// fracDictNum: a dictionary dominated by numbers in many spellings ("1.7", "+1.7", "01.70", "17e-1", "1.7e0", ...)
// so that the numeric region itself spans several token blocks.
func fracDictNum(seed int64, n int) [][]byte {
	r := vh.NewRNG(seed*104729 + int64(n))
	set := map[string]bool{"": true, "a": true, "1.5": true, "1.9": true, "+1.7": true, "01.75": true}
	for _, d := range digitPool() {
		set[d] = true
	}
	for len(set) < n {
		x := float64(r.Range(-3000, 3000)) / 100
		s := strconv.FormatFloat(x, 'f', r.Range(0, 3), 64)
		switch r.Intn(7) {
		case 0:
			if x >= 0 {
				s = "+" + s
			}
		case 1:
			if x >= 0 {
				s = strings.Repeat("0", r.Range(1, 3)) + s
			}
		case 2:
			s = strconv.FormatFloat(x*10, 'f', 1, 64) + "e-1"
		case 3:
			s += "e0"
		case 4:
			s = "n" + s // not a number
		}
		set[s] = true
	}
	keys := vh.SortedKeys(set)
	res := make([][]byte, len(keys))
	for i, k := range keys {
		res[i] = []byte(k)
	}
	return res
}

const longStem = "commonprefixcommonprefixcommonprefixcommonprefixcommonprefixcommonprefixcommonprefix" // 84 bytes

func fracDictLong(seed int64, n int) [][]byte {
	r := vh.NewRNG(seed*31337 + int64(n))
	set := map[string]bool{"": true, "a": true, "commonprefix": true, longStem: true}
	for len(set) < n {
		s := longStem + fmt.Sprintf("%06d", r.Intn(1000000))
		if r.Chance(1, 4) {
			s += string(h2w(r, 10))
		}
		if r.Chance(1, 10) {
			s = longStem[:r.Range(60, 84)] + string(h2w(r, 6))
		}
		set[s] = true
	}
	keys := vh.SortedKeys(set)
	res := make([][]byte, len(keys))
	for i, k := range keys {
		res[i] = []byte(k)
	}
	return res
}

func h2w(r *vh.RNG, maxLen int) []byte {
	b := make([]byte, r.Range(1, maxLen))
	for i := range b {
		b[i] = "abc"[r.Intn(3)]
	}
	return b
}

// longTokens: queries whose first text fragment is longer than 72 bytes
func longTokens(dict [][]byte, r *vh.RNG) []tok {
	str := func(s string) *string { return &s }
	toks := []tok{
		{lit: patTerms(longStem + "*")}, {lit: patTerms(longStem + "5*")}, {lit: patTerms(longStem + "12*")}, {lit: patTerms(longStem + "*7")},
		{lit: patTerms(longStem + "9*9*")}, {lit: patTerms(longStem[:73] + "*")}, {lit: patTerms(longStem[:72] + "*")}, {lit: patTerms(longStem[:71] + "*")},
		{lit: patTerms("commonprefixcommon*")}, {lit: patTerms("*" + longStem[70:] + "3*")}, {lit: patTerms(longStem)},
		{r: &rng{from: str(longStem + "2"), to: str(longStem + "4"), incFrom: true}}, {r: &rng{from: str(longStem + "500000")}}, {r: &rng{to: str(longStem + "1"), incTo: true}},
	}
	for k := 0; k < 40; k++ {
		v := dict[r.Intn(len(dict))]
		toks = append(toks, tok{lit: []term{{data: v}}})
		if len(v) > 80 {
			cut := r.Range(73, len(v))
			toks = append(toks, tok{lit: []term{{data: v[:cut]}, {star: true}}})
			toks = append(toks, tok{lit: []term{{data: v[:cut]}, {star: true}, {data: v[len(v)-1:]}}})
		}
	}
	return toks
}

// fracTok / parseFracTok: tokens with their field, for the replay lines
func fracTokStr(t tok) string { return t.fld() + "=" + t.String() }

func parseFracTok(s string) (tok, error) {
	p := strings.SplitN(s, "=", 2)
	if len(p) != 2 {
		return tok{}, fmt.Errorf("bad frac token %q", s)
	}
	t, err := parseTok(p[1])
	t.field = p[0]
	return t, err
}

// runFrac builds the fraction for (seed, n) and asks every form (active, sealed, reopened) the tokens through ONE
// token index per pass - forward and reversed order - comparing every answer with the stateless reference.
// n%10 == 1: number-heavy dictionary; n%10 == 2: wide shape (n-2 small extra fields).
// seqs != nil (replay): only these explicit call sequences are run.
func (h *H) runFrac(env *fracEnv, seed int64, n int, seqs [][]tok) {
	dict := fracDict(seed, n)
	var extra map[string][][]byte
	switch n % 10 {
	case 6:
		dict = fracDictSkew(seed, n)
	case 4:
		dict = fracDictHuge(seed, n)
	case 5:
		dict = fracDictMixed(seed, n)
	case 3: // long tokens: 90..100 bytes sharing an 84-byte prefix, so that whole token blocks - and their MaxVal - agree
		// on more than 72 bytes (consts.DefaultMaxTokenSize); queries lead with fragments longer than that
		dict = fracDictLong(seed, n)
	case 1:
		dict = fracDictNum(seed, n)
	case 2:
		dict = fracDict(seed, 40)
		extra = wideFields(n - 2)
	}
	if seqs == nil {
		toks := h.fracTokens(dict, h.o.Pick(60, 400))
		if extra != nil {
			toks = append(h.fracTokens(dict, 10), wideTokens(extra)...)
		}
		if n%10 == 3 {
			toks = append(h.fracTokens(dict, 20), longTokens(dict, h.rnd)...)
		}
		if n%10 == 5 {
			toks = append(h.fracTokens(dict, 20), mixedTokens(dict, h.rnd)...)
		} else if n >= 60 {
			toks = append(toks, mixedTokens(dict, h.rnd)[:3*len(mixedStems)+5]...)
		}
		if n%10 == 4 {
			toks = hugeTokens(dict)
		}
		if n%10 == 6 {
			toks = skewTokens(dict, h.rnd)
		}
		rev := make([]tok, len(toks))
		for i, t := range toks {
			rev[len(toks)-1-i] = t
		}
		seqs = [][]tok{toks, rev}
	}
	a, err := env.build(dict, extra, seed)
	if err != nil {
		h.orFrac.Error = "building the active fraction: " + err.Error()
		return
	}
	ref := func(t tok) string {
		if t.fld() == "f" {
			return refValues(dict, t)
		}
		return refValues(extra[t.fld()], t)
	}
	check := func(form string, f frac.Fraction) {
		for si, sq := range seqs {
			var toks []tok
			for _, t := range sq {
				if t.wf() {
					toks = append(toks, t)
				}
			}
			got := fracSession(f, toks)
			for i, t := range toks {
				want := ref(t)
				kt := "tok=range"
				if t.r == nil {
					kt = "tok=" + shape(t.lit)[6:]
				}
				fk := "field=f"
				if t.fld() != "f" {
					fk = "field=wide"
				}
				h.orFrac.Case(fmt.Sprintf("frac seed=%d n=%d form=%s pass=%d tok=%s", seed, n, form, si, fracTokStr(t)), want != "ok -", "form="+form, kt, fk, fmt.Sprintf("dict=%d", n))
				if got[i] == want {
					continue
				}
				// locate: alone, or after which earlier call?
				replay := []tok{t}
				class := "token-set-differs-from-scan"
				if alone := fracSession(f, []tok{t}); alone[0] == want {
					class = "answer-depends-on-earlier-call"
					replay = append(append([]tok{}, toks[:i]...), t)
					for j := i - 1; j >= 0; j-- {
						if two := fracSession(f, []tok{toks[j], t}); two[1] != want {
							replay = []tok{toks[j], t}
							break
						}
					}
					if len(replay) > 40 {
						replay = replay[len(replay)-40:]
					}
				}
				var rs []string
				for _, x := range replay {
					rs = append(rs, fracTokStr(x))
				}
				h.violate("frac:GetTIDsByTokenExpr("+form+")", class,
					fmt.Sprintf("%s fraction, dictionary of %d values (shape n=%d): one token index, calls %s: the last call returns %s, the reference filter of its field gives %s", form, len(dict), n, strings.Join(rs, " | "), short(got[i]), short(want)),
					fmt.Sprintf("frac seed=%d n=%d seq=%s", seed, n, strings.Join(rs, "|")))
				return // one located violation per form is enough
			}
		}
	}
	check("active", a)
	base := a.BaseFileName
	pre, re, err := env.seal(a, base)
	if err != nil {
		h.orFrac.Error = "sealing: " + err.Error()
		return
	}
	check("sealed", pre)
	h.checkLayout("sealed", pre, seed, n, dict)
	check("reopened", re)
	h.checkLayout("reopened", re, seed, n, dict)
	h.orFrac.Distribution[fmt.Sprintf("dict-bytes>=%dKiB", dictBytes(dict)/16384*16)]++
	if extra != nil {
		h.orFrac.Distribution[fmt.Sprintf("wide-fields=%d", len(extra))]++
	}
}

// checkLayout: the hypothesis BlocksOK of c13_sealed_eq_scan on the real sealed fraction, as its own provider sees
// the token table: field f's entries are non-empty consecutive runs (TIDs contiguous), their concatenation is the
// dictionary in strict bytes.Compare order, MinVal = first value, MaxVal of an entry = last value of its run.
func (h *H) checkLayout(form string, f frac.Fraction, seed int64, n int, dict [][]byte) {
	dp, release := f.DataProvider(context.Background())
	defer release()
	var problem string
	res := guard(func() string {
		minVal, starts, maxVals, runs, ok := frac.VerifSealedFieldLayout(dp, "f")
		if !ok {
			problem = "field f has no token table entries"
			return "ok"
		}
		var flat [][]byte
		next := starts[0]
		for i, run := range runs {
			switch {
			case len(run) == 0:
				problem = fmt.Sprintf("entry %d is empty", i)
			case starts[i] != next:
				problem = fmt.Sprintf("entry %d starts at TID %d, expected %d", i, starts[i], next)
			case maxVals[i] != string(run[len(run)-1]):
				problem = fmt.Sprintf("entry %d: MaxVal %q is not its last value %q", i, short(maxVals[i]), short(string(run[len(run)-1])))
			}
			if problem != "" {
				return "ok"
			}
			next += uint32(len(run))
			flat = append(flat, run...)
		}
		if minVal != string(flat[0]) {
			problem = fmt.Sprintf("MinVal %q is not the first value %q", short(minVal), short(string(flat[0])))
			return "ok"
		}
		for i := 1; i < len(flat); i++ {
			if bytes.Compare(flat[i-1], flat[i]) >= 0 {
				problem = fmt.Sprintf("values %d and %d are not in strict bytes.Compare order: %q then %q", i-1, i, short(string(flat[i-1])), short(string(flat[i])))
				return "ok"
			}
		}
		if len(flat) != len(dict) {
			problem = fmt.Sprintf("the table covers %d values in %d entries, the dictionary has %d", len(flat), len(runs), len(dict))
			return "ok"
		}
		for i := range flat {
			if !bytes.Equal(flat[i], dict[i]) {
				problem = fmt.Sprintf("value %d is %q, the dictionary has %q", i, short(string(flat[i])), short(string(dict[i])))
				return "ok"
			}
		}
		h.orFrac.Distribution[fmt.Sprintf("layout-entries>=%d", len(runs)/64*64)]++
		big := 0
		for _, run := range runs {
			big = max(big, dictBytes(run))
		}
		h.orFrac.Distribution[fmt.Sprintf("layout-largest-run>=%dKiB", big/16384*16)]++
		return "ok"
	})
	key := fmt.Sprintf("frac seed=%d n=%d layout=%s", seed, n, form)
	h.orFrac.Case(key, len(dict) > 100, "form="+form, "layout")
	if res == "panic" {
		problem = "panic while reading the token table"
	}
	if problem != "" {
		h.violate("frac:tokenTable("+form+")", "sealed-dictionary-not-sorted-runs",
			fmt.Sprintf("%s fraction, dictionary of %d values (shape n=%d), field f: %s", form, len(dict), n, problem), key)
	}
}

func dictBytes(d [][]byte) int {
	n := 0
	for _, v := range d {
		n += len(v) + 4
	}
	return n
}

func (h *H) genFrac() {
	if h.o.Only != "" && h.o.Only != "frac.property" {
		return
	}
	env, err := newFracEnv()
	if err != nil {
		h.orFrac.Error = err.Error()
		return
	}
	defer env.close()
	sizes := []int{5, 60, 2500, 5001, 1502, 1203, 605, 1304, 23006}
	if h.o.Thorough() {
		sizes = []int{1, 5, 60, 700, 2500, 5001, 1502, 1203, 605, 1304, 23006, 6000, 12001, 3002, 4003, 2505, 20000, 100406}
	}
	for rep := 0; rep < h.o.Pick(1, 3); rep++ {
		for i, n := range sizes {
			h.runFrac(env, h.o.Seed+int64(i)+int64(1000*rep), n, nil)
		}
	}
}

// replayFrac: `frac seed=<s> n=<n> seq=<field>=<token>|<field>=<token>|...` (all three forms are re-run);
// the older form `tok=<token>` (field f, single call) is accepted too.
func (h *H) replayFrac(f []string) error {
	var seed int64
	var n int
	var sq []tok
	layoutOnly := false
	for _, kv := range f[1:] {
		p := strings.SplitN(kv, "=", 2)
		if len(p) != 2 {
			continue
		}
		switch p[0] {
		case "seed":
			seed, _ = strconv.ParseInt(p[1], 10, 64)
		case "n":
			n, _ = strconv.Atoi(p[1])
		case "layout":
			layoutOnly = true
		case "tok":
			t, err := parseTok(p[1])
			if err != nil {
				return err
			}
			sq = []tok{t}
		case "seq":
			for _, x := range strings.Split(p[1], "|") {
				t, err := parseFracTok(x)
				if err != nil {
					return err
				}
				sq = append(sq, t)
			}
		}
	}
	if layoutOnly {
		sq = []tok{{lit: patTerms("*")}}
	}
	if n == 0 || len(sq) == 0 {
		return fmt.Errorf("missing n or tokens")
	}
	env, err := newFracEnv()
	if err != nil {
		return err
	}
	defer env.close()
	h.runFrac(env, seed, n, [][]tok{sq})
	return nil
}
