package main

// seqql.range: from query TEXT through the real parsers (parser.ParseSeqQL, legacy parser.ParseQuery) to pattern.Search
// over ordered and unordered providers.  The ends of a range are written as QUOTED literals that may carry outer
// spaces / tabs, be empty, whitespace only, or numeric only after trimming.  A keyword token is the whole field
// value, so this whitespace is significant: the reference is the interval semantics on the ends exactly as written.

import (
	"context"
	"fmt"
	"sort"
	"strconv"

	"github.com/ozontech/seq-db/parser"
	"github.com/ozontech/seq-db/pattern"
	"github.com/ozontech/seq-db/seq"

	"verifharness/internal/vh"
)

var rangeMapping = seq.Mapping{"m": seq.NewSingleType(seq.TokenizerTypeKeyword, "", 0)}

func findRange(n *parser.ASTNode) *parser.Range {
	if n == nil {
		return nil
	}
	if r, ok := n.Value.(*parser.Range); ok {
		return r
	}
	for _, c := range n.Children {
		if r := findRange(c); r != nil {
			return r
		}
	}
	return nil
}

// endText: seq-ql unquotes Go-style escapes; the legacy language only knows \" \\ \* inside quotes, so there the
// end is written with its bytes as they are.
func endText(lang string, e *string) string {
	if e == nil {
		return "*"
	}
	if lang == "seqql" {
		return strconv.Quote(*e)
	}
	return `"` + *e + `"`
}

func (h *H) opSeqQLRange(lang string, r *rng, dict [][]byte, ordered bool) {
	var q string
	if lang == "seqql" {
		q = "m:" + map[bool]string{true: "[", false: "("}[r.incFrom] + endText(lang, r.from) + ", " + endText(lang, r.to) + map[bool]string{true: "]", false: ")"}[r.incTo]
	} else {
		q = "m:" + map[bool]string{true: "[", false: "{"}[r.incFrom] + endText(lang, r.from) + " TO " + endText(lang, r.to) + map[bool]string{true: "]", false: "}"}[r.incTo]
	}
	var pr *parser.Range
	res := guard(func() string {
		var root *parser.ASTNode
		if lang == "seqql" {
			x, err := parser.ParseSeqQL(q, rangeMapping)
			if err != nil {
				return "err"
			}
			root = x.Root
		} else {
			x, err := parser.ParseQuery(q, rangeMapping)
			if err != nil {
				return "err"
			}
			root = x
		}
		pr = findRange(root)
		if pr == nil {
			return "norange"
		}
		return "ok"
	})
	h.chSeqQL.Tag(lang + "-parse=" + res)
	if res != "ok" {
		return
	}
	written := tok{r: r}
	req := fmt.Sprintf("search %s %s 1 %s %s", written, vh.B(ordered), hxList(dict, ","), numTable(written.numStrs(dict)...))
	tp := &simpleTP{base: 1, toks: dict, ordered: ordered}
	impl := guard(func() string { return fmtTids(pattern.Search(context.Background(), pr, tp)) })
	ws := "ends=plain"
	for _, e := range []*string{r.from, r.to} {
		if e != nil && (*e == "" || *e != string(trimWS([]byte(*e)))) {
			ws = "ends=outer-whitespace-or-empty"
		}
	}
	h.chSeqQL.Add(req, impl, r.from != nil || r.to != nil, lang, ws, "ordered="+vh.B(ordered))
	want := refScan(written, 1, dict)
	h.orRange.Case("seqql "+lang+" "+q+" ordered="+vh.B(ordered), r.from != nil || r.to != nil, "src="+lang+"-text", ws)
	if impl != want {
		h.violate("parser:parseRangeTerm->pattern.Search", "query-range-differs-from-interval-on-written-ends",
			fmt.Sprintf("%s query %s over the %s dictionary %q: Search answers %s, the interval on the ends as written gives %s (parsed ends: from=%q to=%q)", lang, q, map[bool]string{true: "ordered", false: "unordered"}[ordered], dict, impl, want, pr.From.Data, pr.To.Data),
			fmt.Sprintf("seqqlrange %s %s %s %s", lang, written, vh.B(ordered), hxList(dict, ",")))
	}
}

func trimWS(b []byte) []byte {
	i, j := 0, len(b)
	for i < j && (b[i] == ' ' || b[i] == '\t' || b[i] == '\n' || b[i] == '\r') {
		i++
	}
	for j > i && (b[j-1] == ' ' || b[j-1] == '\t' || b[j-1] == '\n' || b[j-1] == '\r') {
		j--
	}
	return b[i:j]
}

func (h *H) genSeqQLRange() {
	toks := []string{"", " ", "  ", " 5", "5 ", "10", "5", "7", "\t7", "7\t", "9", "a", "a ", " a", "a b", "a!", "b", "b ", "b c", "c"}
	sort.Strings(toks)
	dict := bs(toks)
	shuf := h.shuffled(dict)
	endVals := []string{"", " ", "  ", "a", "a ", " a", "a b", "b", "b ", "c", "5", " 5", "5 ", "9", "10", "\t7", "7\t", "x y "}
	ends := []*string{nil}
	for i := range endVals {
		ends = append(ends, &endVals[i])
	}
	n := 0
	for _, f := range ends {
		for _, t := range ends {
			for inc := 0; inc < 4; inc++ {
				r := &rng{from: f, to: t, incFrom: inc&1 != 0, incTo: inc&2 != 0}
				n++
				h.opSeqQLRange("seqql", r, dict, true)
				h.opSeqQLRange("seqql", r, shuf, false)
				if h.o.Thorough() || n%3 == 0 {
					h.opSeqQLRange("legacy", r, dict, true)
					h.opSeqQLRange("legacy", r, shuf, false)
				}
			}
		}
	}
}

// replay: `seqqlrange <lang> <R/...> <ordered> <dict>`
func (h *H) replaySeqQLRange(f []string) error {
	if len(f) != 5 {
		return fmt.Errorf("want 5 fields")
	}
	t, err := parseTok(f[2])
	if err != nil || t.r == nil {
		return fmt.Errorf("bad range: %v", err)
	}
	blocks, err := parseBlocks(f[4])
	if err != nil {
		return err
	}
	h.opSeqQLRange(f[1], t.r, flatten(blocks), f[3] == "1")
	return nil
}
