package main

// parser.wf: the hypothesis of c13_wildcard_iff_glob is what the parsers deliver.  Query strings are pushed
// through the real parsers (seq-ql and the legacy query language, keyword and text fields); every Literal of the
// resulting AST is (a) sent to the driver's `wf` - the Lean predicate WF must hold - and (b) checked against the
// reference glob on sample tokens, whatever its shape (glob.property).

import (
	"fmt"
	"strings"

	"github.com/ozontech/seq-db/parser"
	"github.com/ozontech/seq-db/seq"

	"verifharness/internal/vh"
)

var parserMapping = seq.Mapping{
	"k": seq.NewSingleType(seq.TokenizerTypeKeyword, "", 0),
	"t": seq.NewSingleType(seq.TokenizerTypeText, "", 0),
	"p": seq.NewSingleType(seq.TokenizerTypePath, "", 0),
}

func collectLiterals(n *parser.ASTNode, out *[]*parser.Literal) {
	if n == nil {
		return
	}
	if l, ok := n.Value.(*parser.Literal); ok {
		*out = append(*out, l)
	}
	for _, c := range n.Children {
		collectLiterals(c, out)
	}
}

func fromLiteral(l *parser.Literal) []term {
	var ts []term
	for _, t := range l.Terms {
		if t.Kind == parser.TermSymbol {
			ts = append(ts, term{star: true})
		} else {
			ts = append(ts, term{data: []byte(t.Data)})
		}
	}
	return ts
}

func (h *H) opParse(lang, q string) {
	var root *parser.ASTNode
	res := guard(func() string {
		if lang == "seqql" {
			r, err := parser.ParseSeqQL(q, parserMapping)
			if err != nil {
				return "err"
			}
			root = r.Root
		} else {
			r, err := parser.ParseQuery(q, parserMapping)
			if err != nil {
				return "err"
			}
			root = r
		}
		return "ok"
	})
	h.chParse.Tag(lang + "=" + res)
	if res != "ok" {
		return
	}
	var lits []*parser.Literal
	collectLiterals(root, &lits)
	for _, l := range lits {
		ts := fromLiteral(l)
		h.chParse.Add("wf "+fmtTerms(ts), "ok 1", len(ts) > 1, lang, shape(ts))
		if !wfTerms(ts) {
			h.rep.Note("parser (%s) produced a term list outside WF for query %q: %s", lang, q, fmtTerms(ts))
		}
		// the property on what the parser really produced, well-formed or not
		for _, v := range h.sampleTokens(ts) {
			req := fmt.Sprintf("check %s %s 0", fmtTerms(ts), hx(v))
			impl := implCheck(ts, false, v)
			want := "ok " + vh.B(refGlob(ts, v))
			h.orGlob.Case(req, len(ts) > 1, "src=parser", shape(ts), "match="+want[3:])
			if impl != want {
				h.violate("pattern/pattern.go:check", "glob-mismatch",
					fmt.Sprintf("query %q (%s): pattern %s on token %q: check answers %s, glob semantics say %s", q, lang, fmtTerms(ts), v, impl, want), req)
			}
		}
	}
}

// sampleTokens: tokens derived from the pattern (stars replaced by "", "a", "ab"; one byte dropped; one added).
func (h *H) sampleTokens(ts []term) [][]byte {
	var res [][]byte
	for _, fill := range []string{"", "a", "ab"} {
		var v []byte
		for _, t := range ts {
			if t.star {
				v = append(v, fill...)
			} else {
				v = append(v, t.data...)
			}
		}
		res = append(res, v)
		if len(v) > 0 {
			res = append(res, v[1:], v[:len(v)-1], append(append([]byte{}, v...), 'a'))
		}
	}
	return res
}

func (h *H) genParse() {
	vals := words("ab*", h.o.Pick(4, 5))
	for _, f := range []string{"k", "t", "p"} {
		for _, v := range vals {
			if v == "" {
				continue
			}
			h.opParse("seqql", f+":"+v)
			h.opParse("legacy", f+":"+v)
			h.opParse("seqql", f+`:"`+v+`"`)
			h.opParse("legacy", f+`:"`+v+`"`)
		}
	}
	// composite / quoted / escaped forms
	for _, q := range []string{
		`k:""`, `t:""`, `k:"a b*c"`, `t:"a b*c *d* e**f"`, `t:a*b AND k:*`, `k:a\*b`, `k:"a\*b*"`, `t:"* a"`, `k:'a*'b*`, "k:`a*b`*c",
		`k:in(a*, *b, "c d*")`, `t:a-b*c`, `t:"a-b*c_d"`, `k:A*B`, `t:A*B`, `NOT k:a*b*`, `k:*a OR t:b*`, `p:"/a/*/b"`, `p:/a/b*`,
		`k:***`, `t:***`, `t:"a ** b"`, `k:"**a**"`, `t:*`, `k:*`, `_exists_:k`,
	} {
		h.opParse("seqql", q)
		h.opParse("legacy", q)
	}
	for i := 0; i < h.o.Pick(500, 10000); i++ {
		v := string(h.randWord("ab*_ -", 8))
		f := []string{"k", "t", "p"}[h.rnd.Intn(3)]
		q := f + ":" + v
		if h.rnd.Bool() {
			q = f + `:"` + v + `"`
		}
		q = strings.TrimSpace(q)
		h.opParse("seqql", q)
		h.opParse("legacy", q)
	}
}
