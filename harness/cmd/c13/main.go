// C13 harness: token matching = glob / range semantics, with or without dictionary narrowing.
//
// Correspondence channels (real Go code vs the Lean definitions the theorems are about, through drv_c13):
//
//	kmp.pf / kmp.find / kmp.seq   pattern.calcPrefFunc, findSubstring, findSequence    vs SV.Kmp.*
//	pattern.check                 literalSearch/wildcardSearch.check (narrowed 0/1)    vs SV.Pattern.checkTerms
//	glob.spec                     the harness' reference glob matcher                  vs SV.Pattern.globB (= Glob)
//	parser.wf                     term lists produced by the real parsers              vs SV.Pattern.wfB (= WF)
//	pattern.range                 range searcher choice + check                        vs newRangeNumberSearch/checkText
//	pattern.search                pattern.Search over simple and token.Provider        vs SV.Pattern.search
//	active.find                   frac.TokenList.FindPattern (real active token list)  vs SV.Pattern.activeFind
//	provider.get                  token.Provider.GetToken (findBlock + block cache)     vs SV.Pattern.providerGetTokens
//	spec.leaf                     check of the real searchers                          vs SV.Spec.Leaf.valMatch (shared Spec)
//	sealed.sequence               call sequences on one sealedTokenIndex               vs SV.Pattern.sealedSearchSeq (stateless)
//	seqql.range                   query text -> real parsers -> pattern.Search         vs SV.Pattern.search on the ends verbatim
//	table.select                  token.Table.SelectEntries                            vs SV.Pattern.selectEntries
//	sealed.search                 sealedTokenIndex.GetTIDsByTokenExpr (hand-built table) vs SV.Pattern.sealedSearch
//
// System oracles (the property itself on the real code, reference semantics computed in Go):
//
//	glob.property    check(token) == reference glob, for every term list the parsers can produce
//	search.property  ordered / sealed search == scan of the whole dictionary with the reference semantics
//	range.property   range check == interval semantics (numeric iff every given end is a finite number)
//	frac.property    real Active and Sealed fractions: GetTIDsByTokenExpr == reference filter of the field's dictionary
package main

import (
	"bytes"
	"context"
	"encoding/hex"
	"fmt"
	"math"
	"math/big"
	"os"
	"sort"
	"strconv"
	"strings"

	"go.uber.org/zap"

	"github.com/ozontech/seq-db/cache"
	"github.com/ozontech/seq-db/frac"
	"github.com/ozontech/seq-db/frac/token"
	"github.com/ozontech/seq-db/logger"
	"github.com/ozontech/seq-db/parser"
	"github.com/ozontech/seq-db/pattern"

	"verifharness/internal/vh"
)

// ------------------------------------------------------------------ terms, tokens, encoding

type term struct {
	star bool
	data []byte
}

func hx(b []byte) string {
	if len(b) == 0 {
		return "_"
	}
	return hex.EncodeToString(b)
}

func unhx(s string) ([]byte, error) {
	if s == "_" {
		return []byte{}, nil
	}
	return hex.DecodeString(s)
}

func hxList(bs [][]byte, sep string) string {
	if len(bs) == 0 {
		return "-"
	}
	ss := make([]string, len(bs))
	for i, b := range bs {
		ss[i] = hx(b)
	}
	return strings.Join(ss, sep)
}

func fmtTerms(ts []term) string {
	if len(ts) == 0 {
		return "-"
	}
	ss := make([]string, len(ts))
	for i, t := range ts {
		if t.star {
			ss[i] = "*"
		} else {
			ss[i] = "T" + hx(t.data)
		}
	}
	return strings.Join(ss, ",")
}

func parseTermsStr(s string) ([]term, error) {
	if s == "-" {
		return nil, nil
	}
	var ts []term
	for _, p := range strings.Split(s, ",") {
		if p == "*" {
			ts = append(ts, term{star: true})
		} else if strings.HasPrefix(p, "T") {
			b, err := unhx(p[1:])
			if err != nil {
				return nil, err
			}
			ts = append(ts, term{data: b})
		} else {
			return nil, fmt.Errorf("bad term %q", p)
		}
	}
	return ts, nil
}

// patTerms splits a pattern string at '*' the way the parsers do: text runs become text terms, every '*'
// one symbol term; the empty pattern is the single empty text term.
func patTerms(p string) []term {
	if p == "" {
		return []term{{data: []byte{}}}
	}
	var ts []term
	cur := []byte{}
	for i := 0; i < len(p); i++ {
		if p[i] == '*' {
			if len(cur) > 0 {
				ts = append(ts, term{data: cur})
				cur = []byte{}
			}
			ts = append(ts, term{star: true})
		} else {
			cur = append(cur, p[i])
		}
	}
	if len(cur) > 0 {
		ts = append(ts, term{data: cur})
	}
	return ts
}

func toLiteral(ts []term) *parser.Literal {
	l := &parser.Literal{Field: "f"}
	for _, t := range ts {
		if t.star {
			l.Terms = append(l.Terms, parser.Term{Kind: parser.TermSymbol, Data: "*"})
		} else {
			l.Terms = append(l.Terms, parser.Term{Kind: parser.TermText, Data: string(t.data)})
		}
	}
	return l
}

// wfTerms is the hypothesis of c13_wildcard_iff_glob: non-empty, no two adjacent text terms, no empty text
// term strictly inside.  Every list the parsers produce satisfies it.
func wfTerms(ts []term) bool {
	if len(ts) == 0 {
		return false
	}
	for i := range ts {
		if i > 0 && !ts[i].star && !ts[i-1].star {
			return false
		}
		if i > 0 && i < len(ts)-1 && !ts[i].star && len(ts[i].data) == 0 {
			return false
		}
	}
	return true
}

// refGlob: reference glob semantics (independent of both the code and the Lean matcher): dynamic programming
// over (term index, token position).
func refGlob(ts []term, v []byte) bool {
	// reach[j] = the terms so far can consume exactly v[:j]
	reach := make([]bool, len(v)+1)
	reach[0] = true
	for _, t := range ts {
		next := make([]bool, len(v)+1)
		if t.star {
			seen := false
			for j := 0; j <= len(v); j++ {
				seen = seen || reach[j]
				next[j] = seen
			}
		} else {
			for j := 0; j+len(t.data) <= len(v); j++ {
				if reach[j] && bytes.Equal(v[j:j+len(t.data)], t.data) {
					next[j+len(t.data)] = true
				}
			}
		}
		reach = next
	}
	return reach[len(v)]
}

type rng struct {
	from, to       *string // nil = '*'
	incFrom, incTo bool
}

type tok struct {
	lit   []term
	r     *rng
	field string // "" = "f"
}

func (t tok) fld() string {
	if t.field == "" {
		return "f"
	}
	return t.field
}

func (t tok) wf() bool { return t.r != nil || wfTerms(t.lit) }

func fmtEnd(e *string) string {
	if e == nil {
		return "*"
	}
	return "T" + hx([]byte(*e))
}

func (t tok) String() string {
	if t.r != nil {
		return fmt.Sprintf("R/%s/%s/%s%s", fmtEnd(t.r.from), fmtEnd(t.r.to), vh.B(t.r.incFrom), vh.B(t.r.incTo))
	}
	return "L/" + fmtTerms(t.lit)
}

func parseTok(s string) (tok, error) {
	p := strings.Split(s, "/")
	switch {
	case len(p) == 2 && p[0] == "L":
		ts, err := parseTermsStr(p[1])
		return tok{lit: ts}, err
	case len(p) == 4 && p[0] == "R" && len(p[3]) == 2:
		r := &rng{incFrom: p[3][0] == '1', incTo: p[3][1] == '1'}
		for i, e := range []string{p[1], p[2]} {
			if e == "*" {
				continue
			}
			if !strings.HasPrefix(e, "T") {
				return tok{}, fmt.Errorf("bad end %q", e)
			}
			b, err := unhx(e[1:])
			if err != nil {
				return tok{}, err
			}
			s := string(b)
			if i == 0 {
				r.from = &s
			} else {
				r.to = &s
			}
		}
		return tok{r: r}, nil
	}
	return tok{}, fmt.Errorf("bad token %q", s)
}

func (t tok) parserToken() parser.Token {
	if t.r != nil {
		pr := &parser.Range{Field: t.fld(), IncludeFrom: t.r.incFrom, IncludeTo: t.r.incTo}
		pr.From = parser.Term{Kind: parser.TermSymbol, Data: "*"}
		pr.To = parser.Term{Kind: parser.TermSymbol, Data: "*"}
		if t.r.from != nil {
			pr.From = parser.Term{Kind: parser.TermText, Data: *t.r.from}
		}
		if t.r.to != nil {
			pr.To = parser.Term{Kind: parser.TermText, Data: *t.r.to}
		}
		return pr
	}
	l := toLiteral(t.lit)
	l.Field = t.fld()
	return l
}

// ------------------------------------------------------------------ numbers

// fkey maps a finite float64 to an integer that is strictly monotone in the float (+0 and -0 both to 0).
func fkey(f float64) int64 {
	if f == 0 {
		return 0
	}
	b := math.Float64bits(f)
	if b>>63 != 0 {
		return -int64(b &^ (1 << 63))
	}
	return int64(b)
}

func parseNum(s string) (float64, bool) {
	f, err := strconv.ParseFloat(s, 64)
	if err != nil || math.IsNaN(f) || math.IsInf(f, 0) {
		return 0, false
	}
	return f, true
}

// numTable renders the oracle table `num=<hex>:<key>;...` for all strings that parse as finite floats.
func numTable(strs ...[]byte) string {
	seen := map[string]bool{}
	var es []string
	for _, s := range strs {
		if seen[string(s)] {
			continue
		}
		seen[string(s)] = true
		if f, ok := parseNum(string(s)); ok {
			es = append(es, fmt.Sprintf("%s:%d", hx(s), fkey(f)))
		}
	}
	if len(es) == 0 {
		return "num=-"
	}
	return "num=" + strings.Join(es, ";")
}

func (t tok) numStrs(dict [][]byte) [][]byte {
	if t.r == nil {
		return nil
	}
	var res [][]byte
	if t.r.from != nil {
		res = append(res, []byte(*t.r.from))
	}
	if t.r.to != nil {
		res = append(res, []byte(*t.r.to))
	}
	return append(res, dict...)
}

// refRange: the property's statement.  Numeric iff every given end is a finite number (then a token that is
// not a finite number never matches), text otherwise; open / closed / unbounded ends.
func refRange(r *rng, v []byte) bool {
	numeric := true
	var lo, hi float64
	if r.from != nil {
		f, ok := parseNum(*r.from)
		numeric = numeric && ok
		lo = f
	}
	if r.to != nil {
		f, ok := parseNum(*r.to)
		numeric = numeric && ok
		hi = f
	}
	if numeric {
		x, ok := parseNum(string(v))
		if !ok {
			return false
		}
		if r.from != nil && !(lo < x || (r.incFrom && lo == x)) {
			return false
		}
		if r.to != nil && !(x < hi || (r.incTo && x == hi)) {
			return false
		}
		return true
	}
	s := string(v)
	if r.from != nil && !(*r.from < s || (r.incFrom && *r.from == s)) {
		return false
	}
	if r.to != nil && !(s < *r.to || (r.incTo && s == *r.to)) {
		return false
	}
	return true
}

// specNumFragment: ParseFloat and the Spec's numVal (decimal integers -?[0-9]+) treat s alike: either a decimal
// integer small enough to be exact in float64, or a string neither accepts.
func specNumFragment(s string) bool {
	digits := s
	if strings.HasPrefix(digits, "-") {
		digits = digits[1:]
	}
	isInt := len(digits) > 0
	for i := 0; i < len(digits); i++ {
		isInt = isInt && digits[i] >= '0' && digits[i] <= '9'
	}
	if isInt {
		return len(digits) <= 15
	}
	_, ok := parseNum(s)
	return !ok
}

func refMatch(t tok, v []byte) bool {
	if t.r != nil {
		return refRange(t.r, v)
	}
	return refGlob(t.lit, v)
}

// ------------------------------------------------------------------ running the real code

func guard(f func() string) (res string) {
	defer func() {
		if r := recover(); r != nil {
			res = "panic"
		}
	}()
	return f()
}

func implCheck(ts []term, narrowed bool, v []byte) string {
	return guard(func() string { return "ok " + vh.B(pattern.VerifCheck(toLiteral(ts), narrowed, v)) })
}

type simpleTP struct {
	base    uint32
	toks    [][]byte
	ordered bool
}

func (tp *simpleTP) GetToken(tid uint32) []byte { return tp.toks[tid-tp.base] }
func (tp *simpleTP) FirstTID() uint32           { return tp.base }
func (tp *simpleTP) LastTID() uint32            { return tp.base + uint32(len(tp.toks)) - 1 }
func (tp *simpleTP) Ordered() bool              { return tp.ordered }

func fmtTids(tids []uint32, err error) string {
	if err != nil {
		return "err"
	}
	return "ok " + vh.JoinInts(tids)
}

// sealedFixture: a token table for field "f" (preceded by a decoy field) whose blocks are pre-loaded in a cache.
type sealedFixture struct {
	table   token.Table
	cache   *cache.Cache[*token.CacheEntry]
	entries []*token.TableEntry
}

// newSealedFixture lays `blocks` (runs of the sorted dictionary) out as token-table entries starting at TID base.
// phys[i] = true puts entry i into the same physical block as entry i-1 (StartIndex accumulates).
func newSealedFixture(base uint32, blocks [][][]byte, phys []bool) (*sealedFixture, error) {
	fx := &sealedFixture{table: token.Table{}, cache: cache.NewCache[*token.CacheEntry](nil, nil)}
	// decoy field occupying TIDs 1..base-1 in physical block 0
	var physRuns [][][][]byte // per physical block: runs
	blockIdx := uint32(0)
	if base > 1 {
		var run [][]byte
		for i := uint32(1); i < base; i++ {
			run = append(run, []byte(fmt.Sprintf("zz%03d", i)))
		}
		fx.table["decoy"] = &token.FieldData{MinVal: string(run[0]), Entries: []*token.TableEntry{{
			StartIndex: 0, StartTID: 1, BlockIndex: 0, ValCount: base - 1, MinVal: string(run[0]), MaxVal: string(run[len(run)-1])}}}
		physRuns = append(physRuns, [][][]byte{run})
		blockIdx = 1
	}
	fd := &token.FieldData{}
	tid := base
	startIndex := uint32(0)
	for i, b := range blocks {
		if len(b) == 0 {
			return nil, fmt.Errorf("empty block")
		}
		if i == 0 || !phys[i] {
			if i > 0 {
				blockIdx++
			}
			physRuns = append(physRuns, nil)
			startIndex = 0
		}
		e := &token.TableEntry{StartIndex: startIndex, StartTID: tid, BlockIndex: blockIdx, ValCount: uint32(len(b)), MaxVal: string(b[len(b)-1])}
		if i == 0 {
			fd.MinVal = string(b[0])
			e.MinVal = fd.MinVal
		}
		fd.Entries = append(fd.Entries, e)
		physRuns[len(physRuns)-1] = append(physRuns[len(physRuns)-1], b)
		startIndex += uint32(len(b))
		tid += uint32(len(b))
	}
	if len(blocks) > 0 {
		fx.table["f"] = fd
		fx.entries = fd.Entries
	}
	for i, runs := range physRuns {
		ce, err := token.VerifCacheEntry(runs)
		if err != nil {
			return nil, err
		}
		fx.cache.Get(uint32(i), func() (*token.CacheEntry, int) { return ce, ce.GetSize() })
	}
	return fx, nil
}

func (fx *sealedFixture) provider() *token.Provider {
	return token.NewProvider(token.NewBlockLoader("verif", nil, fx.cache), fx.entries)
}

func flatten(blocks [][][]byte) [][]byte {
	var res [][]byte
	for _, b := range blocks {
		res = append(res, b...)
	}
	return res
}

func fmtBlocks(blocks [][][]byte) string {
	if len(blocks) == 0 {
		return "-"
	}
	ss := make([]string, len(blocks))
	for i, b := range blocks {
		ss[i] = hxList(b, ",")
	}
	return strings.Join(ss, ";")
}

func parseBlocks(s string) ([][][]byte, error) {
	if s == "-" {
		return nil, nil
	}
	var res [][][]byte
	for _, bs := range strings.Split(s, ";") {
		var b [][]byte
		if bs != "-" {
			for _, h := range strings.Split(bs, ",") {
				x, err := unhx(h)
				if err != nil {
					return nil, err
				}
				b = append(b, x)
			}
		}
		res = append(res, b)
	}
	return res, nil
}

func refScan(t tok, base uint32, dict [][]byte) string {
	var tids []uint32
	for i, v := range dict {
		if refMatch(t, v) {
			tids = append(tids, base+uint32(i))
		}
	}
	return "ok " + vh.JoinInts(tids)
}

// ------------------------------------------------------------------ enumeration helpers

func words(alpha string, maxLen int) []string {
	res := []string{""}
	prev := []string{""}
	for l := 1; l <= maxLen; l++ {
		var cur []string
		for _, p := range prev {
			for i := 0; i < len(alpha); i++ {
				cur = append(cur, p+string(alpha[i]))
			}
		}
		res = append(res, cur...)
		prev = cur
	}
	return res
}

func shape(ts []term) string {
	if len(ts) == 1 && !ts[0].star {
		return "shape=literal"
	}
	s := "shape="
	if len(ts) > 0 && !ts[0].star {
		s += "P"
	}
	mid := 0
	for i := 1; i < len(ts)-1; i++ {
		if !ts[i].star {
			mid++
		}
	}
	if mid > 2 {
		mid = 2
	}
	s += fmt.Sprintf("m%d", mid)
	if len(ts) > 1 && !ts[len(ts)-1].star {
		s += "S"
	}
	return s
}

// ------------------------------------------------------------------ the harness

type H struct {
	o   vh.Opts
	rep *vh.Report
	rnd *vh.RNG

	chPf, chFind, chSeq, chCheck, chGlob, chParse, chRange, chSearch, chActive, chProvider, chSelect, chSealed, chSeq2, chSpec, chSeqQL *vh.Channel
	orGlob, orSearch, orRange, orFrac                                                                                                   *vh.Oracle
}

func (h *H) violate(site, class, what string, replay ...string) {
	h.rep.Violate(vh.Violation{Site: site, Class: class, What: what, Replay: replay})
}

// opCheck: one (terms, token, narrowed) case for pattern.check (+ glob.property when narrowed = false).
func (h *H) opCheck(ts []term, v []byte, narrowed bool) {
	req := fmt.Sprintf("check %s %s %s", fmtTerms(ts), hx(v), vh.B(narrowed))
	impl := implCheck(ts, narrowed, v)
	nontriv := impl != "panic" && len(ts) > 1
	h.chCheck.Add(req, impl, nontriv, shape(ts), "narrowed="+vh.B(narrowed), "res="+impl)
	if !narrowed && wfTerms(ts) {
		h.chSpec.Add(fmt.Sprintf("specleaf L/%s %s", fmtTerms(ts), hx(v)), impl, len(ts) > 1, "leaf=lit", shape(ts))
		want := "ok " + vh.B(refGlob(ts, v))
		h.orGlob.Case(req, len(ts) > 1, shape(ts), "match="+want[3:])
		if impl != want {
			h.violate("pattern/pattern.go:check", "glob-mismatch",
				fmt.Sprintf("pattern %s on token %q: check answers %s, glob semantics say %s", fmtTerms(ts), v, impl, want), req)
		}
	}
}

func (h *H) opGlobSpec(ts []term, v []byte) {
	h.chGlob.Add(fmt.Sprintf("glob %s %s", fmtTerms(ts), hx(v)), "ok "+vh.B(refGlob(ts, v)), len(ts) > 1, shape(ts))
}

func (h *H) opRange(r *rng, v []byte) {
	t := tok{r: r}
	req := fmt.Sprintf("rcheck %s %s %s", t, hx(v), numTable(t.numStrs([][]byte{v})...))
	var numeric, ok bool
	impl := guard(func() string {
		numeric, ok = pattern.VerifRangeCheck(t.parserToken().(*parser.Range), v)
		k := "t"
		if numeric {
			k = "n"
		}
		return "ok " + k + " " + vh.B(ok)
	})
	ends := "ends="
	for _, e := range []*string{r.from, r.to} {
		switch {
		case e == nil:
			ends += "*"
		default:
			if _, isNum := parseNum(*e); isNum {
				ends += "n"
			} else {
				ends += "t"
			}
		}
	}
	h.chRange.Add(req, impl, r.from != nil || r.to != nil, ends, "res="+impl)
	strs := t.numStrs([][]byte{v})
	inFrag := true
	for _, x := range strs {
		inFrag = inFrag && specNumFragment(string(x))
	}
	if inFrag && impl != "panic" {
		h.chSpec.Add(fmt.Sprintf("specleaf %s %s", t, hx(v)), "ok "+vh.B(ok), r.from != nil || r.to != nil, "leaf=range", ends)
	} else {
		h.chSpec.Tag("range-outside-numVal-fragment")
	}
	if impl != "panic" { // every range, inside the fragment or not: the Spec leaf under the ParseFloat reading
		h.chSpec.Add(fmt.Sprintf("specleafw %s %s %s", t, hx(v), numTable(strs...)), "ok "+vh.B(ok), r.from != nil || r.to != nil, "leaf=rangeWith", ends)
	}
	want := refRange(r, v)
	h.orRange.Case(req, r.from != nil || r.to != nil, ends, "match="+vh.B(want))
	if impl != "panic" && ok != want || impl == "panic" {
		h.violate("pattern/pattern.go:rangeSearch.check", "range-mismatch",
			fmt.Sprintf("range %s on token %q: check answers %s, interval semantics say %v", t, v, impl, want), req)
	}
}

// opSearch: pattern.Search over a simple provider (ordered or not) and, for ordered, also over a real
// token.Provider built on the same dictionary split into `blocks`.
func (h *H) opSearch(t tok, ordered bool, base uint32, blocks [][][]byte, phys []bool, real bool) {
	dict := flatten(blocks)
	req := fmt.Sprintf("search %s %s %d %s %s", t, vh.B(ordered), base, hxList(dict, ","), numTable(t.numStrs(dict)...))
	var impl string
	kind := "tp=simple"
	if real {
		kind = "tp=token.Provider"
		fx, err := newSealedFixture(base, blocks, phys)
		if err != nil {
			h.rep.Note("fixture: %v", err)
			return
		}
		impl = guard(func() string { return fmtTids(pattern.Search(context.Background(), t.parserToken(), fx.provider())) })
	} else {
		tp := &simpleTP{base: base, toks: dict, ordered: ordered}
		impl = guard(func() string { return fmtTids(pattern.Search(context.Background(), t.parserToken(), tp)) })
	}
	kt := "tok=range"
	if t.r == nil {
		kt = "tok=" + shape(t.lit)[6:]
	}
	h.chSearch.Add(req, impl, len(dict) > 1 && impl != "ok -", kind, "ordered="+vh.B(ordered), kt, fmt.Sprintf("dict=%d", min(len(dict), 8)))
	if t.wf() && (!ordered || sortedDistinct(dict)) {
		want := refScan(t, base, dict)
		h.orSearch.Case(req, len(dict) > 1 && want != "ok -", kind, "ordered="+vh.B(ordered), kt)
		if impl != want {
			h.violate("pattern/pattern.go:Search", "search-differs-from-scan",
				fmt.Sprintf("token %s over %s dictionary %q (first TID %d): Search answers %s, scanning with the glob/range semantics gives %s", t, map[bool]string{true: "ordered", false: "unordered"}[ordered], dict, base, impl, want), req)
		}
	}
}

func sortedDistinct(d [][]byte) bool {
	for i := 1; i < len(d); i++ {
		if bytes.Compare(d[i-1], d[i]) >= 0 {
			return false
		}
	}
	return true
}

func (h *H) opSelect(hint []byte, blocks [][][]byte) {
	fd := &token.FieldData{MinVal: string(blocks[0][0])}
	var maxVals [][]byte
	for _, b := range blocks {
		fd.Entries = append(fd.Entries, &token.TableEntry{MaxVal: string(b[len(b)-1])})
		maxVals = append(maxVals, b[len(b)-1])
	}
	tb := token.Table{"f": fd}
	req := fmt.Sprintf("select %s %s %s", hx(hint), hx(blocks[0][0]), hxList(maxVals, ","))
	impl := guard(func() string {
		sel := tb.SelectEntries("f", string(hint))
		if len(sel) == 0 {
			// the model answers (l, r) with l = r; Entries[:0] is (0,0): compare emptiness only
			return "empty"
		}
		l := -1
		for i, e := range fd.Entries {
			if e == sel[0] {
				l = i
			}
		}
		return fmt.Sprintf("ok %d %d", l, l+len(sel))
	})
	selReqs = append(selReqs, req)
	selImpl = append(selImpl, impl)
	selNT = append(selNT, len(blocks) > 1 && len(hint) > 0)
	h.chSelect.Tag(fmt.Sprintf("blocks=%d", min(len(blocks), 6)))
	h.chSelect.Tag("res=" + strings.SplitN(impl, " ", 2)[0])
}

func (h *H) opSealed(t tok, base uint32, blocks [][][]byte, phys []bool) {
	dict := flatten(blocks)
	req := fmt.Sprintf("sealed %s %d %s %s", t, base, fmtBlocks(blocks), numTable(t.numStrs(dict)...))
	fx, err := newSealedFixture(base, blocks, phys)
	if err != nil {
		h.rep.Note("fixture: %v", err)
		return
	}
	impl := guard(func() string {
		return fmtTids(frac.VerifSealedTIDs(context.Background(), fx.table, fx.cache, t.parserToken()))
	})
	kt := "tok=range"
	if t.r == nil {
		kt = "tok=" + shape(t.lit)[6:]
	}
	h.chSealed.Add(req, impl, len(blocks) > 1 && impl != "ok -", kt, fmt.Sprintf("blocks=%d", min(len(blocks), 6)))
	if t.wf() && sortedDistinct(dict) {
		want := refScan(t, base, dict)
		h.orSearch.Case(req, len(blocks) > 1 && want != "ok -", "tp=sealed", kt, fmt.Sprintf("blocks=%d", min(len(blocks), 6)))
		if impl != want {
			h.violate("frac/sealed_index.go:GetTIDsByTokenExpr", "sealed-search-differs-from-scan",
				fmt.Sprintf("token %s over the sealed dictionary %q in blocks %s: answers %s, scanning every token gives %s", t, dict, fmtBlocks(blocks), impl, want), req)
		}
	}
}

// select-channel post-processing: the model prints `ok l r`; an empty selection is compared as "empty".
// (done by asking the driver separately, see flushSelect)

func splitAll(dict [][]byte, mask int) [][][]byte {
	var blocks [][][]byte
	cur := [][]byte{dict[0]}
	for i := 1; i < len(dict); i++ {
		if mask&(1<<(i-1)) != 0 {
			blocks = append(blocks, cur)
			cur = nil
		}
		cur = append(cur, dict[i])
	}
	return append(blocks, cur)
}

func bs(ss []string) [][]byte {
	res := make([][]byte, len(ss))
	for i, s := range ss {
		res[i] = []byte(s)
	}
	return res
}

func main() {
	o := vh.ParseFlags()
	logger.SetLevel(zap.FatalLevel)
	rep := vh.NewReport("C13", o)
	h := &H{o: o, rep: rep, rnd: vh.NewRNG(o.Seed)}
	h.chPf = vh.NewChannel("kmp.pf", "pattern.calcPrefFunc vs SV.Kmp.calcPrefFunc: exhaustive over {a,b} up to a length bound plus the empty pattern (panic) and random longer ones over {a,b,c}; non-trivial = some entry > 0")
	h.chFind = vh.NewChannel("kmp.find", "pattern.findSubstring vs SV.Kmp.findSubstring: exhaustive texts x patterns over {a,b}, random beyond; non-trivial = found")
	h.chSeq = vh.NewChannel("kmp.seq", "pattern.findSequence vs SV.Kmp.findSequence: exhaustive small fragment lists over {a,b}, random beyond; non-trivial = at least one fragment found")
	h.chCheck = vh.NewChannel("pattern.check", "literalSearch/wildcardSearch.check vs SV.Pattern.checkTerms: every pattern over {a,b,*} and every token over {a,b} up to the length bound, narrowed 0 and 1, plus ill-formed term lists (empty, adjacent text terms, empty fragments) and random longer ones; non-trivial = a wildcard searcher that did not panic")
	h.chGlob = vh.NewChannel("glob.spec", "the harness' reference matcher (dynamic programming) vs SV.Pattern.globB (proved equal to the inductive Glob): same enumeration, shorter bound; non-trivial = more than one term")
	h.chParse = vh.NewChannel("parser.wf", "every Literal produced by parser.ParseSeqQL / parser.ParseQuery (keyword, text and path fields; bare, quoted, escaped, in(...) forms; all values over {a,b,*} up to a bound, random beyond) satisfies the Lean predicate WF (hypothesis of c13_wildcard_iff_glob); non-trivial = more than one term")
	h.chRange = vh.NewChannel("pattern.range", "NewRangeNumberSearch/newRangeTextSearch choice and check vs the model with strconv.ParseFloat results passed as oracle table: all end combinations x include flags x tokens from a pool of numeric, non-numeric and odd strings; non-trivial = at least one given end")
	h.chSearch = vh.NewChannel("pattern.search", "pattern.Search vs SV.Pattern.search over simple providers (ordered and not) and real token.Provider over hand-built tables; exhaustive small dictionaries, random larger; non-trivial = >1 token and non-empty answer")
	h.chActive = vh.NewChannel("active.find", "real frac.TokenList (NewActiveTokenList + Append in several batches, two fields) FindPattern vs SV.Pattern.activeFind on the (tid, value) pairs read back from the list; small exhaustive and random dictionaries, literal / wildcard / range tokens; non-trivial = non-empty answer")
	h.chProvider = vh.NewChannel("provider.get", "token.Provider.GetToken call sequences (ascending, descending, random jumps - exercising the cached-block fast path and the binary search) over hand-built tables vs SV.Pattern.providerGetTokens; all layouts of small dictionaries, random larger; non-trivial = more than one block")
	h.chSeq2 = vh.NewChannel("sealed.sequence", "SEQUENCES of GetTIDsByTokenExpr calls on ONE sealedTokenIndex (as one query serves all its leaves) vs SV.Pattern.sealedSearchSeq (stateless: call-by-call sealedSearch): same field with longer-then-shorter and shorter-then-longer leading literals, empty hints (*x patterns, ranges), a second field interleaved; every block layout of small dictionaries; non-trivial = >1 block and >1 call on the same field")
	h.chSeqQL = vh.NewChannel("seqql.range", "query TEXT -> parser.ParseSeqQL / parser.ParseQuery -> pattern.Search (ordered and unordered providers) vs SV.Pattern.search on the range whose ends are the quoted literals VERBATIM: ends with outer spaces/tabs, empty, whitespace-only, numeric only after trimming, all bracket pairs, tokens differing from an end only by that whitespace; non-trivial = at least one given end")
	h.chSpec = vh.NewChannel("spec.leaf", "the real pattern package (literalSearch/wildcardSearch.check, range searcher check) vs the SHARED Spec's Leaf.valMatch (Spec/Store.lean: globMatch, bytesLt/Le, numVal): every pattern over {a,b,*} x every token over {a,b} up to the length bound; ranges (a) against valMatch on the fragment where ParseFloat and Spec.numVal agree (every string involved is a decimal integer of <= 15 digits or is rejected by ParseFloat) and (b) ALL range cases against Leaf.valMatchWith pf (Spec/StoreNum.lean) with pf = the same ParseFloat key table the harness gives the model; non-trivial = wildcard pattern or a given range end")
	h.chSelect = vh.NewChannel("table.select", "token.Table.SelectEntries vs SV.Pattern.selectEntries: every sorted dictionary over a small universe in every block layout x hints; non-trivial = >1 block and non-empty hint")
	h.chSealed = vh.NewChannel("sealed.search", "sealedTokenIndex.GetTIDsByTokenExpr over a hand-built table with pre-loaded blocks vs SV.Pattern.sealedSearch; every dictionary <= 6 tokens over a small universe in every block layout; non-trivial = >1 block and non-empty answer")
	h.orGlob = vh.NewOracle("glob.property", "for every well-formed term list: check(token) == reference glob; non-trivial = wildcard pattern")
	h.orSearch = vh.NewOracle("search.property", "ordered / token.Provider / sealed search over a sorted distinct dictionary (and unordered search over any) == scan with reference semantics; non-trivial = >1 token or block and non-empty answer")
	h.orRange = vh.NewOracle("range.property", "range check == interval semantics (numeric iff every given end is a finite number, else text); non-trivial = at least one given end")
	h.orFrac = vh.NewOracle("frac.property", "real Active and Sealed fractions: values of GetTIDsByTokenExpr == reference filter of the field's dictionary; non-trivial = dictionary spans several token blocks and answer non-empty")

	if o.Replay != "" {
		lines, err := vh.ReadReplay(o.Replay)
		if err != nil {
			fmt.Fprintln(os.Stderr, err)
			os.Exit(3)
		}
		for _, l := range lines {
			if err := h.replay(l); err != nil {
				rep.Note("replay line %q: %v", l, err)
			}
		}
	} else {
		h.genKmp()
		h.genCheck()
		h.genParse()
		h.genRange()
		h.genSeqQLRange()
		h.genDigits()
		h.genBcmp()
		h.genSearch()
		h.genSealed()
		h.genSealedSeq()
		h.genActive()
		h.genFrac()
	}

	for _, c := range []*vh.Channel{h.chPf, h.chFind, h.chSeq, h.chCheck, h.chGlob, h.chParse, h.chRange, h.chSearch, h.chActive, h.chProvider, h.chSealed, h.chSeq2, h.chSpec, h.chSeqQL} {
		if o.Only == "" || o.Only == c.Name {
			rep.AddChannel(c, o.Driver)
		}
	}
	h.flushSelect()
	for _, c := range []*vh.Channel{h.chPf, h.chFind, h.chCheck, h.chGlob, h.chSelect, h.chSealed} {
		c.Exhaustive = o.Replay == ""
	}
	for _, or := range []*vh.Oracle{h.orGlob, h.orSearch, h.orRange, h.orFrac} {
		rep.AddOracle(or)
	}
	rep.Write(o.Out)
}

// flushSelect: the select channel compares "empty" selections modulo their position: the driver's `ok l r`
// with l >= r is rewritten to "empty" before the comparison.
func (h *H) flushSelect() {
	c := h.chSelect
	if h.o.Only != "" && h.o.Only != c.Name {
		return
	}
	reqs, impls, nts := selReqs, selImpl, selNT
	res, err := vh.AskDriver(h.o.Driver, reqs)
	if err != nil {
		c.Error = err.Error()
	}
	seen := map[string]bool{}
	for i, req := range reqs {
		c.Cases++
		model := "<no answer>"
		if i < len(res) {
			model = res[i]
			var l, r int
			if n, _ := fmt.Sscanf(model, "ok %d %d", &l, &r); n == 2 && l >= r {
				model = "empty"
			}
		}
		if !seen[req] {
			seen[req] = true
			if nts[i] {
				c.Nontrivial++
			}
		}
		if model != impls[i] {
			c.NDisagree++
			if len(c.Disagreements) < 20 {
				c.Disagreements = append(c.Disagreements, vh.Disagreement{Input: req, Impl: impls[i], Model: model})
			}
		} else if len(c.Samples) < 4 && nts[i] {
			c.Samples = append(c.Samples, req+"  ->  "+model)
		}
	}
	h.rep.Channels = append(h.rep.Channels, c)
}

var (
	selReqs, selImpl []string
	selNT            []bool
)

func (h *H) replay(line string) error {
	f := strings.Fields(line)
	if len(f) == 0 {
		return nil
	}
	switch f[0] {
	case "check":
		if len(f) != 4 {
			return fmt.Errorf("want 4 fields")
		}
		ts, err := parseTermsStr(f[1])
		if err != nil {
			return err
		}
		v, err := unhx(f[2])
		if err != nil {
			return err
		}
		h.opCheck(ts, v, f[3] == "1")
	case "rcheck":
		if len(f) < 3 {
			return fmt.Errorf("want >= 3 fields")
		}
		t, err := parseTok(f[1])
		if err != nil || t.r == nil {
			return fmt.Errorf("bad range: %v", err)
		}
		v, err := unhx(f[2])
		if err != nil {
			return err
		}
		h.opRange(t.r, v)
	case "search":
		if len(f) < 5 {
			return fmt.Errorf("want >= 5 fields")
		}
		t, err := parseTok(f[1])
		if err != nil {
			return err
		}
		base, _ := strconv.Atoi(f[3])
		blocks, err := parseBlocks(f[4])
		if err != nil {
			return err
		}
		h.opSearch(t, f[2] == "1", uint32(base), blocks, nil, false)
		if f[2] == "1" && len(blocks) > 0 && len(blocks[0]) > 0 {
			h.opSearch(t, true, uint32(base), blocks, make([]bool, len(blocks)), true)
		}
	case "sealed":
		if len(f) < 4 {
			return fmt.Errorf("want >= 4 fields")
		}
		t, err := parseTok(f[1])
		if err != nil {
			return err
		}
		base, _ := strconv.Atoi(f[2])
		blocks, err := parseBlocks(f[3])
		if err != nil {
			return err
		}
		h.opSealed(t, uint32(base), blocks, make([]bool, len(blocks)))
	case "sealedseq":
		return h.replaySealedSeq(f)
	case "seqqlrange":
		return h.replaySeqQLRange(f)
	case "frac":
		return h.replayFrac(f)
	default:
		return fmt.Errorf("unknown op")
	}
	return nil
}

// ------------------------------------------------------------------ generators

func (h *H) randWord(alpha string, maxLen int) []byte {
	n := h.rnd.Intn(maxLen + 1)
	b := make([]byte, n)
	for i := range b {
		b[i] = alpha[h.rnd.Intn(len(alpha))]
	}
	return b
}

func (h *H) genKmp() {
	o := h.o
	pfImpl := func(p []byte) string {
		return guard(func() string { return "ok " + vh.JoinInts(pattern.VerifPrefFunc(p)) })
	}
	for _, p := range words("ab", o.Pick(8, 11)) {
		impl := pfImpl([]byte(p))
		h.chPf.Add("pf "+hx([]byte(p)), impl, strings.ContainsAny(impl, "123456789"), fmt.Sprintf("len=%d", min(len(p), 8)))
	}
	for i := 0; i < o.Pick(300, 3000); i++ {
		p := h.randWord("abc", 40)
		impl := pfImpl(p)
		h.chPf.Add("pf "+hx(p), impl, strings.ContainsAny(impl, "123456789"), "len=random")
	}
	findImpl := func(s, p []byte) string {
		return guard(func() string { return fmt.Sprintf("ok %d", pattern.VerifFindSubstring(s, p)) })
	}
	pats := words("ab", o.Pick(4, 5))
	for _, s := range words("ab", o.Pick(7, 9)) {
		for _, p := range pats {
			impl := findImpl([]byte(s), []byte(p))
			h.chFind.Add(fmt.Sprintf("find %s %s", hx([]byte(s)), hx([]byte(p))), impl, impl != "ok -1" && impl != "panic", fmt.Sprintf("pat=%d", len(p)), "found="+vh.B(impl != "ok -1" && impl != "panic"))
		}
	}
	for i := 0; i < o.Pick(1000, 20000); i++ {
		s, p := h.randWord("ab", 40), h.randWord("ab", 8)
		impl := findImpl(s, p)
		h.chFind.Add(fmt.Sprintf("find %s %s", hx(s), hx(p)), impl, impl != "ok -1" && impl != "panic", "pat=random", "found="+vh.B(impl != "ok -1" && impl != "panic"))
	}
	seqImpl := func(s []byte, fr [][]byte) string {
		return guard(func() string { return fmt.Sprintf("ok %d %d", pattern.VerifFindSequence(s, fr), len(fr)) })
	}
	frs := words("ab", 2)[1:] // non-empty fragments up to length 2
	var lists [][][]byte
	for _, a := range frs {
		lists = append(lists, bs([]string{a}))
		for _, b := range frs {
			lists = append(lists, bs([]string{a, b}))
			for _, c := range frs {
				lists = append(lists, bs([]string{a, b, c}))
			}
		}
	}
	lists = append(lists, nil, bs([]string{""}), bs([]string{"a", ""}))
	for _, s := range words("ab", o.Pick(5, 7)) {
		for _, fr := range lists {
			impl := seqImpl([]byte(s), fr)
			h.chSeq.Add(fmt.Sprintf("seq %s %s", hx([]byte(s)), hxList(fr, ";")), impl, !strings.HasPrefix(impl, "ok 0") && impl != "panic", fmt.Sprintf("frags=%d", len(fr)))
		}
	}
	for i := 0; i < o.Pick(500, 10000); i++ {
		s := h.randWord("ab", 40)
		var fr [][]byte
		for k := h.rnd.Range(1, 5); k > 0; k-- {
			w := h.randWord("ab", 4)
			if len(w) == 0 {
				w = []byte("a")
			}
			fr = append(fr, w)
		}
		impl := seqImpl(s, fr)
		h.chSeq.Add(fmt.Sprintf("seq %s %s", hx(s), hxList(fr, ";")), impl, !strings.HasPrefix(impl, "ok 0"), "frags=random")
	}
}

func (h *H) genCheck() {
	o := h.o
	pats := words("ab*", o.Pick(6, 7))
	toks := words("ab", o.Pick(6, 7))
	for _, p := range pats {
		ts := patTerms(p)
		for _, v := range toks {
			h.opCheck(ts, []byte(v), false)
			if len(p) <= 5 {
				h.opCheck(ts, []byte(v), true)
			}
			if len(p) <= 4 && len(v) <= 5 {
				h.opGlobSpec(ts, []byte(v))
			}
		}
	}
	// ill-formed term lists: empty list, adjacent text terms, empty fragments
	atoms := []term{{star: true}, {data: []byte{}}, {data: []byte("a")}, {data: []byte("ab")}, {data: []byte("b")}}
	var lists [][]term
	lists = append(lists, nil)
	var rec func(cur []term, n int)
	rec = func(cur []term, n int) {
		if len(cur) > 0 {
			lists = append(lists, append([]term{}, cur...))
		}
		if n == 0 {
			return
		}
		for _, a := range atoms {
			rec(append(cur, a), n-1)
		}
	}
	rec(nil, o.Pick(3, 4))
	for _, ts := range lists {
		for _, v := range words("ab", 4) {
			h.opCheck(ts, []byte(v), false)
			h.opCheck(ts, []byte(v), true)
			h.opGlobSpec(ts, []byte(v))
		}
	}
	// random longer ones over {a,b,c}
	for i := 0; i < o.Pick(3000, 60000); i++ {
		p := string(h.randWord("abc**", 12))
		v := h.randWord("abc", 24)
		if h.rnd.Chance(1, 2) { // make matches likely: derive the token from the pattern
			v = nil
			for _, c := range []byte(p) {
				if c == '*' {
					v = append(v, h.randWord("abc", 3)...)
				} else {
					v = append(v, c)
				}
			}
		}
		h.opCheck(patTerms(p), v, false)
		h.opCheck(patTerms(p), v, h.rnd.Bool())
		h.opGlobSpec(patTerms(p), v)
	}
}

var numPool = []string{"", "0", "-0", "1", "01", "1.0", "1e0", "10", "2", "-1", "-1.5", "+1", "1e400", "-1e400", "inf", "-Inf", "nan", "0x10", "1_0", " 1", "a", "abc", "1a", "9", "1.7976931348623157e308", "-1.7976931348623157e308", "5e-324", ".5", "1e", "٣"}

func (h *H) genRange() {
	ends := []*string{nil}
	for i := range numPool {
		ends = append(ends, &numPool[i])
	}
	for _, f := range ends {
		for _, t := range ends {
			for inc := 0; inc < 4; inc++ {
				// all tokens for a subset of end pairs, a rotating sample otherwise (the pool is 30 strings)
				for k, v := range numPool {
					if h.o.Thorough() || (k+inc)%3 == 0 || f == nil || t == nil {
						h.opRange(&rng{from: f, to: t, incFrom: inc&1 != 0, incTo: inc&2 != 0}, []byte(v))
					}
				}
			}
		}
	}
	for i := 0; i < h.o.Pick(2000, 40000); i++ {
		gen := func() *string {
			switch h.rnd.Intn(5) {
			case 0:
				return nil
			case 1:
				s := string(h.randWord("ab1", 3))
				return &s
			default:
				s := strconv.FormatFloat(float64(h.rnd.Range(-30, 30))/4, 'g', -1, 64)
				if h.rnd.Chance(1, 6) {
					s = strconv.Itoa(h.rnd.Range(-3, 3)) + "e" + strconv.Itoa(h.rnd.Range(-2, 3))
				}
				return &s
			}
		}
		v := gen()
		if v == nil {
			s := "x"
			v = &s
		}
		h.opRange(&rng{from: gen(), to: gen(), incFrom: h.rnd.Bool(), incTo: h.rnd.Bool()}, []byte(*v))
	}
}

// digitPool: plain decimal strings of 1..40 (and 310) digits around the places where fixed-width integer parsing
// goes wrong: 2^63, 2^64, 2^64+k, 10^19, 10^20, 10^38, with and without leading zeros.
func digitPool() []string {
	p := func(base string, exp int64, add int64) string {
		b, _ := new(big.Int).SetString(base, 10)
		v := new(big.Int).Exp(b, big.NewInt(exp), nil)
		return v.Add(v, big.NewInt(add)).String()
	}
	res := []string{"0", "5", "42", "007", "9007199254740993",
		p("2", 63, -1), p("2", 63, 0), p("2", 63, 1), p("2", 64, -1), p("2", 64, 0), p("2", 64, 1), p("2", 64, 5), p("2", 64, 42),
		p("2", 65, 7), p("10", 18, 0), p("10", 19, 0), p("10", 19, 1), p("10", 20, 0), p("10", 20, 5), p("10", 21, 0), p("10", 38, 0), p("10", 38, 3),
		p("2", 128, 0), p("2", 128, 9), p("10", 39, 7), "00" + p("2", 64, 5), "0000000000" + p("10", 20, 42), strings.Repeat("9", 40),
		"000000000000000000000000000000000000005", strings.Repeat("9", 310)}
	return res
}

func bigOf(s string) (*big.Int, bool) {
	if s == "" {
		return nil, false
	}
	for i := 0; i < len(s); i++ {
		if s[i] < '0' || s[i] > '9' {
			return nil, false
		}
	}
	v, ok := new(big.Int).SetString(s, 10)
	return v, ok
}

// genDigits: numeric ranges whose ends and tokens are plain decimal strings of any length.  Besides the usual
// channel/oracle (opRange), the property of c13_digits_range_closed/open is checked on the real code with math/big,
// the Lean digitsNat is tied to math/big (dval), and the oracle hypothesis DigitsMono is checked on the pool.
// genBcmp: the model's byte order (the order the sealed dictionary must be in, and the order of text ranges) against
// bytes.Compare on mixed alphabets, prefixes of each other, NUL and high bytes.
func (h *H) genBcmp() {
	vals := append([]string{"", "a", "ab", "b", "\x00", "a\x00", "\x7f", "\x80", "a\x80", "a\x7f"}, mixedStems...)
	for _, a := range vals {
		for _, b := range vals {
			c := bytes.Compare([]byte(a), []byte(b))
			h.chRange.Add(fmt.Sprintf("bcmp %s %s", hx([]byte(a)), hx([]byte(b))), "ok "+map[int]string{-1: "lt", 0: "eq", 1: "gt"}[c], a != b, "bcmp")
		}
	}
}

func (h *H) genDigits() {
	pool := digitPool()
	type dv struct {
		s string
		v *big.Int
	}
	var ds []dv
	for _, s := range pool {
		v, _ := bigOf(s)
		ds = append(ds, dv{s, v})
		h.chRange.Add("dval "+hx([]byte(s)), "ok "+v.String(), len(s) >= 19, "dval")
	}
	for _, s := range []string{"", "1a", "-1", "1.0", " 1"} {
		h.chRange.Add("dval "+hx([]byte(s)), "ok none", false, "dval")
	}
	// DigitsMono on the pool: a <= b  =>  key(ParseFloat a) <= key(ParseFloat b)
	for _, a := range ds {
		for _, b := range ds {
			fa, oka := parseNum(a.s)
			fb, okb := parseNum(b.s)
			if oka && okb && a.v.Cmp(b.v) <= 0 && fkey(fa) > fkey(fb) {
				h.chRange.Error = fmt.Sprintf("strconv.ParseFloat is not monotone on %s <= %s (hypothesis DigitsMono)", a.s, b.s)
			}
		}
	}
	n := 0
	for _, lo := range ds {
		for _, hi := range ds {
			if lo.v.Cmp(hi.v) > 0 {
				continue
			}
			for _, v := range ds {
				n++
				if !h.o.Thorough() && n%3 != 0 {
					continue
				}
				for inc := 0; inc < 4; inc += 3 { // closed and open
					r := &rng{from: &lo.s, to: &hi.s, incFrom: inc != 0, incTo: inc != 0}
					h.opRange(r, []byte(v.s))
					_, okl := parseNum(lo.s)
					_, okh := parseNum(hi.s)
					_, okv := parseNum(v.s)
					if !(okl && okh && okv) {
						continue
					}
					var got bool
					res := guard(func() string {
						_, got = pattern.VerifRangeCheck(tok{r: r}.parserToken().(*parser.Range), []byte(v.s))
						return "ok"
					})
					inside := lo.v.Cmp(v.v) <= 0 && v.v.Cmp(hi.v) <= 0
					strict := lo.v.Cmp(v.v) < 0 && v.v.Cmp(hi.v) < 0
					req := fmt.Sprintf("rcheck %s %s %s", tok{r: r}, hx([]byte(v.s)), numTable([]byte(lo.s), []byte(hi.s), []byte(v.s)))
					h.orRange.Case("digits "+req, len(v.s) >= 19, "digits", fmt.Sprintf("digits-len>=%d", min(len(v.s)/10*10, 40)))
					if res == "panic" || (inc != 0 && inside && !got) || (inc == 0 && got && !strict) {
						h.violate("pattern/pattern.go:rangeSearch.check", "digits-range-ignores-unbounded-value",
							fmt.Sprintf("range %s on the decimal token %s (%d digits): check answers %v (%s); by value the token is inside the closed interval: %v, strictly inside: %v", tok{r: r}, v.s, len(v.s), got, res, inside, strict), req)
					}
				}
			}
		}
	}
}

func (h *H) shuffled(d [][]byte) [][]byte {
	res := make([][]byte, len(d))
	for i, j := range h.rnd.Perm(len(d)) {
		res[i] = d[j]
	}
	return res
}

func subsets(universe []string, maxSize int, f func([][]byte)) {
	n := len(universe)
	for mask := 0; mask < 1<<n; mask++ {
		var d [][]byte
		for i := 0; i < n; i++ {
			if mask&(1<<i) != 0 {
				d = append(d, []byte(universe[i]))
			}
		}
		if len(d) <= maxSize {
			f(d)
		}
	}
}

func (h *H) genSearch() {
	o := h.o
	uni := words("ab", 2)
	sort.Strings(uni)
	var toks []tok
	for _, p := range words("ab*", o.Pick(3, 4)) {
		toks = append(toks, tok{lit: patTerms(p)})
	}
	a, b, ab := "a", "b", "ab"
	for _, r := range []*rng{{from: &a, to: &b, incFrom: true}, {from: &a, incFrom: false}, {to: &ab, incTo: true}, {}} {
		toks = append(toks, tok{r: r})
	}
	subsets(uni, 7, func(d [][]byte) {
		for _, t := range toks {
			base := uint32(1 + len(d)%3)
			h.opSearch(t, true, base, [][][]byte{d}, nil, false)
			h.opSearch(t, false, base, [][][]byte{h.shuffled(d)}, nil, false)
			if len(d) > 0 {
				mask := h.rnd.Intn(1 << (len(d) - 1))
				blocks := splitAll(d, mask)
				phys := make([]bool, len(blocks))
				for i := range phys {
					phys[i] = h.rnd.Bool()
				}
				h.opSearch(t, true, base, blocks, phys, true)
			}
		}
	})
	// ill-formed literal tokens reach the panics of newWildcardSearch through Search as well
	for _, ts := range [][]term{nil, {{star: true}, {data: []byte{}}, {star: true}}, {{data: []byte("a")}, {data: []byte("b")}}} {
		h.opSearch(tok{lit: ts}, true, 1, [][][]byte{bs([]string{"a", "ab", "b"})}, nil, false)
		h.opSearch(tok{lit: ts}, false, 1, [][][]byte{bs([]string{"b", "ab", "a"})}, nil, false)
	}
	// random larger dictionaries
	for i := 0; i < o.Pick(300, 6000); i++ {
		set := map[string]bool{}
		alpha := "abc"
		if i%4 == 3 { // unsigned byte order: NUL, 0x7f, 0x80, 0xff
			alpha = "a\x00\x7f\x80\xff"
		}
		for k := h.rnd.Range(0, 40); k > 0; k-- {
			set[string(h.randWord(alpha, 5))] = true
		}
		var d [][]byte
		for _, s := range vh.SortedKeys(set) {
			d = append(d, []byte(s))
		}
		var t tok
		if h.rnd.Chance(1, 5) {
			f, tt := string(h.randWord(alpha, 3)), string(h.randWord(alpha, 3))
			r := &rng{incFrom: h.rnd.Bool(), incTo: h.rnd.Bool()}
			if h.rnd.Chance(3, 4) {
				r.from = &f
			}
			if h.rnd.Chance(3, 4) {
				r.to = &tt
			}
			t = tok{r: r}
		} else {
			t = tok{lit: patTerms(string(h.randWord(alpha+"*", 5)))}
		}
		base := uint32(h.rnd.Range(1, 50))
		h.opSearch(t, true, base, [][][]byte{d}, nil, false)
		h.opSearch(t, false, base, [][][]byte{h.shuffled(d)}, nil, false)
		if len(d) > 0 {
			blocks := h.randSplit(d)
			phys := make([]bool, len(blocks))
			for i := range phys {
				phys[i] = h.rnd.Bool()
			}
			h.opSearch(t, true, base, blocks, phys, true)
			h.opSealed(t, base, blocks, phys)
		}
	}
}

func (h *H) randSplit(d [][]byte) [][][]byte {
	var blocks [][][]byte
	cur := [][]byte{d[0]}
	for i := 1; i < len(d); i++ {
		if h.rnd.Chance(1, 3) {
			blocks = append(blocks, cur)
			cur = nil
		}
		cur = append(cur, d[i])
	}
	return append(blocks, cur)
}

func (h *H) genSealed() {
	o := h.o
	uni := words("ab", 2)
	sort.Strings(uni)
	var toks []tok
	for _, p := range words("ab*", o.Pick(3, 4)) {
		toks = append(toks, tok{lit: patTerms(p)})
	}
	a, b := "a", "b"
	toks = append(toks, tok{r: &rng{from: &a, to: &b, incFrom: true}}, tok{r: &rng{}})
	hints := words("ab", 3)
	subsets(uni, o.Pick(6, 7), func(d [][]byte) {
		if len(d) == 0 {
			return
		}
		for mask := 0; mask < 1<<(len(d)-1); mask++ {
			blocks := splitAll(d, mask)
			for _, hint := range hints {
				h.addSelect([]byte(hint), blocks)
			}
			base := uint32(1 + mask%4)
			phys := make([]bool, len(blocks))
			for i := range phys {
				phys[i] = (mask>>i)&1 == 1
			}
			for _, sq := range h.provSeqs(base, len(d)) {
				h.opProvider(base, blocks, phys, sq)
			}
			for _, t := range toks {
				h.opSealed(t, base, blocks, phys)
			}
		}
	})
	// numeric and text ranges over dictionaries holding the same numbers in several spellings (a hint derived from
	// the spelling of the range ends must not drop "+1.7" or "01.75" from [1.5 TO 1.9]); all layouts
	numUni := []string{"+1.7", "-3", "01.75", "1.5", "1.7", "1.9", "17e-1", "2", "a1", "ab"}
	sort.Strings(numUni)
	str := func(s string) *string { return &s }
	var rtoks []tok
	for _, e := range [][2]*string{{str("1.5"), str("1.9")}, {str("1.5"), nil}, {nil, str("1.9")}, {str("1"), str("2")}, {str("1.5"), str("1a")},
		{str("a"), str("ab")}, {str("1.7"), str("1.7")}, {str("-5"), str("1.6")}, {str("1e0"), str("1e1")}, {str("0x1"), str("2")}} {
		for inc := 0; inc < 4; inc++ {
			rtoks = append(rtoks, tok{r: &rng{from: e[0], to: e[1], incFrom: inc&1 != 0, incTo: inc&2 != 0}})
		}
	}
	nsub := 0
	subsets(numUni, 10, func(d [][]byte) {
		if len(d) < 2 || len(d) > o.Pick(5, 6) {
			return
		}
		nsub++
		if !o.Thorough() && nsub%3 != 0 {
			return
		}
		for mask := 0; mask < 1<<(len(d)-1); mask++ {
			blocks := splitAll(d, mask)
			phys := make([]bool, len(blocks))
			for _, t := range rtoks {
				if (mask+len(d))%2 == 0 || t.r.incFrom == t.r.incTo {
					h.opSealed(t, uint32(1+mask%3), blocks, phys)
				}
			}
		}
	})
	// larger universe, sampled
	uni3 := words("ab", 3)
	sort.Strings(uni3)
	for i := 0; i < o.Pick(400, 10000); i++ {
		var d [][]byte
		for _, w := range uni3 {
			if h.rnd.Chance(1, 2) {
				d = append(d, []byte(w))
			}
		}
		if len(d) == 0 {
			continue
		}
		blocks := h.randSplit(d)
		phys := make([]bool, len(blocks))
		for k := 0; k < 4; k++ {
			h.addSelect(h.randWord("ab", 4), blocks)
			h.opSealed(tok{lit: patTerms(string(h.randWord("ab*", 4)))}, uint32(h.rnd.Range(1, 9)), blocks, phys)
		}
	}
}

func (h *H) addSelect(hint []byte, blocks [][][]byte) { h.opSelect(hint, blocks) }

type seqCall struct {
	fi int // 0 = field "f", 1 = the decoy field
	t  tok
}

func decoyRun(base uint32) [][]byte {
	var run [][]byte
	for i := uint32(1); i < base; i++ {
		run = append(run, []byte(fmt.Sprintf("zz%03d", i)))
	}
	return run
}

// opSealedSeq: one sealedTokenIndex instance answers the calls in order; the spec is stateless.
func (h *H) opSealedSeq(base uint32, blocks [][][]byte, phys []bool, calls []seqCall) {
	if base < 2 {
		base = 2 // the decoy field occupies TIDs 1..base-1
	}
	fx, err := newSealedFixture(base, blocks, phys)
	if err != nil {
		h.rep.Note("fixture: %v", err)
		return
	}
	dict, decoy := flatten(blocks), decoyRun(base)
	var cs []string
	var nums [][]byte
	sameField := 0
	for _, c := range calls {
		cs = append(cs, fmt.Sprintf("%d=%s", c.fi, c.t))
		nums = append(nums, c.t.numStrs(nil)...)
		if c.fi == 0 {
			sameField++
		}
	}
	nums = append(append(nums, dict...), decoy...)
	req := fmt.Sprintf("sealedseq %d@%s+1@%s %s %s", base, fmtBlocks(blocks), hxList(decoy, ","), strings.Join(cs, "|"), numTable(nums...))
	sess := frac.VerifSealedSession(context.Background(), fx.table, fx.cache)
	var got, want []string
	for _, c := range calls {
		t := c.t
		t.field = []string{"f", "decoy"}[c.fi]
		got = append(got, strings.TrimPrefix(guard(func() string { return fmtTids(sess(t.parserToken())) }), "ok "))
		if c.fi == 0 {
			want = append(want, strings.TrimPrefix(refScan(c.t, base, dict), "ok "))
		} else {
			want = append(want, strings.TrimPrefix(refScan(c.t, 1, decoy), "ok "))
		}
	}
	impl := "ok " + strings.Join(got, " | ")
	h.chSeq2.Add(req, impl, len(blocks) > 1 && sameField > 1, fmt.Sprintf("blocks=%d", min(len(blocks), 6)), fmt.Sprintf("calls=%d", len(calls)))
	allWF := sortedDistinct(dict)
	for _, c := range calls {
		allWF = allWF && c.t.wf()
	}
	if allWF {
		h.orSearch.Case(req, len(blocks) > 1 && sameField > 1, "tp=sealed-sequence")
		for i := range calls {
			if got[i] != want[i] {
				h.violate("frac/sealed_index.go:GetTIDsByTokenExpr", "sealed-sequence-differs-from-scan",
					fmt.Sprintf("one sealedTokenIndex, calls %s over the dictionary %q in blocks %s: call %d answers %s, scanning every token of its field gives %s", strings.Join(cs, " | "), dict, fmtBlocks(blocks), i+1, got[i], want[i]), req)
				break
			}
		}
	}
}

func (h *H) replaySealedSeq(f []string) error {
	if len(f) < 3 {
		return fmt.Errorf("want >= 3 fields")
	}
	flds := strings.Split(f[1], "+")
	p := strings.SplitN(flds[0], "@", 2)
	if len(p) != 2 {
		return fmt.Errorf("bad field spec")
	}
	base, _ := strconv.Atoi(p[0])
	blocks, err := parseBlocks(p[1])
	if err != nil {
		return err
	}
	var calls []seqCall
	for _, c := range strings.Split(f[2], "|") {
		q := strings.SplitN(c, "=", 2)
		if len(q) != 2 {
			return fmt.Errorf("bad call %q", c)
		}
		fi, _ := strconv.Atoi(q[0])
		t, err := parseTok(q[1])
		if err != nil {
			return err
		}
		calls = append(calls, seqCall{fi, t})
	}
	h.opSealedSeq(uint32(base), blocks, make([]bool, len(blocks)), calls)
	return nil
}

func (h *H) genSealedSeq() {
	o := h.o
	uni := words("ab", 2)
	sort.Strings(uni)
	a, b := "a", "b"
	pool := []tok{}
	for _, p := range []string{"a*", "ab*", "aa*", "b*", "ba*", "*", "*a", "*b*", "a", "ab", "a*b", "ab*a", ""} {
		pool = append(pool, tok{lit: patTerms(p)})
	}
	pool = append(pool, tok{r: &rng{from: &a, to: &b, incFrom: true}}, tok{r: &rng{from: &a}}, tok{r: &rng{}})
	dec := []tok{{lit: patTerms("zz*")}, {lit: patTerms("zz001")}, {lit: patTerms("*")}}
	n := 0
	subsets(uni, o.Pick(6, 7), func(d [][]byte) {
		if len(d) < 2 {
			return
		}
		for mask := 0; mask < 1<<(len(d)-1); mask++ {
			n++
			if !o.Thorough() && n%2 == 0 {
				continue
			}
			blocks := splitAll(d, mask)
			phys := make([]bool, len(blocks))
			for i := range phys {
				phys[i] = (mask>>i)&1 == 1
			}
			for k := 0; k < o.Pick(4, 8); k++ {
				var calls []seqCall
				for l := h.rnd.Range(2, 4); l > 0; l-- {
					if h.rnd.Chance(1, 6) {
						calls = append(calls, seqCall{1, dec[h.rnd.Intn(len(dec))]})
					} else {
						calls = append(calls, seqCall{0, pool[h.rnd.Intn(len(pool))]})
					}
				}
				h.opSealedSeq(uint32(2+mask%3), blocks, phys, calls)
			}
			// the directed pairs: longer literal first, then shorter / empty hints
			for _, pr := range [][2]int{{1, 0}, {0, 1}, {2, 0}, {1, 5}, {1, 6}, {4, 3}, {1, 13}, {9, 0}, {8, 0}, {0, 8}} {
				h.opSealedSeq(uint32(2+mask%3), blocks, phys, []seqCall{{0, pool[pr[0]]}, {0, pool[pr[1]]}})
			}
		}
	})
}

// opProvider: one real token.Provider, a sequence of GetToken calls.
func (h *H) opProvider(base uint32, blocks [][][]byte, phys []bool, tids []uint32) {
	fx, err := newSealedFixture(base, blocks, phys)
	if err != nil {
		h.rep.Note("fixture: %v", err)
		return
	}
	req := fmt.Sprintf("pget %d %s %s", base, fmtBlocks(blocks), vh.JoinInts(tids))
	impl := guard(func() string {
		tp := fx.provider()
		var out [][]byte
		for _, t := range tids {
			out = append(out, append([]byte{}, tp.GetToken(t)...))
		}
		return "ok " + hxList(out, ",")
	})
	h.chProvider.Add(req, impl, len(blocks) > 1, fmt.Sprintf("blocks=%d", min(len(blocks), 6)))
}

func (h *H) provSeqs(base uint32, n int) [][]uint32 {
	var asc, desc, rnd []uint32
	for i := 0; i < n; i++ {
		asc = append(asc, base+uint32(i))
		desc = append(desc, base+uint32(n-1-i))
	}
	for i := 0; i < 2*n; i++ {
		rnd = append(rnd, base+uint32(h.rnd.Intn(n)))
	}
	return [][]uint32{asc, desc, rnd}
}
