package main

import (
	"context"
	"fmt"
	"strings"

	"github.com/ozontech/seq-db/frac"

	"verifharness/internal/vh"
)

// opActive: the values (in arrival order) go into a real TokenList under field "f", interleaved with a decoy
// field; the (tid, value) pairs of "f" are read back and given to the model together with the token.
func (h *H) opActive(vals [][]byte, toks []tok) {
	tl := frac.NewActiveTokenList(2)
	defer tl.Stop()
	for i := 0; i < len(vals); {
		var batch [][]byte
		var lens []int
		for k := h.rnd.Range(1, 4); k > 0 && i < len(vals); k-- {
			batch = append(batch, append([]byte("f:"), vals[i]...))
			lens = append(lens, 1)
			i++
		}
		batch = append(batch, []byte(fmt.Sprintf("g:x%d", i)))
		lens = append(lens, 1)
		tl.Append(batch, lens, make([]*frac.TokenLIDs, len(batch)))
	}
	tids := tl.GetTIDsByField("f")
	ents := make([]string, len(tids))
	var dict [][]byte
	for i, tid := range tids {
		v := tl.GetValByTID(tid)
		ents[i] = fmt.Sprintf("%d:%s", tid, hx(v))
		dict = append(dict, v)
	}
	for _, t := range toks {
		req := fmt.Sprintf("active %s %s %s", t, vh.JoinStrs(ents, ","), numTable(t.numStrs(dict)...))
		impl := guard(func() string { return fmtTids(tl.FindPattern(context.Background(), t.parserToken(), nil)) })
		kt := "tok=range"
		if t.r == nil {
			kt = "tok=" + shape(t.lit)[6:]
		}
		h.chActive.Add(req, impl, impl != "ok -" && impl != "panic", kt, fmt.Sprintf("dict=%d", min(len(dict), 8)))
		if t.wf() {
			// property: the answered TIDs are exactly those of the matching values
			var want []uint32
			for i, v := range dict {
				if refMatch(t, v) {
					want = append(want, tids[i])
				}
			}
			w := "ok " + vh.JoinInts(want)
			h.orSearch.Case(req, w != "ok -", "tp=active", kt)
			if impl != w {
				h.violate("frac/active_token_list.go:FindPattern", "active-search-differs-from-scan",
					fmt.Sprintf("token %s over the active dictionary %s: answers %s, scanning gives %s", t, strings.Join(ents, ","), impl, w), req)
			}
		}
	}
}

func (h *H) genActive() {
	var toks []tok
	for _, p := range words("ab*", 3) {
		toks = append(toks, tok{lit: patTerms(p)})
	}
	a, b := "a", "b"
	toks = append(toks, tok{r: &rng{from: &a, to: &b, incFrom: true}}, tok{r: &rng{}}, tok{lit: nil})
	uni := words("ab", 2)
	n := 0
	subsets(uni, 7, func(d [][]byte) {
		n++
		if h.o.Thorough() || n%4 == 0 {
			h.opActive(h.shuffled(d), toks)
		}
	})
	for i := 0; i < h.o.Pick(40, 600); i++ {
		set := map[string]bool{}
		for k := h.rnd.Range(0, 60); k > 0; k-- {
			set[string(h.randWord("abc", 5))] = true
		}
		var d [][]byte
		for _, s := range vh.SortedKeys(set) {
			d = append(d, []byte(s))
		}
		var ts []tok
		for k := 0; k < 6; k++ {
			ts = append(ts, tok{lit: patTerms(string(h.randWord("abc*", 5)))})
		}
		f := string(h.randWord("abc", 2))
		ts = append(ts, tok{r: &rng{from: &f, incFrom: h.rnd.Bool()}})
		h.opActive(h.shuffled(d), ts)
	}
}
