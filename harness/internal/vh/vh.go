// Package vh is the shared part of the correspondence harness: seeded PRNG, the
// pipe to a Lean driver, channel bookkeeping and the JSON report read by ./check.
package vh

import (
	"bufio"
	"bytes"
	"crypto/sha1"
	"encoding/hex"
	"encoding/json"
	"flag"
	"fmt"
	"os"
	"os/exec"
	"sort"
	"strings"
	"time"
)

// ---------------------------------------------------------------- PRNG

// RNG is splitmix64; every random choice of a harness derives from one RNG seeded by VERIF_SEED.
type RNG struct{ s uint64 }

func NewRNG(seed int64) *RNG { return &RNG{s: uint64(seed)*0x9E3779B97F4A7C15 + 0x1234567} }

func (r *RNG) U64() uint64 {
	r.s += 0x9E3779B97F4A7C15
	z := r.s
	z = (z ^ (z >> 30)) * 0xBF58476D1CE4E5B9
	z = (z ^ (z >> 27)) * 0x94D049BB133111EB
	return z ^ (z >> 31)
}
func (r *RNG) Intn(n int) int {
	if n <= 0 {
		return 0
	}
	return int(r.U64() % uint64(n))
}
func (r *RNG) Range(lo, hi int) int { return lo + r.Intn(hi-lo+1) } // inclusive
func (r *RNG) Bool() bool           { return r.U64()&1 == 1 }
func (r *RNG) Chance(num, den int) bool { return r.Intn(den) < num }
func (r *RNG) Perm(n int) []int {
	p := make([]int, n)
	for i := range p {
		p[i] = i
	}
	for i := n - 1; i > 0; i-- {
		j := r.Intn(i + 1)
		p[i], p[j] = p[j], p[i]
	}
	return p
}
func (r *RNG) Fork() *RNG { return &RNG{s: r.U64()} }

// ---------------------------------------------------------------- flags

type Opts struct {
	Tier   string
	Seed   int64
	Driver string
	Out    string
	Replay string
	Only   string // run only the named channel (debugging)
}

func ParseFlags() Opts {
	var o Opts
	flag.StringVar(&o.Tier, "tier", "quick", "quick|thorough")
	flag.Int64Var(&o.Seed, "seed", 1, "PRNG seed")
	flag.StringVar(&o.Driver, "driver", "", "path of the Lean driver executable")
	flag.StringVar(&o.Out, "out", "", "report file (JSON)")
	flag.StringVar(&o.Replay, "replay", "", "replay file to re-run")
	flag.StringVar(&o.Only, "only", "", "only this channel")
	flag.Parse()
	return o
}

func (o Opts) Thorough() bool { return o.Tier == "thorough" }

// Pick returns q in the quick tier and t in the thorough tier.
func (o Opts) Pick(q, t int) int {
	if o.Thorough() {
		return t
	}
	return q
}

// ---------------------------------------------------------------- driver

// AskDriver pipes all request lines to the Lean driver and returns one response line per request.
func AskDriver(driver string, reqs []string) ([]string, error) {
	if len(reqs) == 0 {
		return nil, nil
	}
	cmd := exec.Command(driver)
	var in bytes.Buffer
	for _, l := range reqs {
		if strings.ContainsAny(l, "\n\r") {
			return nil, fmt.Errorf("request contains a newline: %q", l)
		}
		in.WriteString(l)
		in.WriteByte('\n')
	}
	cmd.Stdin = &in
	var errb bytes.Buffer
	cmd.Stderr = &errb
	out, err := cmd.Output()
	if err != nil {
		return nil, fmt.Errorf("driver %s: %v: %s", driver, err, errb.String())
	}
	sc := bufio.NewScanner(bytes.NewReader(out))
	sc.Buffer(make([]byte, 1<<20), 1<<28)
	var res []string
	for sc.Scan() {
		res = append(res, sc.Text())
	}
	if len(res) != len(reqs) {
		return res, fmt.Errorf("driver returned %d lines for %d requests; stderr: %s", len(res), len(reqs), errb.String())
	}
	return res, nil
}

// ---------------------------------------------------------------- report

type Disagreement struct {
	Input string `json:"input"`
	Impl  string `json:"impl"`
	Model string `json:"model"`
}

// Channel is one correspondence channel: the implementation and the Lean model on the same inputs.
type Channel struct {
	Name          string         `json:"name"`
	Cases         int            `json:"cases"`
	Nontrivial    int            `json:"distinct_nontrivial"`
	Exhaustive    bool           `json:"exhaustive"`
	Rule          string         `json:"rule"`
	Disagreements []Disagreement `json:"disagreements"`
	NDisagree     int            `json:"n_disagreements"`
	Distribution  map[string]int `json:"distribution"`
	Samples       []string       `json:"samples"`
	Error         string         `json:"error,omitempty"`

	seen map[string]struct{}
	reqs []string
	impl []string
	nt   []bool
}

func NewChannel(name, rule string) *Channel {
	return &Channel{Name: name, Rule: rule, Distribution: map[string]int{}, seen: map[string]struct{}{}}
}

// Add queues one case: the driver request, the implementation's canonical answer and whether the
// case is non-trivial by the channel's rule.  Tags are counted into the distribution.
func (c *Channel) Add(req, impl string, nontrivial bool, tags ...string) {
	c.reqs = append(c.reqs, req)
	c.impl = append(c.impl, impl)
	c.nt = append(c.nt, nontrivial)
	for _, t := range tags {
		c.Distribution[t]++
	}
}

func (c *Channel) Tag(t string) { c.Distribution[t]++ }

// Flush sends the queued cases to the driver and compares.
func (c *Channel) Flush(driver string) {
	if len(c.reqs) == 0 {
		return
	}
	res, err := AskDriver(driver, c.reqs)
	if err != nil {
		c.Error = err.Error()
	}
	for i, req := range c.reqs {
		c.Cases++
		model := "<no answer>"
		if i < len(res) {
			model = res[i]
		}
		if _, dup := c.seen[req]; !dup {
			c.seen[req] = struct{}{}
			if c.nt[i] {
				c.Nontrivial++
			}
		}
		if model != c.impl[i] {
			c.NDisagree++
			if len(c.Disagreements) < 20 {
				c.Disagreements = append(c.Disagreements, Disagreement{Input: req, Impl: c.impl[i], Model: model})
			}
		} else if len(c.Samples) < 4 && c.nt[i] {
			c.Samples = append(c.Samples, req+"  ->  "+model)
		}
	}
	c.reqs, c.impl, c.nt = nil, nil, nil
}

// Violation: the implementation itself breaks the property on a concrete input/history.
type Violation struct {
	Site   string   `json:"site"`  // call site / component (matched against known_findings signature.site)
	Class  string   `json:"class"` // input class (matched against signature.class)
	What   string   `json:"what"`
	Replay []string `json:"replay"` // exact operation lines
}

type Oracle struct {
	Name         string         `json:"name"`
	Cases        int            `json:"cases"`
	Nontrivial   int            `json:"distinct_nontrivial"`
	Rule         string         `json:"rule"`
	Distribution map[string]int `json:"distribution"`
	Samples      []string       `json:"samples"`
	Error        string         `json:"error,omitempty"`
	seen         map[string]struct{}
}

func NewOracle(name, rule string) *Oracle {
	return &Oracle{Name: name, Rule: rule, Distribution: map[string]int{}, seen: map[string]struct{}{}}
}

func (o *Oracle) Case(key string, nontrivial bool, tags ...string) {
	o.Cases++
	if _, dup := o.seen[key]; !dup {
		o.seen[key] = struct{}{}
		if nontrivial {
			o.Nontrivial++
			if len(o.Samples) < 4 {
				o.Samples = append(o.Samples, key)
			}
		}
	}
	for _, t := range tags {
		o.Distribution[t]++
	}
}

type Report struct {
	Property   string      `json:"property"`
	Tier       string      `json:"tier"`
	Seed       int64       `json:"seed"`
	Channels   []*Channel  `json:"channels"`
	Oracles    []*Oracle   `json:"oracles"`
	Violations []Violation `json:"violations"`
	Notes      []string    `json:"notes"`
	WallS      float64     `json:"wall_s"`
	start      time.Time
}

func NewReport(prop string, o Opts) *Report {
	return &Report{Property: prop, Tier: o.Tier, Seed: o.Seed, start: time.Now()}
}

func (r *Report) AddChannel(c *Channel, driver string) {
	c.Flush(driver)
	r.Channels = append(r.Channels, c)
}
func (r *Report) AddOracle(o *Oracle) { r.Oracles = append(r.Oracles, o) }
func (r *Report) Violate(v Violation) {
	if len(r.Violations) < 50 {
		r.Violations = append(r.Violations, v)
	}
}
func (r *Report) Note(format string, a ...any) { r.Notes = append(r.Notes, fmt.Sprintf(format, a...)) }

func (r *Report) Write(path string) {
	r.WallS = time.Since(r.start).Seconds()
	for _, c := range r.Channels {
		if c.Disagreements == nil {
			c.Disagreements = []Disagreement{}
		}
		if c.Samples == nil {
			c.Samples = []string{}
		}
	}
	if r.Violations == nil {
		r.Violations = []Violation{}
	}
	b, _ := json.MarshalIndent(r, "", " ")
	if path == "" {
		os.Stdout.Write(b)
		return
	}
	if err := os.WriteFile(path, b, 0o644); err != nil {
		fmt.Fprintln(os.Stderr, "write report:", err)
		os.Exit(3)
	}
}

// ---------------------------------------------------------------- helpers

func Hash(parts ...string) string {
	h := sha1.Sum([]byte(strings.Join(parts, "\x00")))
	return hex.EncodeToString(h[:6])
}

func Hex(b []byte) string {
	if len(b) == 0 {
		return "-"
	}
	return hex.EncodeToString(b)
}

func JoinInts[T ~int | ~int64 | ~uint32 | ~uint64 | ~uint16 | ~uint8 | ~int32](xs []T) string {
	if len(xs) == 0 {
		return "-"
	}
	var sb strings.Builder
	for i, x := range xs {
		if i > 0 {
			sb.WriteByte(',')
		}
		fmt.Fprintf(&sb, "%d", x)
	}
	return sb.String()
}

func JoinStrs(xs []string, sep string) string {
	if len(xs) == 0 {
		return "-"
	}
	return strings.Join(xs, sep)
}

func B(b bool) string {
	if b {
		return "1"
	}
	return "0"
}

func SortedKeys[V any](m map[string]V) []string {
	ks := make([]string, 0, len(m))
	for k := range m {
		ks = append(ks, k)
	}
	sort.Strings(ks)
	return ks
}

// ReadReplay returns the op lines of a replay file written by ./check.
func ReadReplay(path string) ([]string, error) {
	b, err := os.ReadFile(path)
	if err != nil {
		return nil, err
	}
	var r struct {
		Ops []string `json:"ops"`
	}
	if err := json.Unmarshal(b, &r); err != nil {
		return nil, err
	}
	return r.Ops, nil
}
